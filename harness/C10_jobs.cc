// C10 — every job in a shared job file is executed exactly once and never lost.
// K simulated processes x T threads run the REAL ProgObserver<std::vector<Job>> code
// (progressobserver.cc, job.cc compiled from the source tree into this harness) inside one OS
// process under the vsched controlled scheduler.  Process identity = interposed getpid();
// the inter-process lock is the real boost::interprocess::file_lock running on an interposed
// fcntl() that implements POSIX record-lock semantics per simulated pid; every open/read/
// write on job file and backup is a scheduling point, a crash point and a point where the
// "file or backup is complete" invariant is evaluated.
#ifndef _GNU_SOURCE
#define _GNU_SOURCE
#endif
#include <dlfcn.h>
#include <fcntl.h>
#include <stdarg.h>
#include <sys/stat.h>
#include <sys/syscall.h>
#include <sys/uio.h>
#include <unistd.h>

#include <boost/program_options.hpp>
#include <fstream>
#include <map>
#include <set>
#include <sstream>

#include "bsx.h"
#include "vsched/explore.h"
#include "vsched/vsched.h"
#include "votca/xtp/job.h"
#include "votca/xtp/progressobserver.h"
#include "votca/xtp/qmthread.h"

using namespace votca;
using namespace votca::xtp;
namespace po = boost::program_options;

enum { EV_EXEC = 1, EV_REPORT, EV_SYNC_BEGIN, EV_SYNC_END, EV_IO, EV_CRASH, EV_INV_FAIL, EV_PROC_DONE, EV_EXC, EV_COMMIT, EV_INSTANTS, EV_ABS, EV_DUR_FAIL };
enum { K_NONE = 0, K_FILE = 1, K_BACKUP = 2, K_LOCK = 3 };
// abstract protocol steps (models/JobFile.tla): logged as EV_ABS(pid, step)
enum { A_LOCK = 1, A_LOAD, A_TRUNCB, A_WRITEB, A_TRUNCF, A_WRITEF, A_UNLOCK, A_EXEC, A_REPORT };
static const char *ABSNAME[] = {"?", "lock", "load", "truncB", "writeB", "truncF", "writeF", "unlock", "exec", "report"};

// ------------------------------------------------------------------ I/O + lock model (baton holder only)
namespace io {
bool on = false;
int wmode_of_fd[1024];  // 1 = opened for writing
std::vector<std::pair<int, int>> abs_expect;  // model path forced onto the implementation: (pid, step)
size_t abs_pos = 0;
bool abs_mismatch = false;
void log_abs(int step) {
  int pid = vs_simpid();
  if (!abs_expect.empty() && abs_pos < abs_expect.size() && (abs_expect[abs_pos].first != pid || abs_expect[abs_pos].second != step)) abs_mismatch = true;
  abs_pos++;
  vs_log(EV_ABS, pid, step);
}
int kind_of_fd[1024];
int pid_of_fd[1024];
int nwrites_fd[1024], nreads_fd[1024];  // calls since open: only the first of each is a scheduling point
struct Lk { int pid, type; };
std::vector<Lk> locks;          // locks on the lock file, per simulated pid
std::string mirror[3];          // current bytes of job file [1] and backup [2]
std::string committed;          // job file content after its last completed write (close)
int ioevents = 0;
int crash_at = -1;              // I/O event index at which the process crashes (-1: never)
int crash_bytes = -1;           // bytes of that write that still reach the file
int scan_mode = 0;              // 0 off, 1 write boundaries + 3 interior bytes, 2 every byte
long instants = 0;
int complete_cache[3] = {-1, -1, -1};
int njobs_expected = 0;

int classify(const char *path) {
  if (!path) return K_NONE;
  const char *b = strrchr(path, '/');
  b = b ? b + 1 : path;
  if (!strcmp(b, "jobs.xml")) return K_FILE;
  if (!strcmp(b, "jobs.xml~")) return K_BACKUP;
  if (!strcmp(b, "lock.f")) return K_LOCK;
  return K_NONE;
}
bool controlled() { return on && vs_active() && vs_tid() >= 0; }

// Is `content` a complete job list (parsed by the real LOAD_JOBS, all ids 1..n once)?
// results (job id -> output) of the COMPLETE jobs of a parsed copy
typedef std::map<long, std::string> Results;
Results results_cache[3];
Results committed_results;
std::string committed_parsed_for;
bool complete(const std::string &content, Results *res = nullptr) {
  if (res) res->clear();
  if (content.empty()) return false;
  int fd = (int)syscall(SYS_openat, AT_FDCWD, "view.xml", O_WRONLY | O_CREAT | O_TRUNC, 0644);
  if (fd < 0) return false;
  size_t off = 0;
  while (off < content.size()) {
    long w = syscall(SYS_write, fd, content.data() + off, content.size() - off);
    if (w <= 0) break;
    off += (size_t)w;
  }
  syscall(SYS_close, fd);
  bool was = on;
  on = false;  // the parse below must not be seen as simulated I/O
  bool ok = false;
  try {
    std::vector<Job> jobs = LOAD_JOBS("view.xml");
    ok = (int)jobs.size() == njobs_expected;
    for (int i = 0; ok && i < (int)jobs.size(); i++) ok = jobs[i].getId() == i + 1;
    if (ok && res)
      for (auto &j : jobs)
        if (j.isComplete()) (*res)[j.getId()] = j.hasOutput() ? j.getOutput().as<std::string>() : std::string();
  } catch (...) { ok = false; }
  on = was;
  return ok;
}
// invariants at one crash instant: (1) job file or backup is a complete list; (2) every result that was in the job
// file after its last completed rewrite is in the copy that survives (the job file if complete, else the backup)
void check_instant(const char *what) {
  instants++;
  for (int k = 1; k <= 2; k++)
    if (complete_cache[k] < 0) complete_cache[k] = complete(mirror[k], &results_cache[k]) ? 1 : 0;
  if (!complete_cache[K_FILE] && !complete_cache[K_BACKUP]) { vs_log(EV_INV_FAIL, ioevents, (int64_t)mirror[K_FILE].size()); return; }
  if (committed_parsed_for != committed) {
    committed_parsed_for = committed;
    if (!complete(committed, &committed_results)) committed_results.clear();
  }
  const Results &good = complete_cache[K_FILE] ? results_cache[K_FILE] : results_cache[K_BACKUP];
  for (auto &kv : committed_results) {
    auto it = good.find(kv.first);
    if (it == good.end() || it->second != kv.second) { vs_log(EV_DUR_FAIL, ioevents, kv.first); break; }
  }
  (void)what;
}
// the job file as of its last completed rewrite: what a crash must not lose
void dump_committed() {
  int fd = (int)syscall(SYS_openat, AT_FDCWD, "committed.xml", O_WRONLY | O_CREAT | O_TRUNC, 0644);
  if (fd < 0) return;
  size_t off = 0;
  while (off < committed.size()) { long w = syscall(SYS_write, fd, committed.data() + off, committed.size() - off); if (w <= 0) break; off += (size_t)w; }
  syscall(SYS_close, fd);
}
bool lock_free_for(int pid, int type) {
  for (auto &l : locks)
    if (l.pid != pid && (type == F_WRLCK || l.type == F_WRLCK)) return false;
  return true;
}
struct LkReq { int pid, type; };
int lock_enabled(void *a) {
  LkReq *r = (LkReq *)a;
  return lock_free_for(r->pid, r->type) ? 1 : 0;
}
void set_lock(int pid, int type) {
  for (auto it = locks.begin(); it != locks.end();)
    if (it->pid == pid) it = locks.erase(it); else ++it;
  if (type != F_UNLCK) locks.push_back({pid, type});
}
}  // namespace io

extern "C" {
typedef FILE *(*fopen_fn)(const char *, const char *);
typedef int (*fclose_fn)(FILE *);
static fopen_fn real_fopen64;
static fclose_fn real_fclose;

pid_t getpid(void) {
  int p = vs_simpid();
  if (p) return p;
  return (pid_t)syscall(SYS_getpid);
}

static FILE *do_fopen(const char *path, const char *mode) {
  if (!real_fopen64) real_fopen64 = (fopen_fn)dlsym(RTLD_NEXT, "fopen64");
  int k = io::classify(path);
  if (!io::controlled() || k == K_NONE || k == K_LOCK) return real_fopen64(path, mode);
  vs_yield(10 * k + 1);  // scheduling point before the open (an open for writing truncates)
  int ev = io::ioevents++;
  vs_log(EV_IO, ev, 10 * k + 1);
  bool trunc = strchr(mode, 'w') != nullptr;
  if (trunc && io::crash_at == ev) {  // crash right before the truncation
    vs_log(EV_CRASH, ev, 0);
    io::dump_committed();
    _exit(0);
  }
  FILE *f = real_fopen64(path, mode);
  if (f) {
    int fd = fileno(f);
    io::kind_of_fd[fd] = k;
    io::pid_of_fd[fd] = vs_simpid();
    io::nwrites_fd[fd] = io::nreads_fd[fd] = 0;
    io::wmode_of_fd[fd] = trunc ? 1 : 0;
    if (trunc) io::log_abs(k == K_FILE ? A_TRUNCF : A_TRUNCB);
    if (trunc) {
      io::mirror[k].clear();
      io::complete_cache[k] = -1;
      if (io::scan_mode) io::check_instant("truncate");
    }
  }
  return f;
}
FILE *fopen64(const char *path, const char *mode) { return do_fopen(path, mode); }
FILE *fopen(const char *path, const char *mode) { return do_fopen(path, mode); }

int fclose(FILE *f) {
  if (!real_fclose) real_fclose = (fclose_fn)dlsym(RTLD_NEXT, "fclose");
  int fd = f ? fileno(f) : -1;
  int k = (fd >= 0 && fd < 1024) ? io::kind_of_fd[fd] : 0;
  int rc = real_fclose(f);  // flushes through our write()
  if (k && fd >= 0 && fd < 1024) {
    io::kind_of_fd[fd] = 0;
    if (io::controlled() && k != K_LOCK) {
      if (io::wmode_of_fd[fd]) io::log_abs(k == K_FILE ? A_WRITEF : A_WRITEB);
      else if (k == K_FILE) io::log_abs(A_LOAD);
    }
    if (k == K_FILE && io::wmode_of_fd[fd] && io::controlled()) { io::committed = io::mirror[K_FILE]; vs_log(EV_COMMIT, io::ioevents, 0); }
  }
  return rc;
}

static ssize_t watched_write(int fd, const char *buf, size_t n) {
  int k = io::kind_of_fd[fd];
  // between the truncating open and the close the file is torn throughout: one scheduling point
  // (before the first write) represents all interleavings; every write stays a crash point
  if (io::nwrites_fd[fd]++ == 0) vs_yield(10 * k + 2);
  int ev = io::ioevents++;
  vs_log(EV_IO, ev, 10 * k + 2);
  if (io::crash_at == ev) {
    size_t b = io::crash_bytes < 0 ? 0 : std::min((size_t)io::crash_bytes, n);
    size_t off = 0;
    while (off < b) {
      long w = syscall(SYS_write, fd, buf + off, b - off);
      if (w <= 0) break;
      off += (size_t)w;
    }
    vs_log(EV_CRASH, ev, (int64_t)b);
    io::dump_committed();
    _exit(0);
  }
  if (io::scan_mode) {
    // every crash instant inside this write: after b bytes, b = 1..n (boundaries + a few interior in mode 1)
    std::string base = io::mirror[k];
    std::vector<size_t> bs;
    if (io::scan_mode >= 2) for (size_t b = 1; b <= n; b++) bs.push_back(b);
    else { for (size_t b : {(size_t)1, n / 2, n - 1, n}) if (b >= 1 && b <= n) bs.push_back(b); }
    for (size_t b : bs) {
      io::mirror[k] = base + std::string(buf, b);
      io::complete_cache[k] = -1;
      io::check_instant("write");
    }
    io::mirror[k] = base;
  }
  size_t off = 0;
  while (off < n) {
    long w = syscall(SYS_write, fd, buf + off, n - off);
    if (w <= 0) return -1;
    off += (size_t)w;
  }
  io::mirror[k].append(buf, n);
  io::complete_cache[k] = -1;
  return (ssize_t)n;
}

ssize_t write(int fd, const void *buf, size_t n) {
  if (fd >= 0 && fd < 1024 && io::kind_of_fd[fd] && io::kind_of_fd[fd] != K_LOCK && io::controlled())
    return watched_write(fd, (const char *)buf, n);
  return syscall(SYS_write, fd, buf, n);
}
ssize_t writev(int fd, const struct iovec *iov, int cnt) {
  if (fd >= 0 && fd < 1024 && io::kind_of_fd[fd] && io::kind_of_fd[fd] != K_LOCK && io::controlled()) {
    std::string all;
    for (int i = 0; i < cnt; i++) all.append((const char *)iov[i].iov_base, iov[i].iov_len);
    return watched_write(fd, all.data(), all.size());
  }
  return syscall(SYS_writev, fd, iov, cnt);
}
ssize_t read(int fd, void *buf, size_t n) {
  if (fd >= 0 && fd < 1024 && io::kind_of_fd[fd] && io::kind_of_fd[fd] != K_LOCK && io::controlled()) {
    int k = io::kind_of_fd[fd];
    if (io::nreads_fd[fd]++ == 0) vs_yield(10 * k + 3);
    vs_log(EV_IO, io::ioevents++, 10 * k + 3);
  }
  return syscall(SYS_read, fd, buf, n);
}

static int do_open(const char *path, int flags, mode_t mode) {
  int fd = (int)syscall(SYS_openat, AT_FDCWD, path, flags, mode);
  if (fd >= 0 && fd < 1024) {
    int k = io::classify(path);
    io::kind_of_fd[fd] = (io::controlled() && k == K_LOCK) ? K_LOCK : 0;
    io::pid_of_fd[fd] = vs_simpid();
  }
  return fd;
}
int open(const char *path, int flags, ...) {
  mode_t mode = 0;
  if (flags & (O_CREAT | O_TMPFILE)) { va_list ap; va_start(ap, flags); mode = va_arg(ap, mode_t); va_end(ap); }
  return do_open(path, flags, mode);
}
int open64(const char *path, int flags, ...) {
  mode_t mode = 0;
  if (flags & (O_CREAT | O_TMPFILE)) { va_list ap; va_start(ap, flags); mode = va_arg(ap, mode_t); va_end(ap); }
  return do_open(path, flags, mode);
}
int close(int fd) {
  if (fd >= 0 && fd < 1024 && io::kind_of_fd[fd] == K_LOCK) {
    // POSIX: closing any descriptor of the file drops all record locks of the process
    if (io::controlled()) io::set_lock(io::pid_of_fd[fd], F_UNLCK);
    io::kind_of_fd[fd] = 0;
  } else if (fd >= 0 && fd < 1024) io::kind_of_fd[fd] = 0;
  return (int)syscall(SYS_close, fd);
}
static int do_fcntl(int fd, int cmd, void *arg) {
  if (fd >= 0 && fd < 1024 && io::kind_of_fd[fd] == K_LOCK && io::controlled() && (cmd == F_SETLK || cmd == F_SETLKW)) {
    struct flock *fl = (struct flock *)arg;
    int pid = vs_simpid();
    if (fl->l_type == F_UNLCK) {
      vs_yield(38);  // a point before the release, so that the steps of models/JobFile.tla are separately schedulable
      io::set_lock(pid, F_UNLCK);
      io::log_abs(A_UNLOCK);
      return 0;
    }
    io::LkReq rq{pid, fl->l_type};
    if (cmd == F_SETLKW) {
      vs_point_cond(VS_OP_FLOCK, fl->l_type == F_WRLCK ? 2 : 1, io::lock_enabled, &rq);
    } else {
      vs_yield(39);
      if (!io::lock_free_for(pid, fl->l_type)) { errno = EAGAIN; return -1; }
    }
    io::set_lock(pid, fl->l_type);
    io::log_abs(A_LOCK);
    return 0;
  }
  return (int)syscall(SYS_fcntl, fd, cmd, arg);
}
int fcntl(int fd, int cmd, ...) { va_list ap; va_start(ap, cmd); void *a = va_arg(ap, void *); va_end(ap); return do_fcntl(fd, cmd, a); }
int fcntl64(int fd, int cmd, ...) { va_list ap; va_start(ap, cmd); void *a = va_arg(ap, void *); va_end(ap); return do_fcntl(fd, cmd, a); }
}  // extern "C"

// ------------------------------------------------------------------ driver
struct Cfg {
  int K = 1, T = 1, jobs = 2, cache = 1, maxjobs = -1;
  int seed = 0;          // pre-seeded job file pattern (0 = all AVAILABLE), see seed_status()
  std::string restart;   // restart pattern of the first process (and of the others unless restart2 is set)
  std::string restart2 = "=";  // restart pattern of processes 2.. ("=" : same as restart)
  int fail = 0;          // job id whose (stub) evaluation FAILS with an error text (0 = none); -j: job j fails with an error text AND an output
  int crash_at = -1, crash_bytes = -1, scan = 0;
  bool recovery = false; // second phase after a crash: one fresh process with restart stat(ASSIGNED)
  bool ul = false;       // the instant after every thread-mutex release is a scheduling point too
};
static std::string cfgstr(const Cfg &c) {
  return "K=" + std::to_string(c.K) + ";T=" + std::to_string(c.T) + ";jobs=" + std::to_string(c.jobs) + ";cache=" + std::to_string(c.cache) +
         ";maxjobs=" + std::to_string(c.maxjobs) + ";seed=" + std::to_string(c.seed) + ";restart=" + c.restart + ";restart2=" + c.restart2 + ";fail=" + std::to_string(c.fail) + ";crash=" +
         std::to_string(c.crash_at) + ":" + std::to_string(c.crash_bytes) + ";scan=" + std::to_string(c.scan) + (c.ul ? ";ul=1" : "");
}
static Cfg parsecfg(std::map<std::string, std::string> &m) {
  Cfg c;
  c.K = atoi(m["K"].c_str()); c.T = atoi(m["T"].c_str()); c.jobs = atoi(m["jobs"].c_str()); c.cache = atoi(m["cache"].c_str());
  c.maxjobs = atoi(m["maxjobs"].c_str()); c.seed = atoi(m["seed"].c_str()); c.restart = m["restart"]; c.scan = atoi(m["scan"].c_str());
  c.restart2 = m.count("restart2") ? m["restart2"] : "=";
  c.fail = m.count("fail") ? atoi(m["fail"].c_str()) : 0;
  c.ul = m.count("ul") && m["ul"] == "1";
  auto cr = bsx::split(m["crash"], ':');
  if (cr.size() == 2) { c.crash_at = atoi(cr[0].c_str()); c.crash_bytes = atoi(cr[1].c_str()); }
  return c;
}

// seed patterns: status/host of job j (1-based) in the initial job file
struct SeedJob { std::string status, host, output; };
static const char *HOSTA = "deadhost:4242";
static const char *HOSTB = "otherhost:777";
static SeedJob seed_job(int seed, int j) {
  switch (seed) {
    case 0: return {"AVAILABLE", "", ""};
    case 1: {  // mix: 1 AVAILABLE, 2 FAILED@A, 3 ASSIGNED@A, 4 COMPLETE@B, then repeat
      switch ((j - 1) % 4) {
        case 0: return {"AVAILABLE", "", ""};
        case 1: return {"FAILED", HOSTA, ""};
        case 2: return {"ASSIGNED", HOSTA, ""};
        default: return {"COMPLETE", HOSTB, "old" + std::to_string(j)};
      }
    }
    case 2: {  // 1 COMPLETE@B, 2 ASSIGNED@B, 3 FAILED@B, 4 AVAILABLE
      switch ((j - 1) % 4) {
        case 0: return {"COMPLETE", HOSTB, "old" + std::to_string(j)};
        case 1: return {"ASSIGNED", HOSTB, ""};
        case 2: return {"FAILED", HOSTB, ""};
        default: return {"AVAILABLE", "", ""};
      }
    }
    case 3: {  // odd jobs COMPLETE@B (with a result), even jobs AVAILABLE
      if (j % 2 == 1) return {"COMPLETE", HOSTB, "old" + std::to_string(j)};
      return {"AVAILABLE", "", ""};
    }
  }
  return {"AVAILABLE", "", ""};
}
static std::string initial_file(const Cfg &c) {
  std::ostringstream o;
  o << "<jobs>\n";
  for (int j = 1; j <= c.jobs; j++) {
    SeedJob s = seed_job(c.seed, j);
    o << "\t<job>\n\t\t<id>" << j << "</id>\n\t\t<tag>t" << j << "</tag>\n\t\t<input>in" << j << "</input>\n\t\t<status>" << s.status << "</status>\n";
    if (!s.host.empty()) o << "\t\t<host>" << s.host << "</host>\n\t\t<time>00:00:00</time>\n";
    if (!s.output.empty()) o << "\t\t<output>" << s.output << "</output>\n";
    o << "\t</job>\n";
  }
  o << "</jobs>\n";
  return o.str();
}
static void raw_write_file(const char *name, const std::string &s) {
  int fd = (int)syscall(SYS_openat, AT_FDCWD, name, O_WRONLY | O_CREAT | O_TRUNC, 0644);
  size_t off = 0;
  while (off < s.size()) { long w = syscall(SYS_write, fd, s.data() + off, s.size() - off); if (w <= 0) break; off += (size_t)w; }
  syscall(SYS_close, fd);
}
static std::string raw_read_file(const char *name) {
  std::string s;
  int fd = (int)syscall(SYS_openat, AT_FDCWD, name, O_RDONLY, 0);
  if (fd < 0) return s;
  char b[65536];
  for (;;) { long r = syscall(SYS_read, fd, b, sizeof b); if (r <= 0) break; s.append(b, (size_t)r); }
  syscall(SYS_close, fd);
  return s;
}

typedef ProgObserver<std::vector<Job>> Obs;

struct Proc;
class JobOp : public QMThread {
 public:
  Proc *proc = nullptr;
  void Run() override;
};
struct Proc : public tools::Thread {
  int pid = 0;
  Cfg cfg;
  Obs obs;
  QMThread master;
  std::vector<std::unique_ptr<JobOp>> ops;
  void Run() override;
};

// transcription of ParallelXJobCalc::JobOperator::Run (parallelxjobcalc.cc needs libint)
void JobOp::Run() {
  try {
    while (true) {
      Job *job = proc->obs.RequestNextJob(*this);
      if (job == nullptr) break;
      vs_yield(500);  // (a point between the end of RequestNextJob and the start of the job, as in the model)
      vs_log(EV_EXEC, proc->pid * 100 + getId(), job->getId());
      io::log_abs(A_EXEC);
      Job::JobResult res;
      if (job->getId() == std::abs(proc->cfg.fail)) {
        res.setStatus(Job::FAILED);
        res.setError("err" + std::to_string(job->getId()) + "by" + std::to_string(proc->pid));
        // (a calculator may report a partial result together with the error, as the QM/MM calculator does)
        if (proc->cfg.fail < 0) res.setOutput("out" + std::to_string(job->getId()) + "by" + std::to_string(proc->pid));
      } else {
        res.setStatus(Job::COMPLETE);
        res.setOutput("out" + std::to_string(job->getId()) + "by" + std::to_string(proc->pid));
      }
      vs_yield(501);
      proc->obs.ReportJobDone(*job, res, *this);
      vs_log(EV_REPORT, proc->pid * 100 + getId(), job->getId());
      io::log_abs(A_REPORT);
    }
  } catch (std::exception &e) {
    vs_log(EV_EXC, proc->pid, 1);
  }
}
// transcription of ParallelXJobCalc::Evaluate (observer part)
void Proc::Run() {
  vs_set_simpid(pid);
  try {
    std::vector<std::string> av{"proc", "--file", "lock.f", "--cache", std::to_string(cfg.cache), "--maxjobs", std::to_string(cfg.maxjobs),
                                "--restart", cfg.restart};
    std::vector<const char *> argv;
    for (auto &s : av) argv.push_back(s.c_str());
    po::options_description d;
    d.add_options()("file", po::value<std::string>())("cache", po::value<Index>())("maxjobs", po::value<Index>())("restart", po::value<std::string>()->default_value(""));
    po::variables_map vm;
    po::store(po::command_line_parser((int)argv.size(), argv.data()).options(d).run(), vm);
    po::notify(vm);
    master.setId(-1);
    master.getLogger().setReportLevel(Log::error);
    obs.InitCmdLineOpts(vm);
    obs.InitFromProgFile("jobs.xml", master);
    for (int t = 0; t < cfg.T; t++) {
      ops.push_back(std::make_unique<JobOp>());
      ops.back()->proc = this;
      ops.back()->setId(t);
      ops.back()->getLogger().setReportLevel(Log::error);
    }
    for (auto &o : ops) o->Start();
    for (auto &o : ops) o->WaitDone();
    ops.clear();
    obs.SyncWithProgFile(master);
    vs_log(EV_PROC_DONE, pid, 0);
  } catch (std::exception &e) {
    vs_log(EV_EXC, pid, 0);
  }
}

static const int PID0 = 1001;

// scheduling oracle used when a model path is forced onto the implementation: run the root thread whenever it can
// run (it only creates and joins the process threads), otherwise a thread of the process whose step comes next
static int abs_chooser(int, const int *list, int n, void *) {
  for (int i = 0; i < n; i++) if (list[i] == 0) return i;
  if (io::abs_mismatch) return -1;
  if (io::abs_pos >= io::abs_expect.size()) return 0;
  int want = io::abs_expect[io::abs_pos].first;
  for (int i = 0; i < n; i++) if (vs_thread_simpid(list[i]) == want) return i;
  return -1;
}

static void child_body(const Cfg &c, vs_shared *shm, const std::vector<int> &choices, int horizon) {
  if (!freopen("/dev/null", "w", stdout)) {}
  if (!freopen("/dev/null", "w", stderr)) {}
  mkdir("e", 0755);
  if (chdir("e") != 0) _exit(9);
  if (!c.recovery) {
    raw_write_file("jobs.xml", initial_file(c));
    unlink("jobs.xml~");
  }
  raw_write_file("lock.f", "");
  io::njobs_expected = c.jobs;
  io::mirror[K_FILE] = raw_read_file("jobs.xml");
  io::mirror[K_BACKUP] = raw_read_file("jobs.xml~");
  io::committed = io::mirror[K_FILE];
  io::crash_at = c.crash_at;
  io::crash_bytes = c.crash_bytes;
  io::scan_mode = c.scan;
  std::vector<std::unique_ptr<Proc>> procs;
  for (int p = 0; p < c.K; p++) {
    procs.push_back(std::make_unique<Proc>());
    procs.back()->pid = (c.recovery ? 2001 : PID0) + p;
    procs.back()->cfg = c;
    if (p > 0 && c.restart2 != "=") procs.back()->cfg.restart = c.restart2;
  }
  if (!io::abs_expect.empty()) vs_set_chooser(abs_chooser, nullptr);
  vs_set_unlock_points(c.ul ? 1 : 0);
  vs_begin(shm, choices.data(), (int)choices.size(), horizon);
  io::on = true;
  // a new thread inherits the simulated pid of its creator: create each process thread under its own pid
  for (auto &p : procs) { vs_set_simpid(p->pid); p->Start(); }
  vs_set_simpid(0);
  for (auto &p : procs) p->WaitDone();
  io::on = false;
  vs_log(EV_INSTANTS, io::instants, 0);
  vs_end();
  _exit(0);
}

struct JobView { long id = 0; std::string status, host, output, error; bool has_host = false, has_output = false, has_error = false; };
static bool load_view(const char *path, std::vector<JobView> &out, std::string &err) {
  out.clear();
  try {
    std::vector<Job> jobs = LOAD_JOBS(path);
    for (auto &j : jobs) {
      JobView v;
      v.id = j.getId(); v.status = j.getStatusStr(); v.has_host = j.hasHost(); v.has_output = j.hasOutput();
      if (j.hasHost()) v.host = j.getHost();
      if (j.hasOutput()) v.output = j.getOutput().as<std::string>();
      v.has_error = j.hasError();
      if (j.hasError()) v.error = j.getError();
      out.push_back(v);
    }
    return true;
  } catch (std::exception &e) { err = e.what(); return false; }
}
static bool complete_view(const std::vector<JobView> &v, int n) {
  if ((int)v.size() != n) return false;
  for (int i = 0; i < n; i++) if (v[i].id != i + 1) return false;
  return true;
}

static std::string hostname_str() { char h[128]; gethostname(h, sizeof h); return h; }

// which seeded jobs does a restart pattern re-open (statement: AVAILABLE + named host + named status).
// Pattern grammar as documented: host(h1,h2) stat(S1,S2), blanks ignored.
static bool eligible_for(const std::string &restart, int seed, int j) {
  SeedJob s = seed_job(seed, j);
  if (s.status == "AVAILABLE") return true;
  std::string p;
  for (char ch : restart) if (ch != ' ') p += ch;
  std::string cat, tok;
  bool hit = false;
  auto flush = [&]() {
    if (tok.empty()) return;
    if (tok == "host" || tok == "stat") cat = tok;
    else if (cat == "host" && !s.host.empty() && tok == s.host) hit = true;
    else if (cat == "stat" && tok == s.status) hit = true;
    tok.clear();
  };
  for (char ch : p) {
    if (ch == '(' || ch == ',' || ch == ')') flush();
    else tok += ch;
  }
  flush();
  return hit;
}
// every process scans the whole list, so a job is (re-)opened iff some process's pattern names it
static bool eligible(const Cfg &c, int j) {
  if (eligible_for(c.restart, c.seed, j)) return true;
  if (c.K > 1 && c.restart2 != "=" && eligible_for(c.restart2, c.seed, j)) return true;
  return false;
}

struct Verdict { bool ok = true; std::string key, what, obs; };

static Verdict judge(const Cfg &c, const vsx::Exec &x) {
  Verdict v;
  const vs_shared *shm = x.shm;
  auto bad = [&](const std::string &k, const std::string &w) { if (v.ok) { v.ok = false; v.key = k; v.what = w; } };
  std::string tag = c.K > 1 ? "multiprocess" : (c.T > 1 ? "multithread" : "single");
  if (x.verdict == VS_DIVERGED || x.verdict == VS_INTERNAL) { bad("MACHINERY", "scheduler: " + x.message); return v; }
  if (x.verdict == VS_DEADLOCK) { bad(tag + "-deadlock", x.message); return v; }
  if (x.verdict == VS_HORIZON) { bad(tag + "-livelock", "step horizon exceeded"); return v; }
  if (x.crashed || x.verdict != VS_COMPLETED) { bad(tag + "-crash", "child status " + std::to_string(x.status) + " verdict " + std::to_string(x.verdict) + " " + x.message); return v; }
  std::map<long, std::vector<long>> execs;  // job -> executors (pid*100+thread)
  std::ostringstream obs;
  int procs_done = 0, exc = 0, invfail = 0, durfail = 0;
  long invfail_ev = -1, durfail_ev = -1, durfail_job = -1;
  for (int i = 0; i < shm->nevents; i++) {
    const vs_event &e = shm->events[i];
    if (e.kind == EV_EXEC) { execs[e.b].push_back(e.a); obs << "X" << e.a << ":" << e.b << " "; }
    if (e.kind == EV_PROC_DONE) procs_done++;
    if (e.kind == EV_EXC) exc++;
    if (e.kind == EV_INV_FAIL) { invfail++; if (invfail_ev < 0) invfail_ev = e.a; }
    if (e.kind == EV_DUR_FAIL) { durfail++; if (durfail_ev < 0) { durfail_ev = e.a; durfail_job = e.b; } }
  }
  if (invfail) bad(tag + "-no-complete-copy", "at I/O event " + std::to_string(invfail_ev) + " neither the job file nor its backup was a complete job list (" + std::to_string(invfail) + " instants)");
  if (durfail) bad(tag + "-crash-instant-loses-committed-result", "at I/O event " + std::to_string(durfail_ev) + " a crash would lose the result of job " + std::to_string(durfail_job) +
                   ", which was in the job file after its last completed rewrite but is not in the copy that would survive (" + std::to_string(durfail) + " instants)");
  if (exc) bad(tag + "-exception", "a worker or process died with an exception (e.g. job file unparseable / out of sync when loaded)");
  if (procs_done != c.K) bad(tag + "-process-did-not-finish", std::to_string(procs_done) + " of " + std::to_string(c.K) + " processes finished");
  for (auto &kv : execs)
    if (kv.second.size() > 1) {
      std::string who;
      for (long w : kv.second) who += std::to_string(w / 100) + "/t" + std::to_string(w % 100) + " ";
      bool samepid = true;
      for (long w : kv.second) if (w / 100 != kv.second[0] / 100) samepid = false;
      bad(std::string(samepid ? "thread" : "process") + "-job-executed-twice", "job " + std::to_string(kv.first) + " executed by " + who);
    }
  for (auto &kv : execs)
    if (!eligible(c, (int)kv.first)) bad("restart-executed-ineligible-job", "job " + std::to_string(kv.first) + " (seed status " + seed_job(c.seed, (int)kv.first).status + ") was executed with restart pattern '" + c.restart + "'");
  int nelig = 0;
  for (int j = 1; j <= c.jobs; j++) if (eligible(c, j)) nelig++;
  long cap = c.maxjobs < 0 ? nelig : std::min<long>(nelig, (long)c.maxjobs * c.K);
  if ((long)execs.size() < cap) {
    std::string which = c.restart.empty() ? tag + "-job-not-executed" : "restart-eligible-job-not-executed";
    bad(which, std::to_string(execs.size()) + " jobs executed, expected " + std::to_string(cap) + " (eligible " + std::to_string(nelig) + ")");
  }
  if (c.maxjobs >= 0) {
    std::map<long, int> perproc;
    for (auto &kv : execs) for (long w : kv.second) perproc[w / 100]++;
    for (auto &kv : perproc) if (kv.second > c.maxjobs) bad("maxjobs-exceeded", "process " + std::to_string(kv.first) + " started " + std::to_string(kv.second) + " jobs");
  }
  // final job file
  std::vector<JobView> fin;
  std::string err;
  if (!load_view("e/jobs.xml", fin, err)) { bad(tag + "-final-file-unparseable", err); return v; }
  if (!complete_view(fin, c.jobs)) { bad(tag + "-final-file-incomplete", "final job file lists " + std::to_string(fin.size()) + " jobs"); return v; }
  std::string host = hostname_str();
  for (int j = 1; j <= c.jobs; j++) {
    const JobView &f = fin[j - 1];
    SeedJob s = seed_job(c.seed, j);
    auto it = execs.find(j);
    if (it != execs.end() && it->second.size() == 1) {
      long pid = it->second[0] / 100;
      std::string wanthost = host + ":" + std::to_string(pid);
      std::string wantout = "out" + std::to_string(j) + "by" + std::to_string(pid);
      if (j == std::abs(c.fail)) {
        std::string wanterr = "err" + std::to_string(j) + "by" + std::to_string(pid);
        bool outok = c.fail > 0 ? !f.has_output : (f.has_output && f.output == wantout);
        if (f.status != "FAILED" || !f.has_error || f.error != wanterr || f.host != wanthost || !outok)
          bad(std::string(c.K > 1 ? "multiprocess" : "local") + "-failed-result-lost", "job " + std::to_string(j) + " failed in " + std::to_string(pid) + " with an error text but the final file says status=" + f.status + " host=" + f.host + " error=" + f.error + (f.has_output ? " (and carries the output " + f.output + ")" : " (no output)") + (c.fail < 0 ? "; the job had reported error AND output " + wantout : ""));
      } else if (f.status != "COMPLETE" || !f.has_output || f.output != wantout || f.host != wanthost)
        bad(std::string(c.K > 1 ? "multiprocess" : "local") + "-result-lost", "job " + std::to_string(j) + " executed by " + std::to_string(pid) + " but final file says status=" + f.status + " host=" + f.host + " output=" + f.output);
    } else if (it == execs.end()) {
      if (f.status != s.status || (f.has_host ? f.host : "") != s.host || (f.has_output ? f.output : "") != s.output)
        bad("untouched-job-changed", "job " + std::to_string(j) + " was not executed but changed to status=" + f.status + " host=" + f.host);
    }
    obs << "F" << j << ":" << f.status << "@" << (f.has_host ? f.host.substr(f.host.find(':') + 1) : "-") << " ";
  }
  v.obs = obs.str();
  return v;
}

// ------------------------------------------------------------------ crash + recovery (K=1)
// After a crash at (event, bytes): pick the complete copy, restart one fresh process with
// host(<dead>) and check the end state.
static Verdict judge_crash_and_recover(const Cfg &c, vsx::Explorer &ex, const vsx::Exec &x, int horizon, long long &recov_runs) {
  Verdict v;
  auto bad = [&](const std::string &k, const std::string &w) { if (v.ok) { v.ok = false; v.key = k; v.what = w; } };
  const vs_shared *shm = x.shm;
  bool crashed = false;
  std::set<long> executed_before;
  int invfail = 0;
  for (int i = 0; i < shm->nevents; i++) {
    if (shm->events[i].kind == EV_CRASH) crashed = true;
    if (shm->events[i].kind == EV_REPORT) executed_before.insert(shm->events[i].b);
    if (shm->events[i].kind == EV_INV_FAIL) invfail++;
  }
  if (!crashed) { v.obs = "nocrash"; return v; }  // crash index beyond the end of this history
  std::vector<JobView> f, b;
  std::string e1, e2;
  bool okf = load_view("e/jobs.xml", f, e1) && complete_view(f, c.jobs);
  bool okb = load_view("e/jobs.xml~", b, e2) && complete_view(b, c.jobs);
  if (!okf && !okb) { bad("crash-no-complete-copy", "after the crash neither jobs.xml (" + e1 + ") nor jobs.xml~ (" + e2 + ") is a complete job list"); return v; }
  const std::vector<JobView> &g0 = okf ? f : b;
  // results that had reached the job file in a completed rewrite before the crash must be in the surviving copy
  {
    std::vector<JobView> cm;
    std::string e3;
    if (load_view("e/committed.xml", cm, e3) && complete_view(cm, c.jobs))
      for (auto &j : cm)
        if (j.status == "COMPLETE" && (g0[j.id - 1].status != "COMPLETE" || g0[j.id - 1].output != j.output))
          bad("crash-lost-committed-result", "job " + std::to_string(j.id) + " was COMPLETE in the job file before the crash but the surviving copy (" + (okf ? "job file" : "backup") + ") says " + g0[j.id - 1].status);
  }
  if (!okf) {
    // An impatient user first starts a new process on the torn job file, without restoring anything.  Whatever that process
    // does (the unchanged code reports the parse error), the statement still holds afterwards: one of the two files is a
    // complete job list and it holds every result that had reached the job file before the crash.
    Cfg t = c;
    t.recovery = true; t.crash_at = -1; t.crash_bytes = -1; t.scan = 0; t.K = 1;
    t.restart = "stat(ASSIGNED)";
    ex.body = [&](vs_shared *s, const std::vector<int> &ch) { child_body(t, s, ch, horizon); };
    vsx::Exec z = ex.run({});
    recov_runs++;
    if (z.crashed || (z.verdict != VS_COMPLETED && z.verdict != VS_RUNNING)) { bad("restart-on-torn-file-did-not-end", "a process started on the torn job file ended with verdict " + std::to_string(z.verdict) + " " + z.message); return v; }
    std::vector<JobView> f2, b2;
    std::string e4, e5;
    bool okf2 = load_view("e/jobs.xml", f2, e4) && complete_view(f2, c.jobs);
    bool okb2 = load_view("e/jobs.xml~", b2, e5) && complete_view(b2, c.jobs);
    if (!okf2 && !okb2) {
      bad("restart-on-torn-file-no-complete-copy", "the crash left a torn job file and a complete backup; after a new process was started on the torn file neither jobs.xml (" + e4 + ") nor jobs.xml~ (" + e5 + ") is a complete job list");
      return v;
    }
    const std::vector<JobView> &g2 = okf2 ? f2 : b2;
    std::vector<JobView> cm;
    std::string e3;
    if (load_view("e/committed.xml", cm, e3) && complete_view(cm, c.jobs))
      for (auto &j : cm)
        if (j.status == "COMPLETE" && (g2[j.id - 1].status != "COMPLETE" || g2[j.id - 1].output != j.output))
          bad("restart-on-torn-file-lost-committed-result", "job " + std::to_string(j.id) + " was COMPLETE in the job file before the crash; after a new process was started on the torn file the surviving copy says " + g2[j.id - 1].status);
    if (!v.ok) return v;
    if (okf2) { okf = true; f = f2; } else b = b2;
  }
  const std::vector<JobView> g = okf ? f : b;
  if (!okf) raw_write_file("e/jobs.xml", raw_read_file("e/jobs.xml~"));  // what the user does: restore the backup
  std::string deadhost = hostname_str() + ":" + std::to_string(PID0);
  // jobs in flight at the crash: ASSIGNED to the dead process in the surviving copy
  std::set<long> inflight, done_in_g;
  for (auto &j : g) {
    if (j.status == "ASSIGNED" && j.host == deadhost) inflight.insert(j.id);
    if (j.status == "COMPLETE") done_in_g.insert(j.id);
  }
  Cfg r = c;
  r.recovery = true; r.crash_at = -1; r.crash_bytes = -1; r.scan = 0; r.K = 1;
  r.restart = "stat(ASSIGNED)";  // re-open exactly the jobs that were in flight
  std::vector<std::string> outs_before(c.jobs + 1);
  for (auto &j : g) outs_before[j.id] = j.output;
  ex.body = [&](vs_shared *s, const std::vector<int> &ch) { child_body(r, s, ch, horizon); };
  vsx::Exec y = ex.run({});
  recov_runs++;
  if (y.crashed || y.verdict != VS_COMPLETED) { bad("recovery-did-not-finish", "restart run verdict " + std::to_string(y.verdict) + " " + y.message); return v; }
  std::set<long> reexec;
  int exc = 0;
  for (int i = 0; i < y.shm->nevents; i++) {
    if (y.shm->events[i].kind == EV_EXEC) reexec.insert(y.shm->events[i].b);
    if (y.shm->events[i].kind == EV_EXC) exc++;
  }
  if (exc) bad("recovery-exception", "restart process died with an exception");
  std::vector<JobView> fin;
  std::string err;
  if (!load_view("e/jobs.xml", fin, err) || !complete_view(fin, c.jobs)) { bad("recovery-final-file-bad", "after recovery the job file is not a complete list: " + err); return v; }
  for (auto &j : fin)
    if (j.status != "COMPLETE") bad("recovery-job-lost", "job " + std::to_string(j.id) + " ends with status " + j.status + " after crash+restart");
  for (long j : reexec)
    if (done_in_g.count(j)) bad("recovery-reran-completed-job", "job " + std::to_string(j) + " was COMPLETE in the surviving copy but was executed again");
  for (long j : done_in_g)
    if (fin[j - 1].output != outs_before[j]) bad("recovery-result-overwritten", "result of job " + std::to_string(j) + " changed during recovery");
  std::ostringstream o;
  o << (okf ? "file" : "backup") << " inflight=" << inflight.size() << " done=" << done_in_g.size() << " rerun=" << reexec.size();
  v.obs = o.str();
  return v;
}

// scratch files live on tmpfs when available (truncating opens on the disk file system cost ~3 ms each);
// the directory is private to this harness process and removed at exit
static std::string g_scratch;
static void cleanup_scratch() {
  if (g_scratch.empty()) return;
  std::string cmd = "rm -rf '" + g_scratch + "'";
  if (system(cmd.c_str())) {}
}
static void enter_scratch() {
  char buf[128];
  snprintf(buf, sizeof buf, "/dev/shm/verif_c10_%ld", (long)syscall(SYS_getpid));
  if (mkdir(buf, 0700) == 0 && chdir(buf) == 0) {
    g_scratch = buf;
    atexit(cleanup_scratch);
  }
}

// ------------------------------------------------------------------ validation of the lock model against the kernel
// Two REAL processes and the real fcntl(): what process B gets (F_SETLK, non-blocking) while process A holds a lock,
// and after A closed ANOTHER descriptor of the same file, must equal what io::lock_free_for predicts.
static int kernel_try(const char *path, int a_type, bool a_closes_other_fd, int b_type) {
  int p2c[2], c2p[2];
  if (pipe(p2c) || pipe(c2p)) return -1;
  pid_t pid = fork();
  if (pid == 0) {  // process A
    int fd = (int)syscall(SYS_openat, AT_FDCWD, path, O_RDWR, 0);
    struct flock fl; memset(&fl, 0, sizeof fl);
    fl.l_type = (short)a_type; fl.l_whence = SEEK_SET;
    int rc = (int)syscall(SYS_fcntl, fd, F_SETLK, &fl);
    if (a_closes_other_fd) { int fd2 = (int)syscall(SYS_openat, AT_FDCWD, path, O_RDWR, 0); syscall(SYS_close, fd2); }
    char ok = rc == 0 ? 'y' : 'n';
    if (syscall(SYS_write, c2p[1], &ok, 1) != 1) _exit(1);
    char dummy;
    if (syscall(SYS_read, p2c[0], &dummy, 1) < 0) _exit(1);
    _exit(0);
  }
  char ok = 0;
  if (syscall(SYS_read, c2p[0], &ok, 1) != 1) ok = 'n';
  int fd = (int)syscall(SYS_openat, AT_FDCWD, path, O_RDWR, 0);
  struct flock fl; memset(&fl, 0, sizeof fl);
  fl.l_type = (short)b_type; fl.l_whence = SEEK_SET;
  int rc = (int)syscall(SYS_fcntl, fd, F_SETLK, &fl);
  syscall(SYS_close, fd);
  char go = 'g';
  if (syscall(SYS_write, p2c[1], &go, 1) != 1) {}
  int st; waitpid(pid, &st, 0);
  syscall(SYS_close, p2c[0]); syscall(SYS_close, p2c[1]); syscall(SYS_close, c2p[0]); syscall(SYS_close, c2p[1]);
  if (ok != 'y') return -1;
  return rc == 0 ? 1 : 0;
}
static int validate_lock_model(bsx::Report &R) {
  raw_write_file("klock.f", "x");
  int bad = 0;
  for (int a : {F_RDLCK, F_WRLCK})
    for (int b : {F_RDLCK, F_WRLCK})
      for (int closes = 0; closes < 2; closes++) {
        int kernel = kernel_try("klock.f", a, closes == 1, b);
        io::locks.clear();
        if (!closes) io::set_lock(1, a);  // POSIX: closing any descriptor of the file drops the process's locks
        int model = io::lock_free_for(2, b) ? 1 : 0;
        io::locks.clear();
        R.eval();
        R.counters["lock_model_cases_checked_against_kernel"]++;
        if (kernel != model) {
          bad++;
          fprintf(stderr, "lock model disagrees with the kernel: A=%d closes=%d B=%d kernel=%d model=%d\n", a, closes, b, kernel, model);
        }
      }
  unlink("klock.f");
  return bad;
}

// one execution projected onto the abstract steps of models/JobFile.tla
static std::string abs_line(const Cfg &c, const vsx::Exec &x) {
  const vs_shared *shm = x.shm;
  std::string s = "verdict=" + std::to_string(x.verdict) + "|abs=";
  bool first = true;
  for (int i = 0; i < shm->nevents; i++)
    if (shm->events[i].kind == EV_ABS) {
      s += std::string(first ? "" : ",") + std::to_string(shm->events[i].a - PID0 + 1) + ":" + ABSNAME[shm->events[i].b];
      first = false;
    }
  s += "|exec=";
  first = true;
  for (int i = 0; i < shm->nevents; i++)
    if (shm->events[i].kind == EV_EXEC) {
      s += std::string(first ? "" : ",") + std::to_string(shm->events[i].a / 100 - PID0 + 1) + ":" + std::to_string(shm->events[i].b);
      first = false;
    }
  s += "|final=";
  std::vector<JobView> fin;
  std::string err;
  if (load_view("e/jobs.xml", fin, err) && complete_view(fin, c.jobs)) {
    for (size_t j = 0; j < fin.size(); j++) {
      int h = 0, o = 0;
      if (fin[j].has_host) { size_t q = fin[j].host.rfind(':'); if (q != std::string::npos) h = atoi(fin[j].host.c_str() + q + 1) - PID0 + 1; }
      if (fin[j].has_output) { size_t q = fin[j].output.rfind("by"); if (q != std::string::npos) o = atoi(fin[j].output.c_str() + q + 2) - PID0 + 1; }
      s += std::string(j ? ";" : "") + fin[j].status.substr(0, 1) + ":" + std::to_string(h) + ":" + std::to_string(o);
    }
  } else s += "unreadable";
  s += "|msg=" + x.message;
  return s;
}

int main(int argc, char **argv) {
  bsx::Args a = bsx::parse(argc, argv);
  int horizon = 3500;
  std::string outpath = a.out;
  if (a.kv.count("dump-traces") || a.kv.count("run-abs")) {
    // model conformance support (harness/C10_model.py); file arguments are absolute paths
    bool forced = a.kv.count("run-abs") > 0;
    auto m = bsx::kvs(forced ? a.kv["run-abs"] : a.kv["dump-traces"]);
    Cfg c = parsecfg(m);
    std::string outfile = a.kv["outfile"], infile = forced ? a.kv["absfile"] : "";
    enter_scratch();
    FILE *out = fopen(outfile.c_str(), "w");
    if (!out) return 2;
    vsx::Explorer ex;
    ex.horizon = horizon;
    ex.body = [&](vs_shared *shm, const std::vector<int> &ch) { child_body(c, shm, ch, horizon); };
    if (!forced) {
      int bound = atoi(a.kv["bound"].c_str());
      ex.dfs({}, 0, bound, [&](const vsx::Exec &x) { fprintf(out, "%s\n", abs_line(c, x).c_str()); return true; });
    } else {
      FILE *in = fopen(infile.c_str(), "r");
      if (!in) return 2;
      char *line = nullptr;
      size_t cap = 0;
      while (getline(&line, &cap, in) > 0) {
        std::string l(line);
        while (!l.empty() && (l.back() == '\n' || l.back() == '\r')) l.pop_back();
        io::abs_expect.clear();
        if (!l.empty())
          for (auto &t : bsx::split(l, ',')) {
            auto f = bsx::split(t, ':');
            int step = 0;
            for (int k = 1; k <= 9; k++) if (f[1] == ABSNAME[k]) step = k;
            io::abs_expect.push_back({atoi(f[0].c_str()) + PID0 - 1, step});
          }
        vsx::Exec x = ex.run({});
        fprintf(out, "%s\n", abs_line(c, x).c_str());
      }
      fclose(in);
    }
    fclose(out);
    return 0;
  }
  if (!outpath.empty() && outpath[0] != '/') { char cwd[4096]; if (getcwd(cwd, sizeof cwd)) outpath = std::string(cwd) + "/" + outpath; }
  enter_scratch();
  if (a.has_case) {
    auto m = bsx::kvs(a.cas);
    Cfg c = parsecfg(m);
    std::vector<int> sched = vsx::parse_sched(m["sched"]);
    vsx::Explorer ex;
    ex.horizon = horizon;
    long long rr = 0;
    auto once = [&](std::string &trace) {
      ex.body = [&](vs_shared *shm, const std::vector<int> &ch) { child_body(c, shm, ch, horizon); };
      vsx::Exec x = ex.run(sched);
      trace = vsx::trace_str(ex.shm, 600);
      if (c.crash_at >= 0) return judge_crash_and_recover(c, ex, x, horizon, rr);
      return judge(c, x);
    };
    std::string t1, t2;
    Verdict v1 = once(t1), v2 = once(t2);
    if (t1 != t2 || v1.ok != v2.ok || v1.key != v2.key) { printf("MACHINERY: replay not deterministic\n"); return 2; }
    if (v1.key == "MACHINERY") { printf("MACHINERY: %s\n", v1.what.c_str()); return 2; }
    printf("schedule trace: %s\n", t1.c_str());
    if (v1.ok) { printf("case holds (obs %s)\n", v1.obs.c_str()); return 0; }
    printf("case FAILS: key=%s %s\n", v1.key.c_str(), v1.what.c_str());
    return 3;
  }
  bsx::Report R;
  R.property = "C10"; R.part = a.kv.count("part") ? a.kv["part"] : "sched"; R.tier = a.tier;
  bool thorough = a.tier == "thorough";
  R.deadline_s = thorough ? (R.part == "sched" ? 900 : 480) : 90;
  vsx::Explorer ex;
  ex.horizon = horizon;
  long long unit = 0, schedules = 0, points = 0, instants = 0, recov = 0, crashpoints = 0;
  std::string part = R.part;

  if (part == "sched") {
    if (a.shard == 0 && validate_lock_model(R) != 0) { fprintf(stderr, "MACHINERY-ERROR the POSIX record-lock model of the harness disagrees with the kernel\n"); return 2; }
    // ---- all schedules up to a preemption bound
    std::vector<Cfg> cfgs;
    std::vector<std::pair<int, int>> KT = {{1, 1}, {1, 2}, {2, 1}, {2, 2}, {3, 1}};
    for (auto kt : KT)
      for (int jobs : {1, 2, 3, 4})
        for (int cache : {1, 2, 8})
          for (int mj : {-1, 1, 2}) {
            if (cache == 8 && jobs < 3 && mj != -1) continue;
            int n = kt.first * kt.second;
            if (!thorough) {  // quick: the small configurations, explored completely
              if (jobs > 2 + (n == 1) || cache == 8 || n > 2 || (mj == 2 && jobs < 2)) continue;
            }
            Cfg c; c.K = kt.first; c.T = kt.second; c.jobs = jobs; c.cache = cache; c.maxjobs = mj;
            cfgs.push_back(c);
          }
    // restart patterns over pre-seeded files
    for (int seed : {1, 2})
      for (std::string rs : std::vector<std::string>{"", "stat(FAILED)", std::string("host(") + HOSTA + ")", "stat(ASSIGNED)", std::string("host(") + HOSTA + ") stat(FAILED)",
                             std::string("host(") + HOSTB + ")", "stat(FAILED,ASSIGNED)"})
        for (auto kt : std::vector<std::pair<int, int>>{{1, 1}, {1, 2}, {2, 1}}) {
          if (!thorough && (kt.first > 1 || (kt.second > 1 && seed == 2))) continue;
          // a pattern naming a status that running processes produce themselves (ASSIGNED) tells every process to
          // re-open jobs another live process has just taken: by the statement both clauses cannot hold, so such
          // patterns are only meaningful (and only explored) for a single process
          if (kt.first > 1 && rs.find("ASSIGNED") != std::string::npos) continue;
          Cfg c; c.K = kt.first; c.T = kt.second; c.jobs = 4; c.cache = 2; c.seed = seed; c.restart = rs;
          cfgs.push_back(c);
        }
    // a job whose evaluation fails: status FAILED and the error text must reach the file like any other result
    for (auto kt : std::vector<std::pair<int, int>>{{1, 1}, {1, 2}, {2, 1}})
      for (int jobs : {1, 2})
        for (int failj : {1, 2, -1, -2}) {
          if (std::abs(failj) > jobs || (!thorough && kt.first * kt.second > 1 && jobs == 1)) continue;
          if (failj < 0 && !thorough && std::abs(failj) != jobs) continue;
          Cfg c; c.K = kt.first; c.T = kt.second; c.jobs = jobs; c.cache = 1; c.fail = failj;
          cfgs.push_back(c);
        }
    // two processes, one of which (or both) re-opens COMPLETE jobs of another host while the other one still
    // holds the old record: results reported by one process must not be overwritten by the other
    for (int jobs : {2, 3})
      for (auto rr : std::vector<std::pair<std::string, std::string>>{{std::string("host(") + HOSTB + ")", "="}, {"", std::string("host(") + HOSTB + ")"},
                                                                       {std::string("host(") + HOSTB + ")", ""}}) {
        if (!thorough && jobs == 3) continue;
        // (patterns naming COMPLETE are not used with two live processes: like ASSIGNED above, COMPLETE is a status the
        // other process produces during the run, so the pattern tells its owner to re-open jobs the other has just finished)
        Cfg c; c.K = 2; c.T = 1; c.jobs = jobs; c.cache = 1; c.seed = 3; c.restart = rr.first; c.restart2 = rr.second;
        cfgs.push_back(c);
      }
    // threads of one process share the observer under its thread mutex: there the instant after a release is a point too
    for (Cfg &c : cfgs) if (c.T >= 2) c.ul = true;
    auto bound_for = [&](const Cfg &c) {
      int n = c.K * c.T;
      if (n == 1) return 0;
      if (!thorough) return 1;
      return n >= 3 ? 1 : 2;
    };
    R.rule = "all thread schedules with <= k preemptions (k=1 quick; 2 thorough for 2 workers, 1 for more) of K simulated processes x T threads running the real "
             "ProgObserver (RequestNextJob/ReportJobDone/SyncWithProgFile, boost file_lock on an interposed fcntl with POSIX record-lock semantics per "
             "simulated pid, every open/read/write of job file and backup a scheduling point, with T >= 2 also the instant after every thread-mutex release), for (K,T) x jobs x cache x maxjobs and restart patterns "
             "x pre-seeded files; oracle: each eligible job executed exactly once, per-process maxjobs respected, final file complete with status/host/"
             "output of its executor, untouched jobs unchanged, no exception, no deadlock. distinct_nontrivial = distinct (config, executor assignment, final file) observations";
    // Iterated bounds, small configurations first: level 0 explores EVERY configuration at bound min(k,1) (at most 45% of the
    // thorough time budget), level 1 re-explores the configurations whose bound is 2 at that bound.  Inside a level an item
    // may use up to 3x the equal share of what is left (unused time flows on), so an item that is too large is reported as
    // cut short and does not starve the items after it.  quick: the global budget only.
    std::stable_sort(cfgs.begin(), cfgs.end(), [](const Cfg &x, const Cfg &y) { return x.K * x.T < y.K * y.T; });
    std::map<std::string, long long> done, capped, sched_by;
    for (int level = 0; level < 2; level++) {
      std::vector<const Cfg *> todo;
      for (const Cfg &c : cfgs) if (level == 0 || bound_for(c) >= 2) todo.push_back(&c);
      double level_end = (thorough && level == 0) ? 0.45 * R.deadline_s : R.deadline_s;
      for (size_t ci = 0; ci < todo.size(); ci++) {
        const Cfg &c = *todo[ci];
        ex.body = [&](vs_shared *shm, const std::vector<int> &ch) { child_body(c, shm, ch, horizon); };
        int bound = level == 0 ? std::min(bound_for(c), 1) : bound_for(c);
        std::string klass = "K" + std::to_string(c.K) + "T" + std::to_string(c.T) + "_bound" + std::to_string(bound);
        double slice_end = thorough ? R.elapsed() + 3.0 * std::max(0.0, level_end - R.elapsed()) / double(todo.size() - ci) : R.deadline_s;
        if (slice_end > level_end) slice_end = level_end;
        bool cut = false;
        auto on_exec = [&](const vsx::Exec &x) -> bool {
          schedules++; sched_by[klass]++; points += x.npoints(); R.eval();
          Verdict v = judge(c, x);
          std::string cas = cfgstr(c) + ";sched=" + vsx::sched_str(x.choices);
          if (!v.ok) {
            if (v.key == "MACHINERY") { fprintf(stderr, "MACHINERY-ERROR %s [%s]\n", v.what.c_str(), cas.c_str()); exit(2); }
            R.fail(v.key, v.what + "  [" + cas + "]", cas);
          } else {
            R.cls(cfgstr(c) + "|" + v.obs);
            if (R.samples.size() < R.max_samples && schedules % 53 == 1) R.sample(cas + " => " + v.obs);
          }
          if (R.elapsed() > slice_end) { cut = true; return false; }
          return true;
        };
        vsx::Exec root = ex.run({});
        std::vector<vsx::Explorer::Branch> br = ex.branches(root, bound);
        long long base = unit;
        unit += 1 + (long long)br.size();  // the same numbering in every shard, whatever is cut short
        if (a.mine(base)) { vsx::Exec r2 = ex.run({}); on_exec(r2); }
        for (size_t bi = 0; bi < br.size() && !cut; bi++) {
          if (!a.mine(base + 1 + (long long)bi)) continue;
          ex.dfs(br[bi].prefix, br[bi].cost, bound, on_exec);
        }
        if (cut) {
          capped[klass]++;
          if (capped[klass] <= 2) R.cap("time share used up while exploring " + cfgstr(c) + " at bound " + std::to_string(bound));
        } else done[klass]++;
      }
    }
    for (auto &kv : done) R.counters["items_completed_" + kv.first] = kv.second;
    for (auto &kv : capped) { R.counters["items_capped_" + kv.first] = kv.second; R.cap(std::to_string(kv.second) + " work items of class " + kv.first + " were cut short by their time share (this shard)"); }
    for (auto &kv : sched_by) R.counters["schedules_" + kv.first] = kv.second;
  } else {
    // ---- crash enumeration: (a) invariant "file or backup complete" at every crash instant of every
    // schedule with <= k preemptions (scan inside the run); (b) K=1: real crash at every I/O event x byte
    // offset, then recovery by a fresh process with restart host(<dead>)
    R.rule = "crash enumeration on the real write path: (a) scan: at every crash instant (before/after each truncation, after each byte boundary "
             "[quick: 1, n/2, n-1, n of each write; thorough: every byte] of each write to job file/backup) of every schedule with <= k preemptions for "
             "(K,T) in {(1,1),(1,2),(2,1)} the invariant 'job file or backup parses (real LOAD_JOBS) and lists all ids' is evaluated; (b) K=1: the process "
             "is killed at every I/O event x byte offset; if that leaves the job file torn a new process is first started on it as it is (afterwards one of the two files must still be a complete list holding the committed results); then the surviving complete copy is restored, one fresh process restarts with stat(ASSIGNED) and the end state "
             "must list every job once as COMPLETE without re-running jobs that were COMPLETE in the surviving copy. distinct_nontrivial = distinct (config, crash point, recovery observation)";
    std::vector<Cfg> scan_cfgs;
    for (auto kt : std::vector<std::pair<int, int>>{{1, 1}, {1, 2}, {2, 1}})
      for (int jobs : {1, 2, 3})
        for (int cache : {1, 2}) {
          if (!thorough && (jobs == 3 || (kt.first * kt.second > 1 && (jobs > 1 || cache > 1)))) continue;
          Cfg c; c.K = kt.first; c.T = kt.second; c.jobs = jobs; c.cache = cache; c.scan = thorough ? 2 : 1;
          scan_cfgs.push_back(c);
        }
    bool stop = false;
    // the scan gets at most 60% of the time budget, shared equally between its configurations; (b) gets the rest
    for (size_t ci = 0; ci < scan_cfgs.size(); ci++) {
      const Cfg &c = scan_cfgs[ci];
      ex.body = [&](vs_shared *shm, const std::vector<int> &ch) { child_body(c, shm, ch, horizon); };
      int bound = c.K * c.T == 1 ? 0 : 1;
      double slice_end = R.elapsed() + std::max(0.0, 0.6 * R.deadline_s - R.elapsed()) / double(scan_cfgs.size() - ci);
      bool cut = false;
      auto on_exec = [&](const vsx::Exec &x) -> bool {
        schedules++; points += x.npoints(); R.eval();
        Verdict v = judge(c, x);
        for (int i = 0; i < x.shm->nevents; i++) if (x.shm->events[i].kind == EV_INSTANTS) instants += x.shm->events[i].a;
        std::string cas = cfgstr(c) + ";sched=" + vsx::sched_str(x.choices);
        if (!v.ok) {
          if (v.key == "MACHINERY") { fprintf(stderr, "MACHINERY-ERROR %s\n", v.what.c_str()); exit(2); }
          R.fail(v.key, v.what + "  [" + cas + "]", cas);
        } else R.cls("scan|" + cfgstr(c) + "|" + v.obs);
        if (R.elapsed() > slice_end) { R.cap("time share used up in crash-instant scan of " + cfgstr(c)); cut = true; return false; }
        return true;
      };
      vsx::Exec root = ex.run({});
      std::vector<vsx::Explorer::Branch> br = ex.branches(root, bound);
      long long base = unit;
      unit += 1 + (long long)br.size();  // the same numbering in every shard, whatever is cut short
      if (a.mine(base)) { vsx::Exec r2 = ex.run({}); on_exec(r2); }
      for (size_t bi = 0; bi < br.size() && !cut; bi++) {
        if (!a.mine(base + 1 + (long long)bi)) continue;
        ex.dfs(br[bi].prefix, br[bi].cost, bound, on_exec);
      }
    }
    // (b) real crashes + recovery, K=1
    for (int T : {1, 2})
      for (int jobs : {1, 2, 3})
        for (int cache : {1, 2}) {
          if (stop) break;
          Cfg base; base.K = 1; base.T = T; base.jobs = jobs; base.cache = cache;
          // learn the I/O events of the default schedule (and their sizes) from a dry run
          ex.body = [&](vs_shared *shm, const std::vector<int> &ch) { child_body(base, shm, ch, horizon); };
          vsx::Exec dry = ex.run({});
          int nio = 0;
          for (int i = 0; i < dry.shm->nevents; i++) if (dry.shm->events[i].kind == EV_IO && dry.shm->events[i].b % 10 != 3) nio = std::max<int>(nio, (int)dry.shm->events[i].a + 1);
          std::vector<std::pair<int, int>> cps;
          for (int ev = 0; ev < nio; ev++) {
            std::vector<int> bytes = thorough ? std::vector<int>{0, 1, 2, 7, 20, 40, 80, 160, 100000} : std::vector<int>{0, 1, 40, 100000};
            for (int bts : bytes) cps.push_back({ev, bts});
          }
          for (auto cp : cps) {
            if (!a.mine(unit++)) continue;
            Cfg c = base; c.crash_at = cp.first; c.crash_bytes = cp.second;
            ex.body = [&](vs_shared *shm, const std::vector<int> &ch) { child_body(c, shm, ch, horizon); };
            vsx::Exec x = ex.run({});
            R.eval(); crashpoints++;
            Verdict v = judge_crash_and_recover(c, ex, x, horizon, recov);
            std::string cas = cfgstr(c) + ";sched=";
            if (!v.ok) R.fail(v.key, v.what + "  [" + cas + "]", cas);
            else if (v.obs != "nocrash") {
              R.cls("crash|" + cfgstr(base) + "|" + v.obs);
              if (R.samples.size() < R.max_samples && crashpoints % 11 == 3) R.sample(cas + " => " + v.obs);
            }
            if (R.out_of_time()) { R.cap("time budget reached in crash+recovery enumeration"); stop = true; break; }
          }
        }
  }
  R.states = points; R.transitions = points; R.traces = schedules + recov;
  R.counters["schedules"] = schedules;
  R.counters["scheduling_points"] = points;
  R.counters["crash_instants_checked"] = instants;
  R.counters["crash_points_with_recovery"] = crashpoints;
  R.counters["recovery_runs"] = recov;
  R.assumptions = {"JobOperator::Run and the observer part of ParallelXJobCalc::Evaluate are transcribed (parallelxjobcalc.cc needs libint)",
                   "POSIX record-lock semantics modelled per simulated pid (read locks share, write locks exclude, close drops the process's locks)",
                   "crash = process crash: bytes handed to write() survive, no power-loss reordering",
                   "<= 3 processes, <= 2 threads per process, <= 4 jobs"};
  if (!R.write(outpath)) return 2;
  return 0;
}
