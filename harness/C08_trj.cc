// C08 (part trj) — trajectory / topology files survive a write/read round trip.
//
// Every case builds a small Topology from integers (bead count, frame count,
// coordinate pattern, box id, velocity/force flags, naming scheme), writes the
// frame sequence with the REAL writer obtained from TrjWriterFactory, reads it
// back with the REAL reader from TrjReaderFactory (into a topology whose
// coordinates were overwritten with a sentinel) and with TopReaderFactory
// (names), and compares with the originals to half a unit in the last digit the
// format prints.  Families:
//   rt   round trip (shim=1: the file is first repaired for ONE already known
//        writer/reader incompatibility — blank line in xyz, short ATOM lines in
//        pdb — so that defects hidden behind it are still decided)
//   mm   a frame whose atom count disagrees with the topology must raise
//   dl2  second dlpoly file written by the same process
//   pbx  PDBWriter::WriteBox (CRYST1) + frame -> reader box
//   xml  xml topology (generated text) + trajectory written by the real writer
// Each case runs in its own forked child (crash containment, and the dlpoly
// writer keeps static state).
#include <cfloat>
#include <fstream>
#include <iostream>
#include <memory>
#include <sstream>
#include <stdexcept>

#include "bsx.h"
#include <votca/csg/pdbwriter.h>
#include <votca/csg/topology.h>
#include <votca/csg/topologyreader.h>
#include <votca/csg/trajectoryreader.h>
#include <votca/csg/trajectorywriter.h>

using namespace votca::csg;
using votca::Index;
using Eigen::Matrix3d;
using Eigen::Vector3d;

// ------------------------------------------------------------------ alphabets
struct FmtInfo {
  std::string name, ext;
  bool vel, frc, box, tric, top;  // what the dialect written by VOTCA stores / has a TopologyReader
  std::vector<double> P, V, F;    // nm, nm/ps, kJ/mol/nm
  std::vector<int> vfs, boxes, shims;
};

static const std::vector<FmtInfo> &formats() {
  static std::vector<FmtInfo> f;
  if (!f.empty()) return f;
  // last printed digit: gro 1e-3 nm (%8.3f), vel 1e-4 (%8.4f); values up to the 8-column limit
  f.push_back({"gro", "gro", true, false, true, true, true,
               {0, 0.001, -0.001, 1.23456789, -1.23456789, 0.5, 9999.999, -999.999, 0.0025},
               {0, 1e-4, -1e-4, 1.23456789, -0.123456789, 0.5, 999.9999, -99.9999, 2.5e-4},
               {0, 1.5, -0.25, 123.456789, -12.3456789, 0.5, 1000.5, -2000.25, 1e-4},
               {0, 1}, {0, 1, 2, 3}, {0}});
  // xyz: %10.5f Angstrom, whitespace separated: 9 characters leave a separating blank,
  // the last two entries fill all 10 columns of the field
  f.push_back({"xyz", "xyz", false, false, false, false, true,
               {0, 1e-6, -1e-6, 1.23456789, -1.23456789, 0.5, 99.999999, -9.999999, 2.5e-6, 999.999999, -99.999999},
               {0, 1.5}, {0, 1.5},
               {0}, {0}, {0, 1}});
  // pdb: %8.3f Angstrom in fixed columns
  f.push_back({"pdb", "pdb", false, false, false, false, true,
               {0, 1e-4, -1e-4, 1.23456789, -1.23456789, 0.5, 999.9999, -99.9999, 2.5e-4},
               {0, 1.5}, {0, 1.5},
               {0}, {0}, {0, 1}});
  // lammps dump: %f Angstrom, Angstrom/ps, kcal/mol/Angstrom, free format
  f.push_back({"dump", "dump", true, true, true, false, true,
               {0, 1e-7, -1e-7, 1.23456789, -1.23456789, 0.5, 1234.5678901, -1234.5678901, 2.5e-7},
               {0, 1e-7, -1e-7, 1.23456789, -0.123456789, 0.5, 1234.5678901, -123.45678901, 2.5e-7},
               {0, 4.2e-5, -4.2e-5, 123.456789, -12.3456789, 0.5, 123456.789, -98765.4321, 1e-4},
               {0, 1, 2, 3}, {0, 1}, {0}});
  // dlpoly HISTORY / CONFIG: 12 significant digits, Angstrom
  for (const char *e : {"dlph", "dlpc"})
    f.push_back({e, e, true, true, true, true, false,
                 {0, 1e-7, -1e-7, 1.23456789, -1.23456789, 0.5, 1234.5678901, -1234.5678901, 1.2345678901e-7},
                 {0, 1e-7, -1e-7, 1.23456789, -0.123456789, 0.5, 1234.5678901, -123.45678901, 2.5e-7},
                 {0, 4.2e-5, -4.2e-5, 123.456789, -12.3456789, 0.5, 123456.789, -98765.4321, 1e-4},
                 {0, 1, 3}, {0, 1, 2, 3}, {0}});
  return f;
}
static const FmtInfo &finfo(const std::string &n) {
  for (auto &f : formats())
    if (f.name == n) return f;
  throw std::runtime_error("unknown format " + n);
}

static double sig12(double x) {  // half a unit of the 12th significant digit
  if (x == 0) return 0;
  return 0.5 * std::pow(10.0, std::floor(std::log10(std::fabs(x))) - 11.0);
}
// half a unit of the last printed digit, expressed in VOTCA units (nm, nm/ps, kJ/mol/nm)
static double tol(const std::string &fmt, char kind, double v) {
  double t = 0;
  if (fmt == "gro") t = kind == 'P' ? 0.5e-3 : kind == 'V' ? 0.5e-4 : 0.5e-5;
  else if (fmt == "xyz") t = 0.5e-6;
  else if (fmt == "pdb") t = 0.5e-4;
  else if (fmt == "dump") t = kind == 'F' ? 0.5e-6 * 4.19 * 10.0 : 0.5e-7;
  else {  // dlpoly: value*10 printed with 12 significant digits (box in CONFIG: 10 decimals)
    t = sig12(v * 10.0) * 0.1;
    if (kind == 'B') t = std::max(t, 0.5e-11);
  }
  return t * (1 + 1e-6) + 16 * DBL_EPSILON * std::fabs(v) + 1e-300;
}

static Matrix3d boxof(int id, int frame) {
  Matrix3d b = Matrix3d::Zero();
  switch (id) {
    case 0: b.diagonal() = Vector3d(3, 4.5, 6.25); break;
    case 1: b.diagonal() = Vector3d(1.00001, 12.34567, 123.45678); break;
    case 2:  // columns are the box vectors; gromacs-like lower triangular form
      b << 3, 0.5, -0.25,
           0, 4.5, 1.125,
           0, 0, 6.25;
      break;
    default:
      b << 3, 0.5, -0.25,
           0.125, 4.5, 1.125,
           -0.375, 0.0625, 6.25;
  }
  return b * (1.0 + 0.125 * frame);
}

// ------------------------------------------------------------------ cases
struct TC {
  std::string fam = "rt", fmt = "gro", chk;
  int nb = 1, nf = 1, pat = 0, box = 0, vf = 0, nm = 0, shim = 0, m = 0, at = 0;
  // family ru (reuse histories): second format, base configurations of the two files, history kind
  std::string f2 = "", mode = "";
  std::string seq = "";  // family dr: history of roles on ONE reader object, letters T J M
  int k1 = 0, k2 = 0;
  std::string str() const {
    std::ostringstream o;
    o << "fam=" << fam << ";fmt=" << fmt << ";nb=" << nb << ";nf=" << nf << ";pat=" << pat << ";box=" << box
      << ";vf=" << vf << ";nm=" << nm << ";shim=" << shim << ";m=" << m << ";at=" << at;
    if (fam == "ru" || fam == "ms") o << ";f2=" << f2 << ";k1=" << k1 << ";k2=" << k2 << ";mode=" << mode;
    if (fam == "dr") o << ";seq=" << seq;
    return o.str();
  }
  static TC parse(const std::string &s) {
    auto m = bsx::kvs(s);
    TC c;
    c.fam = m["fam"]; c.fmt = m["fmt"]; c.chk = m.count("chk") ? m["chk"] : "";
    c.nb = atoi(m["nb"].c_str()); c.nf = atoi(m["nf"].c_str()); c.pat = atoi(m["pat"].c_str());
    c.box = atoi(m["box"].c_str()); c.vf = atoi(m["vf"].c_str()); c.nm = atoi(m["nm"].c_str());
    c.shim = atoi(m["shim"].c_str()); c.m = atoi(m["m"].c_str()); c.at = atoi(m["at"].c_str());
    if (m.count("seq")) c.seq = m["seq"];
    if (m.count("f2")) { c.f2 = m["f2"]; c.k1 = atoi(m["k1"].c_str()); c.k2 = atoi(m["k2"].c_str()); c.mode = m["mode"]; }
    return c;
  }
};

struct BeadSpec { std::string name, type, res; int resnr; };
static std::vector<BeadSpec> specs(int nb, int nm) {
  static const char *N1[5] = {"B", "CD", "EFG", "HIJK", "LMNOP"};
  static const char *T1[5] = {"T1", "T2", "T1", "T3", "T2"};
  static const char *R1[5] = {"R", "RS", "RST", "RSTU", "RSTUV"};
  static const char *N2[5] = {"ABCDEFG", "HIJKLMNO", "PQRSTUV", "WXYZABC", "DEFGHIJ"};
  static const char *N3[5] = {"C", "Na", "O", "H", "Cl"};
  static const char *R3[5] = {"ALA", "GLY", "SER", "VAL", "LEU"};
  std::vector<BeadSpec> v;
  for (int b = 0; b < nb; b++) {
    int k = b % 5;
    if (nm == 0) v.push_back({"A", "A", "RES", 0});
    else if (nm == 1) v.push_back({N1[k], T1[k], R1[k], b});
    else if (nm == 2) v.push_back({N2[k], N2[k], "RESIDUE", 0});
    else v.push_back({N3[k], N3[k], R3[k], b});
  }
  return v;
}
static void build(Topology &top, int nb, int nm) {
  auto sp = specs(nb, nm);
  int nres = 0;
  for (auto &s : sp) nres = std::max(nres, s.resnr + 1);
  for (int r = 0; r < nres; r++) {
    std::string rn;
    for (auto &s : sp) if (s.resnr == r) rn = s.res;
    top.CreateResidue(rn);
  }
  for (int b = 0; b < nb; b++) {
    if (!top.BeadTypeExist(sp[b].type)) top.RegisterBeadType(sp[b].type);
    top.CreateBead(Bead::spherical, sp[b].name, sp[b].type, sp[b].resnr, 1.0 + b, 0.25 * b);
  }
}

static double pick(const std::vector<double> &A, const TC &c, int f, int b, int d, int shift, int nb) {
  size_t n = A.size();
  (void)nb;
  if (c.pat >= 1000 && f == 0 && b == 0 && shift == 0) {  // cube: explicit (x,y,z) index triple
    int q = c.pat - 1000;
    int idx[3] = {int(q % n), int((q / n) % n), int((q / n / n) % n)};
    return A[idx[d]];
  }
  int p = c.pat >= 1000 ? (c.pat - 1000) : c.pat;
  return A[(size_t)(p + 3 * b + d + 4 * f + b / 3 + shift) % n];
}
struct Frame {
  std::vector<Vector3d> p, v, f;
  Matrix3d box;
  std::vector<char> hv, hf;  // what the beads claimed to have when the frame was read
};
static Frame frameof(const TC &c, int nb, int f) {
  const FmtInfo &fi = finfo(c.fmt);
  Frame fr;
  for (int b = 0; b < nb; b++) {
    Vector3d p, v, F;
    for (int d = 0; d < 3; d++) {
      p[d] = pick(fi.P, c, f, b, d, 0, nb);
      v[d] = pick(fi.V, c, f, b, d, 2, nb);
      F[d] = pick(fi.F, c, f, b, d, 5, nb);
    }
    fr.p.push_back(p); fr.v.push_back(v); fr.f.push_back(F);
  }
  fr.box = boxof(c.box, f);
  return fr;
}
static void setframe(Topology &top, const TC &c, const Frame &fr, int f) {
  bool hv = c.vf & 1, hf = c.vf & 2;
  top.SetHasVel(hv);
  top.SetHasForce(hf);
  for (Index b = 0; b < top.BeadCount(); b++) {
    Bead *bd = top.getBead(b);
    bd->setPos(fr.p[b]);
    if (hv) bd->setVel(fr.v[b]);
    if (hf) bd->setF(fr.f[b]);
  }
  top.setBox(fr.box);
  top.setStep(f + 1);
  top.setTime(0.5 * (f + 1));
}
static const double SENT = 7777.0;
static void sentinel(Topology &top) {
  for (Index b = 0; b < top.BeadCount(); b++) {
    Bead *bd = top.getBead(b);
    bd->setPos(Vector3d(SENT, SENT, SENT));
    bd->setVel(Vector3d(SENT, SENT, SENT));
    bd->setF(Vector3d(SENT, SENT, SENT));
  }
  top.setBox(Matrix3d::Identity() * SENT);
}

// dlph and dlpc are one writer/reader class: one key prefix
static std::string kf(const std::string &fmt) { return fmt.rfind("dlp", 0) == 0 ? "dlpoly" : fmt; }

// ------------------------------------------------------------------ file helpers / shims
static std::string slurp(const std::string &fn) {
  std::ifstream in(fn);
  std::stringstream ss;
  ss << in.rdbuf();
  return ss.str();
}
static void spit(const std::string &fn, const std::string &s) {
  std::ofstream o(fn);
  o << s;
}
static std::vector<std::string> lines(const std::string &s) {
  std::vector<std::string> v = bsx::split(s, '\n');
  if (!v.empty() && v.back().empty()) v.pop_back();
  return v;
}
static size_t ntokens(const std::string &l) {
  std::istringstream is(l);
  std::string t;
  size_t n = 0;
  while (is >> t) n++;
  return n;
}
// xyz frames as the writer lays them out: count, title, [blank], atoms
static bool xyz_has_blank_after_title(const std::string &txt) {
  auto L = lines(txt);
  return L.size() > 2 && L[2].empty();
}
static std::string xyz_shim(const std::string &txt) {  // delete the empty line that follows each title line
  auto L = lines(txt);
  std::string o;
  size_t i = 0;
  while (i < L.size()) {
    long n = atol(L[i].c_str());
    o += L[i] + "\n";
    if (i + 1 < L.size()) o += L[i + 1] + "\n";
    i += 2;
    if (i < L.size() && L[i].empty()) i++;
    for (long k = 0; k < n && i < L.size(); k++, i++) o += L[i] + "\n";
  }
  return o;
}
static bool xyz_has_merged_tokens(const std::string &txt) {  // an atom line of the writer's layout without 4 separate tokens
  auto L = lines(xyz_shim(txt));
  size_t i = 0;
  while (i < L.size()) {
    long n = atol(L[i].c_str());
    i += 2;
    for (long k = 0; k < n && i < L.size(); k++, i++)
      if (ntokens(L[i]) != 4) return true;
  }
  return false;
}
static bool is_atom(const std::string &l) { return l.rfind("ATOM", 0) == 0 || l.rfind("HETATM", 0) == 0; }
static bool pdb_has_short_atom_line(const std::string &txt) {
  for (auto &l : lines(txt))
    if (is_atom(l) && l.size() < 78) return true;
  return false;
}
static std::string pdb_shim(const std::string &txt) {  // pad ATOM records to the 80 columns of the format
  std::string o;
  for (auto &l : lines(txt)) {
    std::string x = l;
    if (is_atom(x) && x.size() < 80) x.append(80 - x.size(), ' ');
    o += x + "\n";
  }
  return o;
}
static bool gro_has_44col_atom_line(const std::string &txt) {
  auto L = lines(txt);
  return L.size() > 2 && L[2].size() == 44;
}
static void apply_shim(const TC &c, const std::string &fn) {
  if (!c.shim) return;
  std::string t = slurp(fn);
  if (c.fmt == "xyz") spit(fn, xyz_shim(t));
  if (c.fmt == "pdb") spit(fn, pdb_shim(t));
}
// narrow key for "the reader rejected a file the writer produced": explicit predicates on the written text
static std::string reject_key(const TC &c, const std::string &txt) {
  if (c.fmt == "xyz" && xyz_has_blank_after_title(txt)) return "xyz-write-blank-line-after-title";
  if (c.fmt == "xyz" && xyz_has_merged_tokens(txt)) return "xyz-write-full-width-field-merges-tokens";
  if (c.fmt == "pdb" && pdb_has_short_atom_line(txt)) return "pdb-write-atom-line-shorter-than-reader-requires";
  if (c.fmt == "gro" && gro_has_44col_atom_line(txt)) return "gro-read-rejects-line-without-velocities";
  return kf(c.fmt) + "-read-rejects-own-output";
}

// ------------------------------------------------------------------ failures of one case
struct Fails {
  std::vector<std::pair<std::string, std::string>> v;
  void add(const std::string &k, const std::string &w) {
    for (auto &p : v) if (p.first == k) return;
    v.push_back({k, w});
  }
};
static std::string v3(const Vector3d &x) { return "(" + bsx::fmt(x[0]) + "," + bsx::fmt(x[1]) + "," + bsx::fmt(x[2]) + ")"; }
static std::string m3(const Matrix3d &m) {
  std::string s = "[";
  for (int i = 0; i < 3; i++) s += (i ? ";" : "") + bsx::fmt(m(i, 0)) + "," + bsx::fmt(m(i, 1)) + "," + bsx::fmt(m(i, 2));
  return s + "]";
}

static bool veq(const std::string &fmt, char kind, const Vector3d &a, const Vector3d &e) {
  for (int d = 0; d < 3; d++)
    if (!(std::fabs(a[d] - e[d]) <= tol(fmt, kind, e[d]))) return false;
  return true;
}
// compare a vector quantity over all beads; classify a common scale factor
static void cmpvec(Fails &F, const TC &c, char kind, const char *kname, int frame, const std::vector<Vector3d> &got,
                   const std::vector<Vector3d> &exp) {
  bool bad = false;
  size_t bb = 0;
  for (size_t b = 0; b < exp.size(); b++)
    if (!veq(c.fmt, kind, got[b], exp[b])) { bad = true; bb = b; break; }
  if (!bad) return;
  // common factor?
  double cf = 0; bool have = false, common = true;
  for (size_t b = 0; b < exp.size() && common; b++)
    for (int d = 0; d < 3; d++) {
      double e = exp[b][d], g = got[b][d];
      if (std::fabs(e) < 1e3 * tol(c.fmt, kind, e)) continue;  // too small to tell a factor
      double r = g / e;
      if (!have) { cf = r; have = true; }
      else if (std::fabs(r - cf) > 1e-3 * std::fabs(cf) + 1e-12) common = false;
    }
  std::string key = kf(c.fmt) + "-" + kname;
  bool tiny_to_zero = false;
  if (!have) {
    // no component is large enough to measure a factor: input class "only zero / last-digit values", all read back as 0
    tiny_to_zero = true;
    for (size_t b = 0; b < exp.size(); b++)
      for (int d = 0; d < 3; d++)
        if (std::fabs(got[b][d]) > tol(c.fmt, kind, 0.0)) tiny_to_zero = false;
  }
  if (have && common && std::fabs(cf - 1) > 1e-3 && std::isfinite(cf)) {
    char b[64]; snprintf(b, sizeof b, "%.3g", cf);
    F.add(key + "-scaled-by-" + b, std::string(kname) + " read back scaled by " + b + ": frame " + std::to_string(frame) + " bead " +
                                       std::to_string(bb) + " read " + v3(got[bb]) + " written " + v3(exp[bb]));
  } else if (tiny_to_zero) {
    F.add(key + "-small-values-read-zero", std::string(kname) + " of a few units of the last printed digit come back as exactly 0: frame " +
                                               std::to_string(frame) + " bead " + std::to_string(bb) + " read " + v3(got[bb]) + " written " + v3(exp[bb]));
  } else {
    // a permutation of the components?
    bool perm = false;
    for (int s = 1; s < 6 && !perm; s++) {
      static const int P[6][3] = {{0, 1, 2}, {0, 2, 1}, {1, 0, 2}, {1, 2, 0}, {2, 0, 1}, {2, 1, 0}};
      bool all = true;
      for (size_t b = 0; b < exp.size() && all; b++) {
        Vector3d q(exp[b][P[s][0]], exp[b][P[s][1]], exp[b][P[s][2]]);
        if (!veq(c.fmt, kind, got[b], q)) all = false;
      }
      perm = all;
    }
    F.add(key + (perm ? "-components-permuted" : "-mismatch"),
          std::string(kname) + " differs beyond printed precision: frame " + std::to_string(frame) + " bead " + std::to_string(bb) +
              " read " + v3(got[bb]) + " written " + v3(exp[bb]));
  }
}
static bool meq(const std::string &fmt, const Matrix3d &a, const Matrix3d &e) {
  for (int i = 0; i < 3; i++)
    for (int j = 0; j < 3; j++)
      if (!(std::fabs(a(i, j) - e(i, j)) <= tol(fmt, 'B', e(i, j)))) return false;
  return true;
}
static void cmpbox(Fails &F, const TC &c, int frame, const Matrix3d &got, const Matrix3d &exp, bool diag_only) {
  Matrix3d e = exp;
  if (diag_only) e = Matrix3d(exp.diagonal().asDiagonal());
  if (meq(c.fmt, got, e)) return;
  std::string cls = "-mismatch";
  Matrix3d et = e.transpose();
  Matrix3d ed = Matrix3d(e.diagonal().asDiagonal());
  if (!meq(c.fmt, e, et) && meq(c.fmt, got, et)) cls = "-transposed";
  else if (!meq(c.fmt, e, ed) && meq(c.fmt, got, ed)) cls = "-offdiagonal-lost";
  else {
    double r = got(0, 0) / e(0, 0);
    if (std::fabs(r - 1) > 1e-3 && meq(c.fmt, got / r, e)) { char b[32]; snprintf(b, sizeof b, "%.3g", r); cls = std::string("-scaled-by-") + b; }
  }
  F.add(kf(c.fmt) + "-box" + cls, "box of frame " + std::to_string(frame) + " read " + m3(got) + " written " + m3(e));
}

// read a trajectory file into a sentinel topology of nbt beads; returns frames read, or throws
struct ReadOut {
  std::vector<Frame> fr;
  bool threw = false;
  int threw_at = -1;
  std::string msg;
};
// read fn with the given reader object into top (sentinel before every frame unless keep); like CsgApplication:
// FirstFrame unconditionally, then NextFrame until false
static ReadOut read_with(TrajectoryReader &rd, const std::string &fn, Topology &top, int maxframes = 50, bool keep = false) {
  ReadOut ro;
  int k = 0;
  try {
    rd.Open(fn);
    if (!keep) sentinel(top);
    rd.FirstFrame(top);
    for (;;) {
      Frame f;
      for (Index b = 0; b < top.BeadCount(); b++) {
        Bead *bd = top.getBead(b);  // assertions are on in this harness: only touch what the bead says it has
        Vector3d none(SENT, SENT, SENT);
        f.p.push_back(bd->HasPos() ? bd->getPos() : none);
        f.v.push_back(bd->HasVel() ? bd->getVel() : none);
        f.f.push_back(bd->HasF() ? bd->getF() : none);
        f.hv.push_back(bd->HasVel());
        f.hf.push_back(bd->HasF());
      }
      f.box = top.getBox();
      ro.fr.push_back(f);
      k++;
      if (k >= maxframes) break;
      if (!keep) sentinel(top);
      if (!rd.NextFrame(top)) break;
    }
    rd.Close();
  } catch (const std::exception &e) {
    ro.threw = true;
    ro.threw_at = k;
    ro.msg = e.what();
  }
  return ro;
}
static ReadOut read_trj(const std::string &fn, int nbt, int nm, int maxframes = 50) {
  Topology top;
  build(top, nbt, nm);
  std::unique_ptr<TrajectoryReader> rd;
  try {
    rd = TrjReaderFactory().Create(fn);
  } catch (const std::exception &e) {
    ReadOut ro; ro.threw = true; ro.threw_at = 0; ro.msg = e.what();
    return ro;
  }
  return read_with(*rd, fn, top, maxframes);
}

static void write_frames(const std::string &fn, const TC &c, const std::vector<int> &counts) {
  // counts[f] = bead count of the topology frame f is written from (normally all nb)
  std::unique_ptr<TrajectoryWriter> w = TrjWriterFactory().Create(fn);
  w->Open(fn, false);
  std::map<int, std::unique_ptr<Topology>> tops;
  for (size_t f = 0; f < counts.size(); f++) {
    int n = counts[f];
    if (!tops.count(n)) { tops[n] = std::make_unique<Topology>(); build(*tops[n], n, c.nm); }
    Frame fr = frameof(c, n, (int)f);
    setframe(*tops[n], c, fr, (int)f);
    w->Write(tops[n].get());
  }
  w->Close();
}

// ------------------------------------------------------------------ shared comparisons
static bool stores_vel(const TC &c) { return (c.vf & 1) && finfo(c.fmt).vel; }
static bool stores_frc(const TC &c) { return (c.vf & 2) && finfo(c.fmt).frc && (c.fmt.rfind("dlp", 0) != 0 || (c.vf & 1)); }
// frames read (ro) against the frames configuration c was written from
static void verify_frames(const TC &c, const ReadOut &ro, Fails &F) {
  const FmtInfo &fi = finfo(c.fmt);
  bool hv = stores_vel(c), hf = stores_frc(c);
  std::vector<Frame> exp;
  for (int f = 0; f < c.nf; f++) exp.push_back(frameof(c, c.nb, f));
  if (!ro.threw && (int)ro.fr.size() != c.nf)
    F.add(kf(c.fmt) + "-frame-count", "wrote " + std::to_string(c.nf) + " frames, read " + std::to_string(ro.fr.size()));
  size_t ncmp = std::min(ro.fr.size(), exp.size());
  for (size_t f = 0; f < ncmp; f++) {
    // frame order: positions equal to those of another frame?
    if (c.nf > 1) {
      bool own = true;
      for (int b = 0; b < c.nb; b++) own = own && veq(c.fmt, 'P', ro.fr[f].p[b], exp[f].p[b]);
      if (!own)
        for (size_t g = 0; g < exp.size(); g++) {
          if (g == f) continue;
          bool other = true;
          for (int b = 0; b < c.nb; b++) other = other && veq(c.fmt, 'P', ro.fr[f].p[b], exp[g].p[b]);
          if (other) F.add(kf(c.fmt) + "-frame-order", "frame " + std::to_string(f) + " read back holds the positions written as frame " + std::to_string(g));
        }
    }
    cmpvec(F, c, 'P', "pos", (int)f, ro.fr[f].p, exp[f].p);
    if (hv) cmpvec(F, c, 'V', "vel", (int)f, ro.fr[f].v, exp[f].v);
    if (hf) cmpvec(F, c, 'F', "force", (int)f, ro.fr[f].f, exp[f].f);
    if (fi.box) cmpbox(F, c, (int)f, ro.fr[f].box, exp[f].box, !fi.tric);
  }
}
// topology t2 as read by a TopologyReader against configuration c (names as far as stored + first frame)
static void verify_top(const TC &c, Topology &t2, Fails &F, std::string &sig) {
  const FmtInfo &fi = finfo(c.fmt);
  auto sp = specs(c.nb, c.nm);
  if (t2.BeadCount() != c.nb) {
    F.add(kf(c.fmt) + "-top-bead-count", "topology read has " + std::to_string(t2.BeadCount()) + " beads, written " + std::to_string(c.nb));
    return;
  }
  Topology ref;
  build(ref, c.nb, c.nm);
  Frame e0 = frameof(c, c.nb, 0);
  std::vector<Vector3d> gp;
  for (int b = 0; b < c.nb; b++) {
    const Bead *bd = t2.getBead(b);
    gp.push_back(bd->HasPos() ? bd->getPos() : Vector3d(SENT, SENT, SENT));
    std::string where = " of bead " + std::to_string(b) + " (written name '" + sp[b].name + "' type '" + sp[b].type + "' residue '" + sp[b].res + "')";
    if (c.fmt == "gro") {
      if (bd->getName() != sp[b].name.substr(0, 5)) F.add("gro-top-name", "name read '" + bd->getName() + "'" + where);
      std::string rn = bd->getResnr() < t2.ResidueCount() ? t2.getResidue(bd->getResnr()).getName() : "<no such residue>";
      if (rn != sp[b].res.substr(0, 5)) F.add("gro-top-resname", "residue name read '" + rn + "'" + where);
      if (bd->getResnr() != sp[b].resnr) F.add("gro-top-resnr", "residue number read " + std::to_string(bd->getResnr()) + where);
    } else if (c.fmt == "xyz") {
      if (bd->getType() != sp[b].name.substr(0, 3)) F.add("xyz-top-name", "element/type read '" + bd->getType() + "'" + where);
    } else if (c.fmt == "pdb") {
      if (bd->getName() != sp[b].name.substr(0, 4)) F.add("pdb-top-name", "name read '" + bd->getName() + "'" + where);
      std::string rn = bd->getResnr() < t2.ResidueCount() ? t2.getResidue(bd->getResnr()).getName() : "<no such residue>";
      if (rn != sp[b].res.substr(0, 3)) F.add("pdb-top-resname", "residue name read '" + rn + "'" + where);
    } else if (c.fmt == "dump") {
      std::string et = std::to_string(ref.getBeadTypeId(sp[b].type));
      if (bd->getType() != et) F.add("dump-top-type", "type read '" + bd->getType() + "' expected numeric type id '" + et + "'" + where);
    }
  }
  cmpvec(F, c, 'P', "pos", 0, gp, e0.p);  // first frame as seen by the topology reader
  if (fi.box) cmpbox(F, c, 0, t2.getBox(), e0.box, !fi.tric);
  sig += "|top" + std::to_string(t2.BeadCount()) + ":" + t2.getBead(0)->getName() + ":" + t2.getBead(0)->getType();
}

// ------------------------------------------------------------------ family rt
static void run_rt(const TC &c, Fails &F, std::string &sig) {
  const FmtInfo &fi = finfo(c.fmt);
  std::string fn = "t." + fi.ext;
  try {
    write_frames(fn, c, std::vector<int>(c.nf, c.nb));
  } catch (const std::exception &e) {
    F.add(kf(c.fmt) + "-write-throws", std::string("writer threw: ") + e.what());
    return;
  }
  std::string written = slurp(fn);
  apply_shim(c, fn);
  std::string text = slurp(fn);
  // --- trajectory reader
  ReadOut ro = read_trj(fn, c.nb, c.nm);
  if (ro.threw) {
    std::string first = lines(written).size() > 2 ? lines(written)[2] : "";
    F.add(reject_key(c, text), "reader threw at frame " + std::to_string(ro.threw_at) + " of its own writer's output: " +
                                   ro.msg.substr(0, 120) + " | 3rd line of file: '" + first + "'");
  }
  verify_frames(c, ro, F);
  sig = std::to_string(ro.fr.size()) + (ro.threw ? "T" : "");
  // --- topology reader (names as far as the format stores them + first frame)
  bool do_top = fi.top && !(c.fmt == "pdb" && c.nm != 3);  // pdb topologies need element symbols as atom names (documented)
  if (do_top) {
    Topology t2;
    try {
      std::unique_ptr<TopologyReader> tr = TopReaderFactory().Create(fn);
      tr->ReadTopology(fn, t2);
    } catch (const std::exception &e) {
      F.add(reject_key(c, text), std::string("topology reader threw on its own writer's output: ") + std::string(e.what()).substr(0, 120));
      sig += "|topT";
      return;
    }
    verify_top(c, t2, F, sig);
  }
}

static void write_data_file(const std::string &fn, int nb, int pat) {  // lammps data file, atom style "atom-ID atom-type x y z"
  std::ofstream o(fn);
  o << "LAMMPS data file written by the C08 harness\n\n" << nb << " atoms\n2 atom types\n\n"
    << "0.0 30.0 xlo xhi\n0.0 45.0 ylo yhi\n0.0 62.5 zlo zhi\n\nMasses\n\n1 12.011\n2 15.9994\n\nAtoms\n\n";
  static const double A[7] = {0.0, 1.5, -2.25, 12.345678, -0.000125, 7.0, 30.0};
  for (int b = 0; b < nb; b++)
    o << (b + 1) << " " << (b % 2 + 1) << " " << bsx::fmt(A[(pat + 3 * b) % 7]) << " " << bsx::fmt(A[(pat + 3 * b + 1) % 7]) << " "
      << bsx::fmt(A[(pat + 3 * b + 2) % 7]) << "\n";
  o << "\n";
}
// ------------------------------------------------------------------ family mm (atom-count mismatch must raise)
static void run_mm(const TC &c, Fails &F, std::string &sig) {
  std::string fn = "t." + (c.fmt == "data" ? std::string("data") : finfo(c.fmt).ext);
  std::vector<int> counts;
  for (int f = 0; f < c.at; f++) counts.push_back(c.m);
  counts.push_back(c.nb);
  try {
    if (c.fmt == "data") write_data_file(fn, c.nb, c.pat);  // no writer for lammps data files: harness-written, one frame
    else write_frames(fn, c, counts);
  } catch (const std::exception &e) {
    sig = "blocked-write";
    return;
  }
  apply_shim(c, fn);
  std::string rel = c.nb > c.m ? "larger" : "smaller";
  if (c.at == 0) {  // control: the very same file is readable with a matching topology
    ReadOut ctl = read_trj(fn, c.nb, c.nm);
    if (ctl.threw || ctl.fr.size() != 1) { sig = "blocked"; return; }
  }
  ReadOut ro = read_trj(fn, c.m, c.nm);
  if (ro.threw && ro.threw_at < c.at) { sig = "blocked"; return; }  // an earlier, matching frame was rejected: decided by family rt
  if (!ro.threw) {
    F.add(kf(c.fmt) + "-mismatch-not-reported",
          "frame " + std::to_string(c.at) + " (" + rel + " than the topology) holds " + std::to_string(c.nb) + " atoms, topology has " + std::to_string(c.m) +
              " beads: reader returned " + std::to_string(ro.fr.size()) + " frames without raising");
    sig = "accepted";
  } else {
    sig = "raised";
  }
}

// ------------------------------------------------------------------ family dl2 (second dlpoly file of one process)
static void run_dl2(const TC &c, Fails &F, std::string &sig) {
  // c.m: 0 = first file is a .dlph, 1 = first file is a .dlpc; second file is always the .dlph under test
  TC first = c;
  first.fmt = c.m ? "dlpc" : "dlph";
  first.nf = 1;
  write_frames(std::string("first.") + first.fmt, first, {c.nb});
  TC second = c;
  second.fmt = "dlph";
  second.fam = "rt";
  Fails F2;
  run_rt(second, F2, sig);
  for (auto &p : F2.v)
    F.add(p.first == "dlpoly-read-rejects-own-output" ? "dlpoly-second-file-of-process-unreadable" : "dlpoly-second-file-of-process:" + p.first,
          "after another dlpoly file was written by the same process: " + p.second);
}

// ------------------------------------------------------------------ family pbx (CRYST1)
static void run_pbx(const TC &c, Fails &F, std::string &sig) {
  std::string fn = "t.pdb";
  Topology top;
  build(top, c.nb, c.nm);
  Frame fr = frameof(c, c.nb, 0);
  setframe(top, c, fr, 0);
  {
    PDBWriter w;
    w.Open(fn, false);
    w.WriteBox(fr.box * 10.0);  // Angstrom, as xtp calls it
    w.Write(&top);
    w.Close();
  }
  apply_shim(c, fn);
  std::string text = slurp(fn);
  ReadOut ro = read_trj(fn, c.nb, c.nm);
  if (ro.threw) { F.add(reject_key(c, text), "reader threw on CRYST1 + MODEL written by PDBWriter: " + ro.msg.substr(0, 100)); sig = "T"; return; }
  if (ro.fr.size() != 1) { F.add("pdb-frame-count", "read " + std::to_string(ro.fr.size()) + " frames, wrote 1"); return; }
  cmpbox(F, c, 0, ro.fr[0].box, fr.box, true);
  cmpvec(F, c, 'P', "pos", 0, ro.fr[0].p, fr.p);
  sig = "box" + bsx::fmt(ro.fr[0].box(1, 1));
}

// ------------------------------------------------------------------ family xml
static void run_xml(const TC &c, Fails &F, std::string &sig) {
  // c.nb beads per molecule, c.m molecules, trajectory format c.fmt
  static const char *MASS[3] = {"1", "12.011", "15.9994"};
  static const char *Q[3] = {"0", "-0.8476", "0.4238"};
  auto sp = specs(c.nb, 1);
  Frame f0 = frameof(c, c.nb * c.m, 0);
  {
    std::ofstream x("top.xml");
    x << "<topology>\n <molecules>\n  <molecule name=\"MOL\" nmols=\"" << c.m << "\" nbeads=\"" << c.nb << "\">\n";
    for (int b = 0; b < c.nb; b++)
      x << "   <bead name=\"" << sp[b].name << "\" type=\"" << sp[b].type << "\" mass=\"" << MASS[b % 3] << "\" q=\"" << Q[b % 3] << "\"/>\n";
    x << "  </molecule>\n </molecules>\n <box xx=\"" << bsx::fmt(f0.box(0, 0)) << "\" yy=\"" << bsx::fmt(f0.box(1, 1)) << "\" zz=\""
      << bsx::fmt(f0.box(2, 2)) << "\"/>\n</topology>\n";
  }
  Topology top;
  try {
    std::unique_ptr<TopologyReader> tr = TopReaderFactory().Create("top.xml");
    tr->ReadTopology("top.xml", top);
  } catch (const std::exception &e) {
    F.add("xml-top-read-throws", std::string("xml topology reader threw: ") + e.what());
    return;
  }
  int n = c.nb * c.m;
  if (top.BeadCount() != n) { F.add("xml-top-bead-count", "read " + std::to_string(top.BeadCount()) + " beads, xml defines " + std::to_string(n)); return; }
  for (int i = 0; i < n; i++) {
    int b = i % c.nb;
    const Bead *bd = top.getBead(i);
    if (bd->getName() != sp[b].name) F.add("xml-top-name", "bead " + std::to_string(i) + " name '" + bd->getName() + "' expected '" + sp[b].name + "'");
    if (bd->getType() != sp[b].type) F.add("xml-top-type", "bead " + std::to_string(i) + " type '" + bd->getType() + "' expected '" + sp[b].type + "'");
    if (bd->getMass() != strtod(MASS[b % 3], nullptr)) F.add("xml-top-mass", "bead " + std::to_string(i) + " mass " + bsx::fmt(bd->getMass()) + " expected " + MASS[b % 3]);
    if (bd->getQ() != strtod(Q[b % 3], nullptr)) F.add("xml-top-charge", "bead " + std::to_string(i) + " charge " + bsx::fmt(bd->getQ()) + " expected " + Q[b % 3]);
  }
  if (top.MoleculeCount() != c.m) F.add("xml-top-molecule-count", "molecules " + std::to_string(top.MoleculeCount()) + " expected " + std::to_string(c.m));
  {
    Matrix3d e = Matrix3d(f0.box.diagonal().asDiagonal());
    if (!(top.getBox() - e).isZero(0) && (top.getBox() - e).norm() > 1e-14) F.add("xml-top-box", "box read " + m3(top.getBox()) + " expected " + m3(e));
  }
  // trajectory written by the real writer from an equivalent topology, read into the xml topology
  const FmtInfo &fi = finfo(c.fmt);
  std::string fn = "t." + fi.ext;
  {
    TC w = c;
    w.nm = 0;
    write_frames(fn, w, {n});
  }
  try {
    std::unique_ptr<TrajectoryReader> rd = TrjReaderFactory().Create(fn);
    rd->Open(fn);
    rd->FirstFrame(top);
    rd->Close();
  } catch (const std::exception &e) {
    F.add(reject_key(c, slurp(fn)), std::string("trajectory reader threw when reading into the xml topology: ") + e.what());
    return;
  }
  std::vector<Vector3d> gp;
  for (int i = 0; i < n; i++) gp.push_back(top.getBead(i)->HasPos() ? top.getBead(i)->getPos() : Vector3d(SENT, SENT, SENT));
  cmpvec(F, c, 'P', "pos", 0, gp, f0.p);
  sig = std::to_string(n) + ":" + top.getBead(n - 1)->getName();
}

// ------------------------------------------------------------------ family ru (reuse histories)
// base configurations of a file in format fmt
static TC cfg(const std::string &fmt, int k) {
  static const int NB[4] = {1, 2, 2, 3}, NF[4] = {1, 2, 1, 3}, VF[4] = {0, 1, 3, 0}, BX[4] = {0, 1, 2, 0}, PT[4] = {0, 3, 5, 7};
  const FmtInfo &fi = finfo(fmt);
  TC c;
  c.fam = "rt"; c.fmt = fmt; c.nb = NB[k]; c.nf = fmt == "dlpc" ? 1 : NF[k]; c.vf = VF[k];
  c.box = (BX[k] >= 2 && !fi.tric) ? 1 : BX[k];
  c.pat = PT[k]; c.nm = fmt == "pdb" ? 3 : 1;
  return c;
}
static void add_prefixed(Fails &F, const Fails &in, const std::string &prefix, const std::string &ctx) {
  for (auto &p : in.v) F.add(prefix + p.first, ctx + ": " + p.second);
}
static void write_xml_top(const std::string &fn, int nb, int nmols) {
  auto sp = specs(nb, 1);
  std::ofstream x(fn);
  x << "<topology>\n <molecules>\n  <molecule name=\"MOL\" nmols=\"" << nmols << "\" nbeads=\"" << nb << "\">\n";
  for (int b = 0; b < nb; b++) x << "   <bead name=\"" << sp[b].name << "\" type=\"" << sp[b].type << "\" mass=\"" << (1 + b) << "\" q=\"0\"/>\n";
  x << "  </molecule>\n </molecules>\n <box xx=\"3\" yy=\"4.5\" zz=\"6.25\"/>\n</topology>\n";
}
static void verify_xml_top(Topology &t, int nb, int nmols, Fails &F) {
  auto sp = specs(nb, 1);
  if (t.BeadCount() != nb * nmols) { F.add("xml-top-bead-count", "read " + std::to_string(t.BeadCount()) + " beads, xml defines " + std::to_string(nb * nmols)); return; }
  if (t.MoleculeCount() != nmols) F.add("xml-top-molecule-count", "molecules " + std::to_string(t.MoleculeCount()) + " expected " + std::to_string(nmols));
  for (int i = 0; i < nb * nmols; i++) {
    if (t.getBead(i)->getName() != sp[i % nb].name) F.add("xml-top-name", "bead " + std::to_string(i) + " name '" + t.getBead(i)->getName() + "'");
    if (t.getBead(i)->getType() != sp[i % nb].type) F.add("xml-top-type", "bead " + std::to_string(i) + " type '" + t.getBead(i)->getType() + "'");
  }
  Index nmol_beads = 0;
  for (Index m = 0; m < t.MoleculeCount(); m++) nmol_beads += t.getMolecule(m)->BeadCount();
  if (nmol_beads != nb * nmols) F.add("xml-top-molecule-beads", "molecules hold " + std::to_string(nmol_beads) + " beads in total, expected " + std::to_string(nb * nmols));
}
static void run_ru(const TC &c, Fails &F, std::string &sig) {
  const std::string &mode = c.mode;
  std::string e1 = c.fmt == "xml" ? "xml" : finfo(c.fmt).ext, e2 = c.f2 == "xml" ? "xml" : finfo(c.f2).ext;
  std::string fn1 = "a." + e1, fn2 = "b." + e2;
  // ---- w: ONE writer object, two files
  if (mode == "w") {
    TC c1 = cfg(c.fmt, c.k1), c2 = cfg(c.f2, c.k2);
    std::unique_ptr<TrajectoryWriter> w = TrjWriterFactory().Create(fn1);
    const TC *cc[2] = {&c1, &c2};
    const std::string *fn[2] = {&fn1, &fn2};
    for (int i = 0; i < 2; i++) {
      Topology top;
      build(top, cc[i]->nb, cc[i]->nm);
      w->Open(*fn[i], false);
      for (int f = 0; f < cc[i]->nf; f++) { setframe(top, *cc[i], frameof(*cc[i], cc[i]->nb, f), f); w->Write(&top); }
      w->Close();
    }
    for (int i = 0; i < 2; i++) {
      ReadOut ro = read_trj(*fn[i], cc[i]->nb, cc[i]->nm);
      Fails Fi;
      if (ro.threw) Fi.add(kf(cc[i]->fmt) + "-unreadable", "fresh reader threw at frame " + std::to_string(ro.threw_at) + ": " + ro.msg.substr(0, 100));
      verify_frames(*cc[i], ro, Fi);
      add_prefixed(F, Fi, "reuse-writer:", std::string("file ") + (i ? "2" : "1") + " of one writer object (" + *fn[i] + ")");
      sig += std::to_string(ro.fr.size()) + ",";
    }
    return;
  }
  // ---- r / p: ONE reader object, two files (p: the first file is closed after its first frame)
  if (mode == "r" || mode == "p") {
    TC c1 = cfg(c.fmt, c.k1), c2 = cfg(c.f2, c.k2);
    write_frames(fn1, c1, std::vector<int>(c1.nf, c1.nb));
    write_frames(fn2, c2, std::vector<int>(c2.nf, c2.nb));
    std::unique_ptr<TrajectoryReader> rd = TrjReaderFactory().Create(fn1);
    Topology t1, t2;
    build(t1, c1.nb, c1.nm);
    build(t2, c2.nb, c2.nm);
    ReadOut r1 = read_with(*rd, fn1, t1, mode == "p" ? 1 : 50);
    ReadOut r2 = read_with(*rd, fn2, t2);
    std::string pre = mode == "p" ? "reuse-reader-partial:" : "reuse-reader:";
    Fails F1, F2;
    if (r1.threw) F1.add(kf(c1.fmt) + "-unreadable", "reader threw at frame " + std::to_string(r1.threw_at) + ": " + r1.msg.substr(0, 100));
    if (mode == "r") verify_frames(c1, r1, F1);
    if (r2.threw) F2.add(kf(c2.fmt) + "-unreadable", "reader threw at frame " + std::to_string(r2.threw_at) + ": " + r2.msg.substr(0, 100));
    verify_frames(c2, r2, F2);
    add_prefixed(F, F1, pre, "first file of one reader object (" + fn1 + ")");
    add_prefixed(F, F2, pre, "second file of one reader object (" + fn2 + ")");
    sig = std::to_string(r1.fr.size()) + "," + std::to_string(r2.fr.size());
    return;
  }
  // ---- t: ONE Topology, file 1 (format a, k1 = velocity/force flags) then file 2 (format b, k2 = flags), nothing reset in between;
  // ---- x: ONE file whose frames differ in what they carry (gro, dump), read into one Topology
  if (mode == "t" || mode == "x") {
    static const int SEQ[4][3] = {{3, 0, 3}, {0, 3, 0}, {1, 0, 0}, {3, 1, 0}};
    std::vector<TC> per;  // configuration of every frame of the file under test
    std::string fnb;
    Topology T;
    if (mode == "t") {
      TC c1; c1.fam = "rt"; c1.fmt = c.fmt; c1.nb = 2; c1.nf = c.fmt == "dlpc" ? 1 : 2; c1.vf = c.k1; c1.box = 0; c1.pat = 1; c1.nm = 1;
      TC c2 = c1; c2.fmt = c.f2; c2.nf = c.f2 == "dlpc" ? 1 : 2; c2.vf = c.k2; c2.box = 1; c2.pat = 4;
      write_frames(fn1, c1, std::vector<int>(c1.nf, 2));
      write_frames(fn2, c2, std::vector<int>(c2.nf, 2));
      build(T, 2, 1);
      std::unique_ptr<TrajectoryReader> ra = TrjReaderFactory().Create(fn1);
      ReadOut r1 = read_with(*ra, fn1, T, 50, true);
      if (r1.threw) { F.add("reuse-topology:" + kf(c.fmt) + "-unreadable", "first file: " + r1.msg.substr(0, 100)); return; }
      for (int f = 0; f < c2.nf; f++) per.push_back(c2);
      fnb = fn2;
    } else {
      TC c1; c1.fam = "rt"; c1.fmt = c.fmt; c1.nb = c.nb; c1.nf = 3; c1.box = 0; c1.pat = 2; c1.nm = 1;
      std::unique_ptr<TrajectoryWriter> w = TrjWriterFactory().Create(fn1);
      Topology wt;
      build(wt, c1.nb, c1.nm);
      w->Open(fn1, false);
      for (int f = 0; f < 3; f++) {
        TC cf = c1; cf.vf = SEQ[c.k1][f];
        setframe(wt, cf, frameof(cf, cf.nb, f), f);
        w->Write(&wt);
        per.push_back(cf);
      }
      w->Close();
      build(T, c1.nb, 1);
      fnb = fn1;
    }
    std::unique_ptr<TrajectoryReader> rb = TrjReaderFactory().Create(fnb);
    ReadOut r2 = read_with(*rb, fnb, T, 50, true);
    std::string pre = mode == "t" ? "reuse-topology:" : "mixed-frames:";
    const std::string &fb = per[0].fmt;
    const FmtInfo &fi = finfo(fb);
    if (r2.threw) { F.add(pre + kf(fb) + "-unreadable", "reader threw at frame " + std::to_string(r2.threw_at) + ": " + r2.msg.substr(0, 100)); return; }
    if (r2.fr.size() != per.size()) F.add(pre + kf(fb) + "-frame-count", "wrote " + std::to_string(per.size()) + " frames, read " + std::to_string(r2.fr.size()));
    for (size_t f = 0; f < std::min(per.size(), r2.fr.size()); f++) {
      const TC &cf = per[f];
      Frame e = frameof(cf, cf.nb, (int)f);
      Fails Fi;
      cmpvec(Fi, cf, 'P', "pos", (int)f, r2.fr[f].p, e.p);
      if (fi.box) cmpbox(Fi, cf, (int)f, r2.fr[f].box, e.box, !fi.tric);
      bool anyv = false, anyf = false;
      for (char h : r2.fr[f].hv) anyv = anyv || h;
      for (char h : r2.fr[f].hf) anyf = anyf || h;
      if (stores_vel(cf)) cmpvec(Fi, cf, 'V', "vel", (int)f, r2.fr[f].v, e.v);
      else if (fi.vel && anyv)
        Fi.add(kf(fb) + "-stale-velocities-claimed", "frame " + std::to_string(f) + " carries no velocities, yet Bead::HasVel() is true afterwards with the value of an earlier frame " + v3(r2.fr[f].v[0]));
      if (stores_frc(cf)) cmpvec(Fi, cf, 'F', "force", (int)f, r2.fr[f].f, e.f);
      else if (fi.frc && anyf)
        Fi.add(kf(fb) + "-stale-forces-claimed", "frame " + std::to_string(f) + " carries no forces, yet Bead::HasF() is true afterwards with the value of an earlier frame " + v3(r2.fr[f].f[0]));
      add_prefixed(F, Fi, pre, mode == "t" ? "second file (" + fnb + ") read into the topology that had received " + fn1 : "file with frames of different content");
      sig += std::string(anyv ? "V" : "-") + (anyf ? "F" : "-") + ",";
    }
    return;
  }
  // ---- tr / ts / tn: topology readers: same reader object + fresh topology, same reader + same topology, new reader + same topology
  if (mode == "tr" || mode == "ts" || mode == "tn") {
    bool xml = c.fmt == "xml";
    static const int XNB[4] = {1, 2, 2, 3}, XNM[4] = {1, 2, 1, 2};
    TC c1, c2;
    if (xml) {
      write_xml_top(fn1, XNB[c.k1], XNM[c.k1]);
      write_xml_top(fn2, XNB[c.k2], XNM[c.k2]);
    } else {
      c1 = cfg(c.fmt, c.k1); c2 = cfg(c.f2, c.k2);
      write_frames(fn1, c1, std::vector<int>(c1.nf, c1.nb));
      write_frames(fn2, c2, std::vector<int>(c2.nf, c2.nb));
    }
    std::unique_ptr<TopologyReader> ra = TopReaderFactory().Create(fn1), rb;
    Topology ta, tb;
    Fails Fi;
    try {
      ra->ReadTopology(fn1, ta);
      TopologyReader *second = ra.get();
      if (mode == "tn") { rb = TopReaderFactory().Create(fn2); second = rb.get(); }
      Topology &target = mode == "tr" ? tb : ta;
      second->ReadTopology(fn2, target);
      if (xml) verify_xml_top(target, XNB[c.k2], XNM[c.k2], Fi);
      else verify_top(c2, target, Fi, sig);
      sig += "|" + std::to_string(target.BeadCount());
    } catch (const std::exception &e) {
      Fi.add(kf(c.fmt) + "-top-read-throws", std::string("exception: ") + std::string(e.what()).substr(0, 120));
    }
    std::string pre = mode == "tr" ? "reuse-topreader:" : mode == "ts" ? "reuse-topreader-same-topology:" : "reuse-topology-new-topreader:";
    add_prefixed(F, Fi, pre, "second ReadTopology (" + fn2 + " after " + fn1 + ")");
    return;
  }
  throw std::runtime_error("unknown ru mode " + mode);
}

// ------------------------------------------------------------------ family dr (dual-role histories on ONE reader object)
// GROReader, PDBReader, XYZReader, LAMMPSDumpReader and LAMMPSDataReader implement TopologyReader AND TrajectoryReader.
// ONE object (factory product, cross-cast to the other interface) plays a history of roles; every step must give,
// bit for bit, what a fresh reader object gives for the same step:
//   T  ReadTopology(file A, fresh Topology)
//   J  trajectory pass Open(file B) FirstFrame NextFrame... Close on a Topology built from file A by a FRESH reader
//   M  the same pass with file C, which holds MORE atoms than that Topology (must report an error)
//   m  the same pass with file D, which holds FEWER atoms (must report an error)
static std::string hx(const Vector3d &v) { return bsx::hexd(v[0]) + "," + bsx::hexd(v[1]) + "," + bsx::hexd(v[2]); }
static std::string hxm(const Matrix3d &m) {
  std::string s;
  for (int i = 0; i < 3; i++) for (int j = 0; j < 3; j++) s += bsx::hexd(m(i, j)) + ",";
  return s;
}
static std::string canon_top(Topology &t) {
  std::ostringstream o;
  o << "beads=" << t.BeadCount() << " residues=" << t.ResidueCount() << " molecules=" << t.MoleculeCount() << " box=" << hxm(t.getBox());
  for (Index b = 0; b < t.BeadCount(); b++) {
    Bead *bd = t.getBead(b);
    o << " |" << bd->getName() << ":" << bd->getType() << ":" << bd->getResnr() << ":"
      << (bd->getResnr() >= 0 && bd->getResnr() < t.ResidueCount() ? t.getResidue(bd->getResnr()).getName() : "?") << ":" << bsx::hexd(bd->getMass()) << ":"
      << bsx::hexd(bd->getQ()) << " p=" << (bd->HasPos() ? hx(bd->getPos()) : "-") << " v=" << (bd->HasVel() ? hx(bd->getVel()) : "-")
      << " f=" << (bd->HasF() ? hx(bd->getF()) : "-");
  }
  return o.str();
}
static std::string canon_pass(const ReadOut &ro, Topology &t) {
  std::ostringstream o;
  o << "frames=" << ro.fr.size() << (ro.threw ? " ERROR at frame " + std::to_string(ro.threw_at) : std::string(" no error")) << " beads-afterwards=" << t.BeadCount();
  for (size_t f = 0; f < ro.fr.size(); f++) {
    const Frame &fr = ro.fr[f];
    o << " || frame " << f << " beads=" << fr.p.size() << " box=" << hxm(fr.box);
    for (size_t b = 0; b < fr.p.size(); b++)
      o << " |p=" << hx(fr.p[b]) << " v=" << (fr.hv[b] ? hx(fr.v[b]) : "-") << " f=" << (fr.hf[b] ? hx(fr.f[b]) : "-");
  }
  return o.str();
}
static std::string first_diff(const std::string &a, const std::string &b) {
  size_t i = 0;
  while (i < a.size() && i < b.size() && a[i] == b[i]) i++;
  size_t st = a.rfind(' ', i > 0 ? i - 1 : 0);
  if (st == std::string::npos || i - st > 80) st = i > 40 ? i - 40 : 0;
  return "one object: '" + a.substr(0, 60) + " ... " + a.substr(st, 110) + "' | fresh object: '" + b.substr(0, 60) + " ... " + b.substr(st, 110) + "'";
}
static void run_dr(const TC &c, Fails &F, std::string &sig) {
  bool data = c.fmt == "data";
  std::string ext = data ? "data" : finfo(c.fmt).ext;
  std::string fA = "A." + ext, fB = "B." + ext, fC = "C." + ext, fD = "D." + ext;
  int nm = c.fmt == "pdb" ? 3 : 1;
  if (data) {
    write_data_file(fA, 2, 0);
    write_data_file(fB, 2, 2);
    write_data_file(fC, 3, 4);
    write_data_file(fD, 1, 5);
  } else {
    TC a; a.fam = "rt"; a.fmt = c.fmt; a.nb = 2; a.nf = 2; a.vf = 1; a.box = 0; a.pat = 3; a.nm = nm;
    TC b = a; b.nf = 3; b.vf = 3; b.box = 1; b.pat = 5;
    TC cc = a; cc.nb = 3; cc.nf = 2; cc.vf = 0; cc.pat = 7;
    write_frames(fA, a, std::vector<int>(a.nf, a.nb));
    write_frames(fB, b, std::vector<int>(b.nf, b.nb));
    write_frames(fC, cc, std::vector<int>(cc.nf, cc.nb));
    TC d = cc; d.nb = 1; d.pat = 2;
    write_frames(fD, d, std::vector<int>(d.nf, d.nb));
  }
  std::vector<std::unique_ptr<Topology>> keep;  // every topology stays alive to the end of the case (CsgApplication keeps master and worker topologies too)
  auto do_T = [&](TopologyReader &r) {
    keep.push_back(std::make_unique<Topology>());
    Topology &t = *keep.back();
    try { r.ReadTopology(fA, t); } catch (const std::exception &e) { return std::string("ERROR ") + std::string(e.what()).substr(0, 80); }
    return canon_top(t);
  };
  auto do_pass = [&](TrajectoryReader &r, const std::string &file, bool &threw) {
    keep.push_back(std::make_unique<Topology>());
    Topology &t = *keep.back();
    {
      std::unique_ptr<TopologyReader> ft = TopReaderFactory().Create(fA);  // the topology always comes from a FRESH reader
      ft->ReadTopology(fA, t);
    }
    ReadOut ro = read_with(r, file, t);
    if (ro.threw) { try { r.Close(); } catch (...) {} }
    threw = ro.threw;
    return canon_pass(ro, t);
  };
  std::unique_ptr<TopologyReader> one = TopReaderFactory().Create(fA);
  TrajectoryReader *one_trj = dynamic_cast<TrajectoryReader *>(one.get());
  if (!one_trj) { F.add("dual-role:" + c.fmt + "-not-a-trajectory-reader", "factory product for " + fA + " does not implement TrajectoryReader"); return; }
  for (size_t i = 0; i < c.seq.size(); i++) {
    char op = c.seq[i];
    // class of what the object did before: played the topology role at least once, or only trajectory passes, or nothing yet
    std::string prev = c.seq.substr(0, i).find('T') != std::string::npos ? "T" : (i > 0 ? "trajectory-pass" : "nothing");
    std::string got, ref;
    bool threw = false, rthrew = false;
    if (op == 'T') {
      got = do_T(*one);
      std::unique_ptr<TopologyReader> fr = TopReaderFactory().Create(fA);
      ref = do_T(*fr);
    } else {
      const std::string &file = op == 'J' ? fB : op == 'M' ? fC : fD;
      got = do_pass(*one_trj, file, threw);
      std::unique_ptr<TrajectoryReader> fr = TrjReaderFactory().Create(file);
      ref = do_pass(*fr, file, rthrew);
    }
    std::string where = "step " + std::to_string(i + 1) + " (" + op + ") of history " + c.seq + " on one " + c.fmt + " reader object";
    if ((op == 'M' || op == 'm') && !threw)
      F.add("dual-role:" + c.fmt + "-mismatch-not-reported-after-" + prev, where + ": file of " + (op == 'M' ? "3 atoms" : "1 atom") + ", topology of 2 beads, no error reported (fresh object: " + (rthrew ? "error" : "no error either") + ")");
    if (got != ref)
      F.add("dual-role:" + c.fmt + "-" + op + "-differs-after-" + prev, where + " differs from the same step on a fresh object: " + first_diff(got, ref));
    sig += std::string(1, op) + (threw ? "!" : "") + std::to_string(bsx::fnv(got) % 1000) + ",";
  }
}

// ------------------------------------------------------------------ family ms (multi-session trajectories, bAppend)
// k frames are written in 1..3 sessions (k2 = index of the split of k into sessions); a session is a new writer object
// (mode n) or the same object after Close() (mode s); later sessions open with bAppend=true. c.at selects the first session:
//   0 bAppend=false, new file        1 bAppend=true on a missing file
//   2 bAppend=true on a file that holds 2 frames of an earlier sequence (result: those 2 + the k frames)
//   3 bAppend=false on such a file (must replace it)
// Oracle: a fresh reader gives, bit for bit, what it gives for the reference file (the same frames written in ONE session);
// "append not supported" reported by the writer is accepted for dlpoly only (the unchanged code says so).
static std::vector<std::vector<int>> splits(int k) {
  std::vector<std::vector<int>> v;
  v.push_back({k});
  for (int a = 1; a < k; a++) v.push_back({a, k - a});
  for (int a = 1; a < k; a++)
    for (int b = 1; a + b < k; b++) v.push_back({a, b, k - a - b});
  return v;
}
static void run_ms(const TC &c, Fails &F, std::string &sig) {
  const FmtInfo &fi = finfo(c.fmt);
  bool dlp = c.fmt.rfind("dlp", 0) == 0;
  std::string fn = "m." + fi.ext, ref = "r." + fi.ext;
  std::remove(fn.c_str());  // the scratch directory is shared by the cases of a shard: "missing file" must really be missing
  std::remove(ref.c_str());
  TC base; base.fam = "rt"; base.fmt = c.fmt; base.nb = 2; base.vf = fi.vfs.back(); base.box = 1; base.pat = 3; base.nm = c.fmt == "pdb" ? 3 : 1;
  TC old = base; old.pat = 6;  // the earlier sequence
  int k = c.k1;
  std::vector<int> parts = splits(k)[c.k2];
  bool with_old = c.at == 2 || c.at == 3;
  Topology top;
  build(top, base.nb, base.nm);
  auto put = [&](TrajectoryWriter &w, const TC &cfgx, int f) { setframe(top, cfgx, frameof(cfgx, cfgx.nb, f), f); w.Write(&top); };
  // reference: everything the file must hold, written in one session
  {
    std::unique_ptr<TrajectoryWriter> w = TrjWriterFactory().Create(ref);
    w->Open(ref, false);
    if (c.at == 2) for (int f = 0; f < 2; f++) put(*w, old, f);
    for (int f = 0; f < k; f++) put(*w, base, f);
    w->Close();
  }
  std::string pre = "multi-session:" + kf(c.fmt);
  std::string ctx = "frames " + std::to_string(k) + " split";
  for (int p : parts) ctx += " " + std::to_string(p);
  ctx += std::string(c.mode == "s" ? ", same writer object" : ", new writer object per session") + ", first session " +
         (c.at == 0 ? "bAppend=false" : c.at == 1 ? "bAppend=true on a missing file" : c.at == 2 ? "bAppend=true after an earlier 2-frame sequence" : "bAppend=false on a file holding an earlier 2-frame sequence");
  // the earlier sequence
  if (with_old) {
    std::unique_ptr<TrajectoryWriter> w = TrjWriterFactory().Create(fn);
    w->Open(fn, false);
    for (int f = 0; f < 2; f++) put(*w, old, f);
    w->Close();
  }
  // the sessions
  std::unique_ptr<TrajectoryWriter> w;
  int f = 0;
  for (size_t si = 0; si < parts.size(); si++) {
    bool app = si > 0 || c.at == 1 || c.at == 2;
    if (!w || c.mode == "n") w = TrjWriterFactory().Create(fn);
    try {
      w->Open(fn, app);
    } catch (const std::exception &e) {
      if (app && dlp) { sig = "append-not-supported"; return; }  // documented refusal
      F.add(pre + (app ? "-append-open-throws" : "-open-throws"), ctx + ": Open(file, " + (app ? "true" : "false") + ") threw: " + std::string(e.what()).substr(0, 100));
      return;
    }
    for (int j = 0; j < parts[si]; j++, f++) put(*w, base, f);
    w->Close();
  }
  ReadOut got = read_trj(fn, base.nb, base.nm), exp = read_trj(ref, base.nb, base.nm);
  if (exp.threw) { sig = "blocked"; return; }  // the one-session file itself is unreadable: decided by family rt
  if (got.threw) { F.add(pre + "-unreadable", ctx + ": fresh reader threw at frame " + std::to_string(got.threw_at) + ": " + got.msg.substr(0, 100)); return; }
  auto canon = [](const Frame &fr) {
    std::string s = hxm(fr.box);
    for (size_t b = 0; b < fr.p.size(); b++) s += "|" + hx(fr.p[b]) + (fr.hv[b] ? " v" + hx(fr.v[b]) : "") + (fr.hf[b] ? " f" + hx(fr.f[b]) : "");
    return s;
  };
  std::vector<std::string> G, E;
  for (auto &fr : got.fr) G.push_back(canon(fr));
  for (auto &fr : exp.fr) E.push_back(canon(fr));
  sig = std::to_string(G.size()) + "/" + std::to_string(E.size());
  if (G == E) return;
  auto is_suffix = [](const std::vector<std::string> &a, const std::vector<std::string> &b) {  // a proper suffix of b
    return a.size() < b.size() && std::equal(a.begin(), a.end(), b.end() - (long)a.size());
  };
  std::string cls = is_suffix(G, E) ? "-earlier-frames-lost" : is_suffix(E, G) ? "-old-content-kept" : G.size() != E.size() ? "-frame-count" : "-frames-differ";
  F.add(pre + cls, ctx + ": file read back holds " + std::to_string(G.size()) + " frames, the same frames written in one session give " + std::to_string(E.size()) +
                       (G.empty() ? "" : "; first frame read " + v3(got.fr[0].p[0]) + " reference " + v3(exp.fr[0].p[0])));
}

// ------------------------------------------------------------------ one case
// the cases of a shard share one scratch directory: start every case without the files of earlier cases, so that a
// case behaves the same when it is re-run alone (a writer that fails to truncate is decided by family ms, at=3)
static void clean_scratch() {
  for (const char *stem : {"t", "a", "b", "m", "r", "A", "B", "C", "D", "first", "top"})
    for (const char *ext : {"gro", "xyz", "pdb", "dump", "dlph", "dlpc", "data", "xml"}) std::remove((std::string(stem) + "." + ext).c_str());
}
static bsx::Outcome run_case(const TC &c) {
  bsx::Outcome o;
  clean_scratch();
  Fails F;
  std::string sig;
  try {
    if (c.fam == "rt") run_rt(c, F, sig);
    else if (c.fam == "mm") run_mm(c, F, sig);
    else if (c.fam == "dl2") run_dl2(c, F, sig);
    else if (c.fam == "pbx") run_pbx(c, F, sig);
    else if (c.fam == "xml") run_xml(c, F, sig);
    else if (c.fam == "ru") run_ru(c, F, sig);
    else if (c.fam == "dr") run_dr(c, F, sig);
    else if (c.fam == "ms") run_ms(c, F, sig);
    else throw std::runtime_error("unknown family " + c.fam);
  } catch (const std::exception &e) {
    F.add(kf(c.fmt) + "-" + c.fam + "-unexpected-exception", std::string("unexpected exception: ") + e.what());
  }
  std::string keys;
  for (auto &p : F.v) {
    if (!c.chk.empty() && p.first != c.chk) continue;
    o.ok = false;
    if (o.key.empty()) { o.key = p.first; o.what = p.second; }
    o.extra += p.first + "\x1d" + p.second + "\x1c";
    keys += p.first + ",";
  }
  o.cls = bsx::fnv(c.fam + "|" + c.mode + "|" + c.f2 + "|" + c.fmt + "|" + std::to_string(c.nb) + "|" + std::to_string(c.vf) + "|" + std::to_string(c.box) + "|" +
                   std::to_string(c.nm) + "|" + std::to_string(c.shim) + "|" + sig + "|" + keys);
  if (o.extra.empty()) o.extra = "sig=" + sig;
  return o;
}

static std::vector<TC> enumerate(bool thorough) {
  std::vector<TC> all;
  int maxnb = thorough ? 5 : 3, maxnf = thorough ? 4 : 3;
  // 1. single bead, single frame, every (x,y,z) triple of the coordinate alphabet
  for (auto &fi : formats())
    for (int shim : fi.shims) {
      int n = (int)fi.P.size();
      std::vector<int> bx = thorough ? fi.boxes : std::vector<int>{0}, vfs = thorough ? fi.vfs : std::vector<int>{0};
      for (int box : bx)
        for (int vf : vfs)
          for (int q = 0; q < n * n * n; q++) {
            TC c; c.fam = "rt"; c.fmt = fi.name; c.nb = 1; c.nf = 1; c.pat = 1000 + q; c.shim = shim; c.box = box; c.vf = vf;
            all.push_back(c);
          }
    }
  // 2. the product of the small parameters
  for (int nb = 1; nb <= maxnb; nb++)
    for (int nf = 1; nf <= maxnf; nf++)
      for (auto &fi : formats()) {
        if (fi.name == "dlpc" && nf > 1) continue;  // a CONFIG file holds one frame
        for (int pat = 0; pat < (int)fi.P.size(); pat += (thorough ? 1 : 2))  // quick: every second cyclic shift
          for (int box : fi.boxes)
            for (int vf : fi.vfs)
              for (int nm = 0; nm < (fi.top ? 4 : 1); nm++)
                for (int shim : fi.shims) {
                  TC c; c.fam = "rt"; c.fmt = fi.name; c.nb = nb; c.nf = nf; c.pat = pat; c.box = box; c.vf = vf; c.nm = nm; c.shim = shim;
                  all.push_back(c);
                }
      }
  // 3. atom-count mismatch
  for (auto &fi : formats())
    for (int shim : fi.shims)
      for (int at = 0; at < 2; at++) {
        if (fi.name == "dlpc" && at > 0) continue;
        for (int nb = 1; nb <= maxnb; nb++)
          for (int m = 1; m <= maxnb + 1; m++) {
            if (m == nb) continue;
            for (int vf : fi.vfs) {
              TC c; c.fam = "mm"; c.fmt = fi.name; c.nb = nb; c.m = m; c.at = at; c.shim = shim; c.vf = vf; c.nf = at + 1; c.pat = 3;
              all.push_back(c);
            }
          }
      }
  for (int nb = 1; nb <= maxnb; nb++)
    for (int m = 1; m <= maxnb + 1; m++) {
      if (m == nb) continue;
      TC c; c.fam = "mm"; c.fmt = "data"; c.nb = nb; c.m = m; c.at = 0; c.pat = nb + m;
      all.push_back(c);
    }
  // 4. second dlpoly file in one process
  for (int first = 0; first < 2; first++)
    for (int nb = 1; nb <= 2; nb++)
      for (int nf = 1; nf <= 2; nf++)
        for (int box : {0, 1}) {  // orthorhombic only: the triclinic cell is decided by family rt
          TC c; c.fam = "dl2"; c.fmt = "dlph"; c.nb = nb; c.nf = nf; c.box = box; c.m = first; c.pat = 3; c.vf = 1;
          all.push_back(c);
        }
  // 5. CRYST1
  for (int shim = 0; shim < 2; shim++)
    for (int box = 0; box < 2; box++)
      for (int pat = 0; pat < 3; pat++) {
        TC c; c.fam = "pbx"; c.fmt = "pdb"; c.nb = 2; c.box = box; c.pat = pat; c.shim = shim; c.nm = 3;
        all.push_back(c);
      }
  // 6. xml topology + trajectory
  for (const char *tf : {"dump", "gro"})
    for (int nb = 1; nb <= 3; nb++)
      for (int m = 1; m <= 2; m++)
        for (int pat = 0; pat < 3; pat++) {
          TC c; c.fam = "xml"; c.fmt = tf; c.nb = nb; c.m = m; c.pat = pat; c.vf = 1;
          all.push_back(c);
        }
  // 7. reuse histories (family ru)
  {
    std::vector<std::pair<std::string, std::string>> same;  // (format of file 1, format of file 2) handled by ONE reader/writer class
    for (const char *f : {"gro", "xyz", "pdb", "dump"}) same.push_back({f, f});
    same.push_back({"dlph", "dlph"}); same.push_back({"dlph", "dlpc"}); same.push_back({"dlpc", "dlpc"}); same.push_back({"dlpc", "dlph"});
    for (const char *mode : {"w", "r", "p"})
      for (auto &pr : same)
        for (int k1 = 0; k1 < 4; k1++)
          for (int k2 = 0; k2 < 4; k2++) {
            TC c; c.fam = "ru"; c.fmt = pr.first; c.f2 = pr.second; c.k1 = k1; c.k2 = k2; c.mode = mode;
            all.push_back(c);
          }
    for (auto &fa : formats())
      for (auto &fb : formats())
        for (int va : {0, 1, 3})
          for (int vb : {0, 1, 3}) {
            TC c; c.fam = "ru"; c.fmt = fa.name; c.f2 = fb.name; c.k1 = va; c.k2 = vb; c.mode = "t"; c.nb = 2;
            all.push_back(c);
          }
    for (const char *f : {"gro", "dump"})
      for (int nb = 1; nb <= 2; nb++)
        for (int k = 0; k < 4; k++) {
          TC c; c.fam = "ru"; c.fmt = f; c.f2 = f; c.k1 = k; c.mode = "x"; c.nb = nb;
          all.push_back(c);
        }
    for (const char *mode : {"tr", "ts", "tn"})
      for (const char *f : {"gro", "xyz", "pdb", "dump", "xml"})
        for (int k1 = 0; k1 < 4; k1++)
          for (int k2 = 0; k2 < 4; k2++) {
            TC c; c.fam = "ru"; c.fmt = f; c.f2 = f; c.k1 = k1; c.k2 = k2; c.mode = mode;
            all.push_back(c);
          }
  }
  // 8. dual-role histories on ONE reader object (family dr): every sequence of length 2..3 (thorough 4) over {T, J, M, m}
  for (const char *f : {"gro", "xyz", "pdb", "dump", "data"})
    for (int len = 2; len <= (thorough ? 4 : 3); len++) {
      int n = 1;
      for (int i = 0; i < len; i++) n *= 4;
      for (int q = 0; q < n; q++) {
        TC c; c.fam = "dr"; c.fmt = f;
        for (int i = 0, qq = q; i < len; i++, qq /= 4) c.seq += "TJMm"[qq % 4];
        all.push_back(c);
      }
    }
  // 9. multi-session trajectories (family ms): every split of k <= 4 (thorough 5) frames into 1..3 sessions
  for (auto &fi : formats())
    for (int k = 1; k <= (thorough ? 5 : 4); k++) {
      if (fi.name == "dlpc" && k > 1) continue;
      int ns = (int)splits(k).size();
      for (int sp = 0; sp < ns; sp++)
        for (const char *mode : {"n", "s"}) {
          if (splits(k)[sp].size() == 1 && std::string(mode) == "s") continue;  // one session: nothing to re-open
          for (int first = 0; first < 4; first++) {
            TC c; c.fam = "ms"; c.fmt = fi.name; c.f2 = fi.name; c.k1 = k; c.k2 = sp; c.mode = mode; c.at = first; c.nb = 2;
            all.push_back(c);
          }
        }
    }
  return all;
}

// key of a case whose child process died (abort from an assertion, segfault)
static std::string fatal_key(const TC &c) {
  if (c.fam == "mm") return kf(c.fmt) + "-mismatch-not-reported";  // died on an out-of-range bead access instead of raising
  if (c.fam == "dr") return "dual-role:" + c.fmt + (c.seq.find('M') != std::string::npos ? "-crash-history-with-larger-frame" : "-crash");
  return kf(c.fmt) + "-" + c.fam + "-crash";
}
static void parse_fails(const std::string &extra, std::vector<std::pair<std::string, std::string>> &out) {
  for (auto &rec : bsx::split(extra, '\x1c')) {
    auto p = rec.find('\x1d');
    if (p == std::string::npos) continue;
    out.push_back({rec.substr(0, p), rec.substr(p + 1)});
  }
}

int main(int argc, char **argv) {
  bsx::Args a = bsx::parse(argc, argv);
  std::cout.rdbuf(nullptr);  // the readers are chatty on std::cout
  TrajectoryWriter::RegisterPlugins();
  TrajectoryReader::RegisterPlugins();
  TopologyReader::RegisterPlugins();
  if (a.has_case) {
    TC c = TC::parse(a.cas);
    bsx::Outcome o;
    bsx::contained(0, 1, [&](long long) { return run_case(c); }, [&](long long, const bsx::Outcome &r) { o = r; });
    if (o.ok) { printf("case holds\n"); return 0; }
    std::vector<std::pair<std::string, std::string>> fl;
    parse_fails(o.extra, fl);
    if (fl.empty()) fl.push_back({o.key == "fatal" ? fatal_key(c) : o.key, o.what});
    for (auto &p : fl) printf("case FAILS: key=%s %s\n", p.first.c_str(), p.second.c_str());
    return 3;
  }
  bsx::Report R;
  R.property = "C08"; R.part = "trj"; R.tier = a.tier;
  bool thorough = a.tier == "thorough";
  R.max_samples = 10;
  R.rule =
      "formats gro, xyz, pdb, lammps dump, dlpoly .dlph/.dlpc through TrjWriterFactory/TrjReaderFactory/TopReaderFactory: "
      "(a) one bead, one frame" + std::string(thorough ? " x every box x every velocity/force flag" : "") + ", every (x,y,z) triple over the per-format coordinate alphabet {0, +-1 unit of the last printed digit, "
      "+-1.23456789, 0.5, 2.5 units, +-(just inside the field width)[, xyz: +-(filling the field width)]}; "
      "(b) full product beads 1.." + std::string(thorough ? "5" : "3") + " x frames 1.." + std::string(thorough ? "4" : "3") +
      " x " + std::string(thorough ? "all" : "every second") + " cyclic shift(s) of the alphabet x boxes {orthorhombic, orthorhombic 5-decimal, triclinic lower-triangular, general 3x3 (gro, dlpoly only)} "
      "x velocity/force presence as far as the dialect stores them x 4 naming schemes (1 char, 1..5 chars with distinct types/residues, over-long 7..8 chars, element names) "
      "[x shim on/off for xyz and pdb]; (c) atom-count mismatch: frame of nb atoms read into a topology of m != nb beads at frame 0 or 1; "
      "(d) second dlpoly file of a process; (e) CRYST1 via PDBWriter::WriteBox; (f) generated xml topology + written trajectory; "
      "(i) multi-session trajectories: every split of k <= " + std::string(thorough ? "5" : "4") + " frames into 1..3 sessions (new writer object per session, or the same object after Close), "
      "later sessions Open(file, bAppend=true); first session bAppend=false on a new file / bAppend=true on a missing file / bAppend=true on a file holding an earlier 2-frame sequence / "
      "bAppend=false on such a file (must replace); oracle: a fresh reader returns, bit for bit, the frames it returns for the same frames written in ONE session "
      "(a writer refusing append is accepted for dlpoly only); "
      "(h) dual-role histories on ONE reader object for the classes that are TopologyReader and TrajectoryReader at once (gro, xyz, pdb, lammps dump, lammps data; "
      "factory product cross-cast to the other interface): every sequence of length 2.." + std::string(thorough ? "4" : "3") + " over {T = ReadTopology(file A, fresh topology), "
      "J = trajectory pass Open/FirstFrame/NextFrame.../Close of file B on a topology built by a fresh reader, M / m = the same pass with a file holding more / fewer atoms than the topology (must report an error)}; "
      "oracle: every step equals, bit for bit, the same step on a fresh reader object (bead count, names, types, residues, mass, charge, positions/velocities/forces incl. presence flags, box, frame count, error or not); "
      "(g) reuse histories over 4 base configurations (1 bead/1 frame, 2 beads/2 frames+vel, 2 beads+vel+force+triclinic, 3 beads/3 frames), all ordered pairs: "
      "one writer object for two files, one reader object for two files (also closed after the first frame of file 1), incl. dlph<->dlpc; "
      "one Topology receiving a file of format a then a file of format b (all 36 ordered format pairs x velocity/force presence {none, vel, vel+force}^2) "
      "and gro/dump files whose frames alternate in what they carry: a frame without velocities/forces must not leave Bead::HasVel()/HasF() true; "
      "topology readers (gro, xyz, pdb, dump, xml): same reader + fresh topology, same reader + same topology, new reader + same topology. "
      "Oracle: same frame count/order, bead count, names/types/residues as far as stored, positions/velocities/forces/box equal to the originals "
      "within half a unit of the last printed digit after the format's own unit conversion; mismatch must raise an exception. "
      "distinct_nontrivial = distinct (family, format, sizes, flags, read-back signature, failure-key set) tuples";
  R.assumptions.push_back("readers are driven like CsgApplication does: FirstFrame unconditionally, then NextFrame until it returns false");
  std::vector<TC> all = enumerate(thorough);
  long long n = (long long)all.size();
  for (long long i = 0; i < n; i++) {
    if (!a.mine(i)) continue;
    const TC &c = all[i];
    bsx::contained(
        i, i + 1, [&](long long k) { return run_case(all[k]); },
        [&](long long k, const bsx::Outcome &o) {
          const TC &cc = all[k];
          R.eval();
          R.counters[cc.fam + (cc.mode.empty() ? "" : "-" + cc.mode) + "." + cc.fmt]++;
          if (o.ok) {
            R.cls(o.cls);
            if (o.extra.find("blocked") != std::string::npos) R.counters["mm.blocked-by-other-finding"]++;
            if (cc.fam == "mm" && o.extra == "sig=raised") R.counters["mm.raised"]++;
            if ((k % 997) == 0 || (cc.fam != "rt" && (k % 13) == 0)) R.sample(cc.str() + " -> holds (" + o.extra + ")");
            return;
          }
          R.cls(o.cls);
          std::vector<std::pair<std::string, std::string>> fl;
          parse_fails(o.extra, fl);
          if (fl.empty()) fl.push_back({o.key == "fatal" ? fatal_key(cc) : o.key, o.what});  // the child died
          for (auto &p : fl) R.fail(p.first, p.second + "  [" + cc.str() + "]", cc.str() + ";chk=" + p.first);
        });
    (void)c;
  }
  if (!a.out.empty()) R.write(a.out);
  return 0;
}
