// C11_prop — Property XML write/load round trip and Property::as<T> literal acceptance.
//   --mode rt   : every property tree of a stated small scope is written with operator<< (XML
//                 manipulator, as job.cc / iqm.cc do) to a file and read back with LoadFromXML; the
//                 reloaded tree must have the same names, order, attributes and trimmed values.
//                 Also every shipped XML description file: load -> write -> load.
//   --mode cast : every short string over type-specific alphabets through Property::as<T> for
//                 bool / Index / double / std::string / Vector3d / VectorXd / vector<Index>, compared
//                 with the documented accept sets (boring predicates below) and strtod/strtoll values.
// Real code: libvotca_tools from $VERIF_REPO (property.cc) + the header templates (property.h,
// tokenizer.h, lexical_cast.h) compiled into this harness.
#include <votca/tools/optionshandler.h>
#include <votca/tools/property.h>
#include <votca/tools/propertyiomanipulator.h>

#include <dirent.h>

#include <cerrno>
#include <climits>
#include <fstream>
#include <iostream>

#include "bsx.h"

using votca::Index;
using votca::tools::Property;
using votca::tools::PropertyIOManipulator;

// ---------------------------------------------------------------------------------- plain tree
struct T {
  std::string name, value;
  std::vector<std::pair<std::string, std::string>> attrs;  // sorted by name
  std::vector<T> kids;
};

static std::string hex(const std::string &s) {
  static const char *d = "0123456789abcdef";
  std::string o;
  for (unsigned char c : s) { o += d[c >> 4]; o += d[c & 15]; }
  return o;
}
static std::string unhexs(const std::string &s) {
  std::string o;
  for (size_t i = 0; i + 1 < s.size(); i += 2) o += (char)strtol(s.substr(i, 2).c_str(), nullptr, 16);
  return o;
}
static std::string trim(const std::string &s) {
  size_t a = s.find_first_not_of(" \t\n\v\f\r");
  if (a == std::string::npos) return "";
  size_t b = s.find_last_not_of(" \t\n\v\f\r");
  return s.substr(a, b - a + 1);
}

// preorder encoding: depth:name:hex(value):attr=hex,attr=hex / ...
static void enc(const T &t, int depth, std::string &o) {
  if (!o.empty()) o += "/";
  o += std::to_string(depth) + ":" + t.name + ":" + hex(t.value) + ":";
  for (size_t i = 0; i < t.attrs.size(); i++) o += (i ? "," : "") + t.attrs[i].first + "=" + hex(t.attrs[i].second);
  for (auto &k : t.kids) enc(k, depth + 1, o);
}
static T dec(const std::string &s) {
  std::vector<std::pair<int, T>> nodes;
  for (auto &tok : bsx::split(s, '/')) {
    auto f = bsx::split(tok, ':');
    T t;
    t.name = f.at(1);
    t.value = unhexs(f.at(2));
    if (f.size() > 3 && !f[3].empty())
      for (auto &a : bsx::split(f[3], ',')) {
        auto e = a.find('=');
        t.attrs.push_back({a.substr(0, e), unhexs(a.substr(e + 1))});
      }
    nodes.push_back({atoi(f.at(0).c_str()), t});
  }
  // rebuild from preorder + depth
  std::function<T(size_t &, int)> build = [&](size_t &i, int depth) {
    T t = nodes[i].second;
    i++;
    while (i < nodes.size() && nodes[i].first == depth + 1) t.kids.push_back(build(i, depth + 1));
    return t;
  };
  size_t i = 0;
  return build(i, 0);
}
static std::string show(const T &t) {
  std::string o = "<" + t.name;
  for (auto &a : t.attrs) o += " " + a.first + "='" + a.second + "'";
  o += ">[" + t.value + "]";
  for (auto &k : t.kids) o += show(k);
  return o + "</>";
}

static void to_prop(const T &t, Property &parent) {
  Property &p = parent.add(t.name, t.value);
  for (auto &a : t.attrs) p.setAttribute<std::string>(a.first, a.second);
  for (auto &k : t.kids) to_prop(k, p);
}
static T from_prop(const Property &p) {
  T t;
  t.name = p.name();
  t.value = p.value();
  for (auto it = p.firstAttribute(); it != p.lastAttribute(); ++it) t.attrs.push_back({it->first, it->second});
  for (const Property &k : p) t.kids.push_back(from_prop(k));
  return t;
}
// "the same tree (names, order, attributes, trimmed values)"
static bool same(const T &a, const T &b, std::string &why, const std::string &path = "") {
  std::string here = path + "/" + a.name;
  if (a.name != b.name) { why = here + ": name '" + a.name + "' became '" + b.name + "'"; return false; }
  if (trim(a.value) != trim(b.value)) { why = here + ": value '" + a.value + "' became '" + b.value + "'"; return false; }
  if (a.attrs != b.attrs) { why = here + ": attributes differ"; return false; }
  if (a.kids.size() != b.kids.size()) {
    why = here + ": " + std::to_string(a.kids.size()) + " children became " + std::to_string(b.kids.size());
    return false;
  }
  for (size_t i = 0; i < a.kids.size(); i++)
    if (!same(a.kids[i], b.kids[i], why, here)) return false;
  return true;
}

// one round trip of the real code: 0 same, 1 load error, 2 loaded but different
static int roundtrip(const T &t, std::string &why) {
  Property root;
  to_prop(t, root);
  {
    ::unlink("rt.xml");  // a fresh file: truncating an existing one makes ext4 flush on close (slow)
    std::ofstream f("rt.xml", std::ios::trunc);
    PropertyIOManipulator iom(PropertyIOManipulator::XML, 1, "");
    f << iom << root;
  }
  Property back;
  try {
    back.LoadFromXML("rt.xml");
  } catch (const std::exception &e) {
    why = std::string("LoadFromXML of the written file throws: ") + e.what();
    for (auto &c : why) if (c == '\n') c = ' ';
    return 1;
  }
  if (back.size() != 1) { why = "reloaded document has " + std::to_string(back.size()) + " top-level elements"; return 2; }
  T b = from_prop(*back.begin());
  return same(t, b, why) ? 0 : 2;
}

static bool has_any(const std::string &s, const char *set) { return s.find_first_of(set) != std::string::npos; }
static void scan(const T &t, bool &badval, bool &badattr) {
  if (has_any(t.value, "<&")) badval = true;
  for (auto &a : t.attrs) if (has_any(a.second, "<&\"")) badattr = true;
  for (auto &k : t.kids) scan(k, badval, badattr);
}
// the same tree with every string that contains an XML metacharacter replaced by a harmless one
static T defused(const T &t) {
  T r = t;
  if (has_any(r.value, "<&")) r.value = "m";
  for (auto &a : r.attrs) if (has_any(a.second, "<&\"")) a.second = "m";
  for (auto &k : r.kids) k = defused(k);
  return r;
}

struct Verdict { bool ok; std::string key, what; uint64_t cls; };
static Verdict check_tree(const T &t) {
  std::string why;
  int rc = roundtrip(t, why);
  std::string e;
  enc(t, 0, e);
  // class: shape + which kind of outcome
  size_t nn = std::count(e.begin(), e.end(), '/') + 1;
  if (rc == 0) return {true, "", "", bsx::fnv("same:" + std::to_string(nn))};
  bool bv = false, ba = false;
  scan(t, bv, ba);
  std::string key = "roundtrip-mismatch";
  if (bv || ba) {
    // a known key may claim the failure only if the metacharacters explain it
    std::string w2;
    if (roundtrip(defused(t), w2) == 0) key = ba ? "xml-write-unescaped-attribute" : "xml-write-unescaped-text";
  }
  if (key == "roundtrip-mismatch") key += rc == 1 ? "-load-error" : "-tree-differs";
  return {false, key, "tree " + show(t) + " written with operator<< and re-read: " + why,
          bsx::fnv(std::string(rc == 1 ? "loaderr" : "differs"))};
}

// all ordered rooted trees with n nodes as preorder depth sequences
static void shapes(int n, std::vector<std::vector<int>> &out) {
  std::vector<int> d(n, 0);
  std::function<void(int)> rec = [&](int i) {
    if (i == n) { out.push_back(d); return; }
    for (int k = 1; k <= d[i - 1] + 1; k++) { d[i] = k; rec(i + 1); }
  };
  if (n >= 1) rec(1);
}
static T build_shape(const std::vector<int> &depth, const std::vector<T> &nodes) {
  std::function<T(size_t &, int)> build = [&](size_t &i, int dd) {
    T t = nodes[i];
    i++;
    while (i < depth.size() && depth[i] == dd + 1) t.kids.push_back(build(i, dd + 1));
    return t;
  };
  size_t i = 0;
  return build(i, 0);
}

static const std::vector<std::string> VFULL = {"a", "", "b c", " x ", "<", "&", "\"", ">", "'", "&amp;"};
static const std::vector<std::string> VSMALL = {"a", "", "<"};

static int mode_rt(const bsx::Args &a, bsx::Report &R) {
  R.rule =
      "rt: S1 all ordered trees with <=N nodes, node names {a,b}, node values over V={a,'',b c,' x ',<,&,\",>,',&amp;}, no "
      "attributes (quick: N=3 over V and N=4 over {a,'',<}; thorough: N=4 over V and N=5 over {a,'',<}); S2 trees a and a>b with attributes p,q each "
      "absent or over V on every node and values {'',v} (quick: q only on the first node); S3 every shipped xtp option XML "
      "file incl. subpackages, csg_defaults.xml.in and every CalculatorOptions() tree. Each tree: operator<< with the XML "
      "manipulator to a file, LoadFromXML, compare names/order/attributes/trimmed values. A failure is attributed to a "
      "known escaping key only if the same tree with the metacharacter strings replaced passes. distinct = (node count, outcome kind).";
  bool thorough = a.tier == "thorough";
  long long ci = 0;
  auto run = [&](const T &t) {
    if (!a.mine(ci++)) return;
    Verdict v = check_tree(t);
    R.eval();
    R.cls(v.cls);
    std::string e;
    enc(t, 0, e);
    if (!v.ok) R.fail(v.key, v.what, "rt:" + e);
    else if (R.evaluations % 997 == 1) R.sample("rt " + show(t) + " -> same tree after write/load");
  };
  // S1
  for (int n = 1; n <= (thorough ? 5 : 4); n++) {
    const std::vector<std::string> &V = (n < 4 || (thorough && n == 4)) ? VFULL : VSMALL;
    std::vector<std::vector<int>> sh;
    shapes(n, sh);
    for (auto &depth : sh) {
      std::vector<int> idx(2 * n, 0), radix;
      for (int i = 0; i < n; i++) radix.push_back(2);
      for (int i = 0; i < n; i++) radix.push_back((int)V.size());
      do {
        std::vector<T> nodes(n);
        for (int i = 0; i < n; i++) { nodes[i].name = idx[i] ? "b" : "a"; nodes[i].value = V[idx[n + i]]; }
        run(build_shape(depth, nodes));
      } while (bsx::next(idx, radix));
    }
  }
  // S2
  {
    int na = (int)VFULL.size() + 1;  // index 0 = absent
    auto setattrs = [&](T &t, int p, int q) {
      if (p) t.attrs.push_back({"p", VFULL[p - 1]});
      if (q) t.attrs.push_back({"q", VFULL[q - 1]});
    };
    for (int p = 0; p < na; p++)
      for (int q = 0; q < na; q++)
        for (int v = 0; v < 2; v++) {
          T t; t.name = "a"; t.value = v ? "v" : "";
          setattrs(t, p, q);
          run(t);
        }
    for (int p = 0; p < na; p++)
      for (int q = 0; q < na; q++)
        for (int p2 = 0; p2 < na; p2++)
          for (int q2 = 0; q2 < (thorough ? na : 1); q2++)
            for (int v = 0; v < 4; v++) {
              T t; t.name = "a"; t.value = (v & 1) ? "v" : "";
              setattrs(t, p, q);
              T k; k.name = "b"; k.value = (v & 2) ? "v" : "";
              setattrs(k, p2, q2);
              t.kids.push_back(k);
              run(t);
            }
  }
  // S3: shipped files
  const char *repo = getenv("VERIF_REPO");
  std::string rp = repo ? repo : "/repo";
  std::vector<std::string> files;
  for (std::string sub : {"xtp/share/xtp/xml", "xtp/share/xtp/xml/subpackages"}) {
    std::vector<std::string> names;
    if (DIR *d = opendir((rp + "/" + sub).c_str())) {
      while (dirent *e = readdir(d)) {
        std::string n = e->d_name;
        if (n.size() > 4 && n.substr(n.size() - 4) == ".xml") names.push_back(n);
      }
      closedir(d);
    }
    std::sort(names.begin(), names.end());
    for (auto &n : names) files.push_back(sub + "/" + n);
  }
  files.push_back("csg/share/xml/csg_defaults.xml.in");
  for (auto &f : files) {
    for (int resolved = 0; resolved < 2; resolved++) {
      bool top = f.find("subpackages") == std::string::npos && f.find("csg/") == std::string::npos;
      if (resolved && !top) continue;
      if (!a.mine(ci++)) continue;
      std::string cas = std::string(resolved ? "calc:" : "file:") + f;
      Property p;
      try {
        if (!resolved) p.LoadFromXML(rp + "/" + f);
        else {
          std::string base = f.substr(f.rfind('/') + 1);
          p = votca::tools::OptionsHandler(rp + "/xtp/share/xtp/xml/").CalculatorOptions(base.substr(0, base.size() - 4));
        }
      } catch (const std::exception &e) {
        R.fail("shipped-file-unreadable", f + ": " + e.what(), cas);
        continue;
      }
      T t = from_prop(*p.begin());
      Verdict v = check_tree(t);
      R.eval();
      R.counters["shipped_files"]++;
      if (!v.ok) R.fail(v.key + ":shipped", f + ": " + v.what.substr(v.what.rfind("re-read")), cas);
      else R.sample(cas + " -> same tree after write/load");
    }
  }
  return 0;
}

static int case_rt(const std::string &c) {
  if (c.rfind("rt:", 0) == 0) {
    T t = dec(c.substr(3));
    std::string why;
    roundtrip(t, why);
    std::stringstream ss;
    { std::ifstream f("rt.xml"); ss << f.rdbuf(); }
    Verdict v = check_tree(t);
    printf("tree %s\n%s\n", show(t).c_str(), v.ok ? "holds" : ("FAILS key=" + v.key + ": " + v.what).c_str());
    printf("file written by operator<<:\n%s\n", ss.str().c_str());
    return v.ok ? 0 : 3;
  }
  const char *repo = getenv("VERIF_REPO");
  std::string rp = repo ? repo : "/repo";
  std::string f = c.substr(5);
  Property p;
  if (c.rfind("file:", 0) == 0) p.LoadFromXML(rp + "/" + f);
  else {
    std::string base = f.substr(f.rfind('/') + 1);
    p = votca::tools::OptionsHandler(rp + "/xtp/share/xtp/xml/").CalculatorOptions(base.substr(0, base.size() - 4));
  }
  Verdict v = check_tree(from_prop(*p.begin()));
  printf("%s: %s\n", c.c_str(), v.ok ? "holds" : ("FAILS key=" + v.key + ": " + v.what.substr(v.what.rfind("re-read"))).c_str());
  return v.ok ? 0 : 3;
}

// ---------------------------------------------------------------------------------- as<T>
// documented accept sets (tokenizer.h convert_impl: bool is "true"/"false" in any case or "1"/"0";
// arithmetic types are whole-string lexical casts; vectors are words separated by " ,\n\t";
// Property::as trims white space first).
static bool ref_bool(const std::string &s, bool &v) {
  std::string l;
  for (char c : s) l += (char)tolower((unsigned char)c);
  if (l == "true" || s == "1") { v = true; return true; }
  if (l == "false" || s == "0") { v = false; return true; }
  return false;
}
static bool all_digits(const std::string &s, size_t from) {
  if (from >= s.size()) return false;
  for (size_t i = from; i < s.size(); i++) if (s[i] < '0' || s[i] > '9') return false;
  return true;
}
static bool ref_int(const std::string &s, long long &v) {
  size_t i = (!s.empty() && (s[0] == '+' || s[0] == '-')) ? 1 : 0;
  if (!all_digits(s, i)) return false;
  errno = 0;
  v = strtoll(s.c_str(), nullptr, 10);
  return errno != ERANGE;
}
// 1 accept, 0 reject, -1 unspecified (nan/inf spellings and out-of-range magnitudes are documented nowhere)
static int ref_float(const std::string &s, double &v) {
  size_t i = (!s.empty() && (s[0] == '+' || s[0] == '-')) ? 1 : 0;
  std::string l;
  for (size_t k = i; k < s.size(); k++) l += (char)tolower((unsigned char)s[k]);
  if (l.rfind("nan", 0) == 0 || l.rfind("inf", 0) == 0) return -1;
  size_t nd = 0, k = i;
  while (k < s.size() && isdigit((unsigned char)s[k])) { k++; nd++; }
  if (k < s.size() && s[k] == '.') { k++; while (k < s.size() && isdigit((unsigned char)s[k])) { k++; nd++; } }
  if (nd == 0) return 0;
  if (k < s.size() && (s[k] == 'e' || s[k] == 'E')) {
    k++;
    if (k < s.size() && (s[k] == '+' || s[k] == '-')) k++;
    if (!all_digits(s, k)) return 0;
    k = s.size();
  }
  if (k != s.size()) return 0;
  errno = 0;
  v = strtod(s.c_str(), nullptr);
  if (errno == ERANGE) return -1;
  return 1;
}
static std::vector<std::string> ref_words(const std::string &s) {
  std::vector<std::string> w;
  std::string cur;
  for (char c : s) {
    if (c == ' ' || c == ',' || c == '\n' || c == '\t') { if (!cur.empty()) w.push_back(cur); cur.clear(); }
    else cur += c;
  }
  if (!cur.empty()) w.push_back(cur);
  return w;
}

template <class Tp>
static bool real_as(const std::string &s, Tp &out, std::string &msg) {
  Property p("lit", s, "path");
  try {
    out = p.as<Tp>();
    return true;
  } catch (const std::runtime_error &e) {
    msg = e.what();
    return false;
  }
}

// one literal for one type; type in {bool,int,float,str,vec3,vecx,veci}
static Verdict check_lit(const std::string &type, const std::string &s) {
  std::string t = trim(s), msg, q = "'" + s + "'";
  auto bad = [&](const std::string &key, const std::string &what) { return Verdict{false, key, "as<" + type + ">(" + q + "): " + what, 0}; };
  if (type == "bool") {
    bool rv = false, v = false;
    bool racc = ref_bool(t, rv), acc = real_as<bool>(s, v, msg);
    if (racc && !acc) return bad("as-bool-rejects-documented-literal", msg);
    if (!racc && acc) return bad("as-bool-accepts-undocumented-literal", std::string("accepted as ") + (v ? "true" : "false"));
    if (acc && v != rv) return bad("as-bool-wrong-value", "wrong value");
    return {true, "", "", bsx::fnv(std::string(acc ? (v ? "bool:true" : "bool:false") : "bool:reject"))};
  }
  if (type == "int") {
    long long rv = 0; Index v = 0;
    bool racc = ref_int(t, rv), acc = real_as<Index>(s, v, msg);
    if (racc && !acc) return bad("as-int-rejects-integer-literal", msg);
    if (!racc && acc) return bad("as-int-accepts-non-integer", "accepted as " + std::to_string(v));
    if (acc && (long long)v != rv) return bad("as-int-wrong-value", "got " + std::to_string(v));
    return {true, "", "", bsx::fnv(acc ? "int:" + std::to_string(v) : std::string("int:reject"))};
  }
  if (type == "float") {
    double rv = 0, v = 0;
    int racc = ref_float(t, rv);
    bool acc = real_as<double>(s, v, msg);
    if (racc == -1) return {true, "", "", bsx::fnv(std::string("float:unspecified"))};
    if (racc == 1 && !acc) return bad("as-float-rejects-decimal-literal", msg);
    if (racc == 0 && acc) return bad("as-float-accepts-non-number", "accepted as " + bsx::fmt(v));
    if (acc && memcmp(&v, &rv, sizeof v) != 0) return bad("as-float-wrong-value", "got " + bsx::fmt(v) + " expected " + bsx::fmt(rv));
    return {true, "", "", bsx::fnv(acc ? "float:" + bsx::fmt(v) : std::string("float:reject"))};
  }
  if (type == "str") {
    std::string v;
    bool acc = real_as<std::string>(s, v, msg);
    if (!acc) return bad("as-string-rejects", msg);
    if (v != t) return bad("as-string-not-trimmed-value", "got '" + v + "'");
    return {true, "", "", bsx::fnv("str:" + std::to_string(v.size()))};
  }
  // vectors
  std::vector<std::string> w = ref_words(t);
  std::vector<double> rv;
  int racc = 1;
  for (auto &x : w) {
    double d = 0; long long l = 0;
    int r = type == "veci" ? (ref_int(x, l) ? 1 : 0) : ref_float(x, d);
    if (type == "veci") d = (double)l;
    if (r == 0) racc = 0;
    else if (r == -1 && racc == 1) racc = -1;
    rv.push_back(d);
  }
  if (type == "vec3" && w.size() != 3) racc = 0;
  std::vector<double> got;
  bool acc;
  if (type == "vec3") { Eigen::Vector3d v; acc = real_as<Eigen::Vector3d>(s, v, msg); if (acc) got = {v[0], v[1], v[2]}; }
  else if (type == "vecx") { Eigen::VectorXd v; acc = real_as<Eigen::VectorXd>(s, v, msg); if (acc) got.assign(v.data(), v.data() + v.size()); }
  else { std::vector<Index> v; acc = real_as<std::vector<Index>>(s, v, msg); if (acc) for (Index i : v) got.push_back((double)i); }
  if (racc == -1) return {true, "", "", bsx::fnv(type + ":unspecified")};
  if (racc == 1 && !acc) return bad("as-" + type + "-rejects-documented-literal", msg);
  if (racc == 0 && acc) return bad("as-" + type + "-accepts-undocumented-literal", "accepted with " + std::to_string(got.size()) + " entries");
  if (acc && got != rv) return bad("as-" + type + "-wrong-value", "entries differ");
  return {true, "", "", bsx::fnv(type + (acc ? ":n=" + std::to_string(got.size()) : ":reject"))};
}

static void all_strings(const std::string &alpha, int maxlen, const std::function<void(const std::string &)> &f) {
  for (int len = 0; len <= maxlen; len++) {
    std::vector<int> idx(len, 0), radix(len, (int)alpha.size());
    do {
      std::string s(len, ' ');
      for (int i = 0; i < len; i++) s[i] = alpha[idx[i]];
      f(s);
    } while (len > 0 && bsx::next(idx, radix));
  }
}

static int mode_cast(const bsx::Args &a, bsx::Report &R) {
  bool thorough = a.tier == "thorough";
  R.rule =
      "cast: as<bool> on all strings of length <=L over {t,T,r,R,u,U,e,E,f,F,a,l,s,S,0,1,' ',2,y} (L=4 quick, 5 thorough) + 30 listed "
      "literals; as<string> on all strings of length <=5/6 over {t,T,r,u,e,' ',1}; "
      "as<Index> on all strings of length <=L over {0,1,9,+,-,' ',.,e,x} (5/6) + 64-bit boundary literals; as<double> on all "
      "strings of length <=L over {0,1,5,.,e,E,+,-,' ',n,a,i,f,x} (4/5) + listed literals (hex float, huge exponent, 1d3, 1f); "
      "as<Vector3d>/as<VectorXd>/as<vector<Index>> on 0..4 words from {1,-2.5,1e3,.5,x,''} joined by separators from "
      "{' ',',',', ',tab,newline} (quick: one separator per string, thorough: per gap). oracle: documented accept sets "
      "(bool: true/false any case, 1, 0; arithmetic: whole trimmed string is a decimal literal in range; vectors: words split "
      "at ' ,\\n\\t', Vector3d exactly 3), values vs strtoll/strtod bit for bit; nan/inf spellings and out-of-range magnitudes "
      "are unspecified (either outcome allowed). distinct = (type, value or reject).";
  long long ci = 0;
  auto run = [&](const std::string &type, const std::string &s) {
    if (!a.mine(ci++)) return;
    Verdict v = check_lit(type, s);
    R.eval();
    R.counters["literals_" + type]++;
    if (v.cls) R.cls(v.cls);
    if (!v.ok) R.fail(v.key, v.what, "lit:" + type + ":" + hex(s));
    else if (R.evaluations % 20011 == 7) R.sample("as<" + type + ">('" + s + "') agrees with the documented rule");
  };
  all_strings("tTrRuUeEfFalsS01 2y", thorough ? 5 : 4, [&](const std::string &s) { run("bool", s); });
  for (const char *s : {"true", "false", "TRUE", "FALSE", "True", "False", "fALSE", " false", "false ", "\tfalse\n", "falsee",
                        "ffalse", "fals", "0", "1", "00", "01", "10", "-1", "+1", "1.0", "yes", "no", "on", "off", "y", "n", "T", "F", ""})
    run("bool", s);
  all_strings("tTrue 1", thorough ? 6 : 5, [&](const std::string &s) { run("str", s); });
  all_strings("019+- .ex", thorough ? 6 : 5, [&](const std::string &s) { run("int", s); });
  for (const char *s : {"9223372036854775807", "9223372036854775808", "-9223372036854775808", "-9223372036854775809",
                        "+9223372036854775807", "99999999999999999999", "0000000000000000000007", "-0", "+0", " 42 ", "4 2",
                        "0x10", "1e3", "1.0", "1.", "42\n", "\t42", "true", ""})
    run("int", s);
  all_strings("015.eE+- naifx", thorough ? 5 : 4, [&](const std::string &s) { run("float", s); });
  for (const char *s : {"0x1p3", "0x10", "1e999", "-1e999", "1e-999", "1d3", "1f", "1.5f", "1,5", "1.5.2", "1e3.5", "1e+", "1e",
                        ".e1", "+.5e-3", "5.", ".5", "1E3", "1e+03", "123456789.123456789", "0.1", "1e-7", " 2.5 ", "2.5\n",
                        "2. 5", "nan", "NaN", "inf", "-inf", "infinity", "nanx", "1_000"})
    run("float", s);
  {
    const std::vector<std::string> W = {"1", "-2.5", "1e3", ".5", "x", ""};
    const std::vector<std::string> S = {" ", ",", ", ", "\t", "\n"};
    for (int n = 0; n <= 4; n++) {
      int gaps = n > 1 ? n - 1 : 0;
      std::vector<int> idx(n + (thorough ? gaps : (gaps ? 1 : 0)), 0), radix;
      for (int i = 0; i < n; i++) radix.push_back((int)W.size());
      for (size_t i = n; i < idx.size(); i++) radix.push_back((int)S.size());
      do {
        std::string s;
        for (int i = 0; i < n; i++) {
          if (i) s += S[idx[thorough ? n + i - 1 : n]];
          s += W[idx[i]];
        }
        for (const char *type : {"vec3", "vecx", "veci"}) run(type, s);
      } while (!idx.empty() && bsx::next(idx, radix));
    }
  }
  return 0;
}

static int case_cast(const std::string &c) {
  auto f = bsx::split(c, ':');
  std::string s = unhexs(f.at(2));
  Verdict v = check_lit(f.at(1), s);
  printf("as<%s>('%s'): %s\n", f[1].c_str(), s.c_str(), v.ok ? "holds" : ("FAILS key=" + v.key + ": " + v.what).c_str());
  return v.ok ? 0 : 3;
}


// ---------------------------------------------------------------------------------- reuse histories
// Differential oracle: the second call on a REUSED object == the same call on a fresh object.
static std::string pdump(const Property &p) {  // everything observable, incl. path()
  std::string o = "{" + p.name() + "|" + p.value() + "|" + p.path() + "|";
  for (auto it = p.firstAttribute(); it != p.lastAttribute(); ++it) o += it->first + "=" + it->second + ";";
  o += p.HasChildren() ? "|C" : "|L";
  for (const Property &k : p) o += pdump(k);
  return o + "}";
}
static std::string repo_root() {
  const char *repo = getenv("VERIF_REPO");
  return repo ? repo : "/repo";
}
static void spit(const std::string &file, const std::string &text) {
  ::unlink(file.c_str());
  std::ofstream f(file, std::ios::trunc | std::ios::binary);
  f << text;
}
static std::vector<std::string> xml_names(const std::string &dir) {
  std::vector<std::string> names;
  if (DIR *d = opendir(dir.c_str())) {
    while (dirent *e = readdir(d)) {
      std::string n = e->d_name;
      if (n.size() > 4 && n.substr(n.size() - 4) == ".xml") names.push_back(n.substr(0, n.size() - 4));
    }
    closedir(d);
  }
  std::sort(names.begin(), names.end());
  return names;
}

// --- (h) one OptionsHandler, two public calls in a row
struct HItem { int kind; std::string calc, xml, extra; };  // kind 0 ProcessUserInput, 1 CalculatorOptions
static std::vector<HItem> hitems() {
  std::vector<HItem> v = {
      {0, "dftgwbse", "<options><dftgwbse/></options>", ""},
      {0, "dftgwbse", "<options><dftgwbse><tasks>gwbse</tasks><mpsfile>m.mps</mpsfile><dftpackage><orca><method>x</method></orca>"
                      "<charge>-1</charge></dftpackage></dftgwbse></options>", ""},
      {0, "qmmm", "<options><qmmm><regions><qmregion><id>0</id><state>s1</state></qmregion><polarregion><id>1</id><cutoff>"
                  "<radius>1.5</radius><region>0</region></cutoff></polarregion><qmregion><id>2</id></qmregion></regions></qmmm></options>", ""},
      {0, "qmmm", "<options><qmmm><max_iterations>-3</max_iterations><regions/></qmmm></options>", ""},
      {0, "neighborlist", "<options><neighborlist><segmentpairs><pair><type>A B</type><cutoff>1</cutoff></pair><pair><type>C D</type>"
                          "<cutoff>2</cutoff></pair></segmentpairs></neighborlist></options>", ""},
      {1, "dftgwbse", "", ""},
      {0, "eqm", "<options><eqm><map_file>jobfile</map_file><gwbse><gw><mode>jobfile</mode></gw></gwbse></eqm></options>", "jobfile"},
      {0, "eqm", "<options><eqm><map_file>jobfile</map_file><gwbse><gw><mode>jobfile</mode></gw></gwbse></eqm></options>", ""},
      {0, "qmmm", "<options><qmmm><regions><staticregion><id>0</id></staticregion></regions><zz_undeclared>1</zz_undeclared></qmmm></options>", ""},
      {1, "qmmm", "", ""},
  };
  for (auto &n : xml_names(repo_root() + "/xtp/share/xtp/xml")) {
    v.push_back({0, n, "<options><" + n + "/></options>", ""});
    v.push_back({1, n, "", ""});
  }
  return v;
}
static std::string hcall(votca::tools::OptionsHandler &h, const HItem &it, std::string *user_changed = nullptr) {
  std::vector<std::string> extra;
  if (!it.extra.empty()) extra = bsx::split(it.extra, ',');
  h.setAdditionalChoices(extra);  // set / unset between the calls
  try {
    if (it.kind == 1) return "OK " + pdump(h.CalculatorOptions(it.calc));
    spit("u.xml", it.xml);
    Property user;
    user.LoadFromXML("u.xml");
    std::string before = pdump(user);
    std::string out;
    try {
      out = "OK " + pdump(h.ProcessUserInput(user, it.calc));
    } catch (const std::exception &e) {
      out = std::string("ERR ") + e.what();
    }
    if (user_changed && pdump(user) != before) *user_changed = "user input tree was modified by ProcessUserInput";
    return out;
  } catch (const std::exception &e) {
    return std::string("ERR ") + e.what();
  }
}
static std::string brief(const HItem &it) {
  return (it.kind ? "CalculatorOptions(" : "ProcessUserInput(") + it.calc + (it.kind ? "" : ", " + it.xml.substr(0, 70)) +
         (it.extra.empty() ? ")" : ") +choices{" + it.extra + "}");
}
static Verdict check_h(size_t i, size_t j) {
  auto items = hitems();
  const HItem &a = items.at(i), &b = items.at(j);
  std::string dir = repo_root() + "/xtp/share/xtp/xml/";
  votca::tools::OptionsHandler reused(dir), fresh(dir);
  std::string changed;
  hcall(reused, a, &changed);
  std::string second = hcall(reused, b, &changed);
  std::string ref = hcall(fresh, b);
  std::string what = "one OptionsHandler: " + brief(a) + " then " + brief(b) + ": ";
  if (!changed.empty()) return {false, "reuse-handler-user-input-modified", what + changed, 0};
  if (second != ref) {
    size_t k = 0;
    while (k < second.size() && k < ref.size() && second[k] == ref[k]) k++;
    return {false, "reuse-handler-second-call-differs",
            what + "second result differs from the same call on a fresh handler at byte " + std::to_string(k) + ": reused '" +
                second.substr(k > 30 ? k - 30 : 0, 100) + "' fresh '" + ref.substr(k > 30 ? k - 30 : 0, 100) + "'", 0};
  }
  return {true, "", "", bsx::fnv(second.substr(0, 3) + std::to_string(second.size() % 7))};
}

// --- (l) LoadFromXML twice into one Property: property.cc pushes `this` and add()s, i.e. APPENDS
static std::vector<std::pair<std::string, std::string>> lfiles() {  // (name, content or "" = shipped file of that path)
  std::vector<std::pair<std::string, std::string>> v = {
      {"f0.xml", "<a>v</a>"},
      {"f1.xml", "<?xml version=\"1.0\"?>\n<a p=\"1\"><b>x</b><b>y</b></a>\n"},
      {"f2.xml", "<c/>"},
      {"f3.xml", "<a><c>z</c></a>"},
      {"f4.xml", "<a>t<b q=\"&amp;\"/>u</a>"},
      {repo_root() + "/xtp/share/xtp/xml/dftgwbse.xml", ""},
  };
  for (auto &n : xml_names(repo_root() + "/xtp/share/xtp/xml")) v.push_back({repo_root() + "/xtp/share/xtp/xml/" + n + ".xml", ""});
  for (auto &n : xml_names(repo_root() + "/xtp/share/xtp/xml/subpackages"))
    v.push_back({repo_root() + "/xtp/share/xtp/xml/subpackages/" + n + ".xml", ""});
  return v;
}
static Verdict check_l(size_t i, size_t j) {
  auto files = lfiles();
  for (size_t k : {i, j})
    if (!files.at(k).second.empty()) spit(files[k].first, files[k].second);
  Property twice, f1, f2;
  twice.LoadFromXML(files[i].first);
  twice.LoadFromXML(files[j].first);
  f1.LoadFromXML(files[i].first);
  f2.LoadFromXML(files[j].first);
  std::string what = "one Property: LoadFromXML(" + files[i].first + ") then LoadFromXML(" + files[j].first + "): ";
  std::string exp, got;
  for (const Property &k : f1) exp += pdump(k);
  for (const Property &k : f2) exp += pdump(k);
  for (const Property &k : twice) got += pdump(k);
  if (got != exp) return {false, "reuse-load-twice-not-appended", what + "children are not those of the first load followed by those of the second", 0};
  if (twice.name() != "" || twice.value() != f2.value() || twice.hasAttributes())
    return {false, "reuse-load-twice-root-changed", what + "root name/value/attributes changed: value '" + twice.value() + "'", 0};
  // lookups must see the second document (last wins) exactly as a fresh load does
  const Property &r2 = *f2.begin();
  if (!twice.exists(r2.name()) || pdump(twice.get(r2.name())) != pdump(r2))
    return {false, "reuse-load-twice-lookup-stale", what + "get(" + r2.name() + ") does not return the root of the second document", 0};
  if ((Index)twice.Select(r2.name()).size() != (Index)(f1.Select(r2.name()).size() + 1))
    return {false, "reuse-load-twice-select", what + "Select(" + r2.name() + ") count wrong", 0};
  return {true, "", "", bsx::fnv("l" + std::to_string(twice.size()) + (f1.begin()->name() == r2.name() ? "same" : "diff"))};
}

// --- (m) a tree modified in place between two write+load round trips
static const char *OPS[] = {"none", "add-root", "add-first", "set-first", "del-a", "del-all", "attr-set", "attr-set2", "attr-del",
                            "add-copy", "value"};
static const int NOPS = 11;
static bool apply_op(int op, T &t, Property &p) {  // t model, p the live object (root element); false: op not applicable
  switch (op) {
    case 0: return true;
    case 1: { T k; k.name = "c"; k.value = "n"; t.kids.push_back(k); p.add("c", "n"); return true; }
    case 2: {
      if (t.kids.empty()) return false;
      T k; k.name = "b"; k.value = "";
      t.kids[0].kids.push_back(k);
      p.begin()->add("b", "");
      return true;
    }
    case 3: {
      if (t.kids.empty()) return false;
      // set() addresses the LAST child with that name
      std::string n = t.kids[0].name;
      for (size_t i = t.kids.size(); i-- > 0;)
        if (t.kids[i].name == n) { t.kids[i].value = "w"; break; }
      p.set(n, "w");
      return true;
    }
    case 4: {
      std::vector<T> keep;
      for (auto &k : t.kids) if (k.name != "a") keep.push_back(k);
      t.kids = keep;
      p.deleteChildren([](const Property &c) { return c.name() == "a"; });
      return true;
    }
    case 5: t.kids.clear(); p.deleteChildren([](const Property &) { return true; }); return true;
    case 6: case 7: {
      std::string v = op == 6 ? "1" : "2 <&\"";
      bool found = false;
      for (auto &a : t.attrs) if (a.first == "p") { a.second = v; found = true; }
      if (!found) { t.attrs.push_back({"p", v}); std::sort(t.attrs.begin(), t.attrs.end()); }
      p.setAttribute<std::string>("p", v);
      return true;
    }
    case 8: {
      std::vector<std::pair<std::string, std::string>> keep;
      for (auto &a : t.attrs) if (a.first != "p") keep.push_back(a);
      t.attrs = keep;
      p.deleteAttribute("p");
      return true;
    }
    case 9: {
      if (t.kids.empty()) return false;
      T k = t.kids[0];
      t.kids.push_back(k);
      Property c = *p.begin();
      p.add(c);
      return true;
    }
    case 10: t.value = t.value.empty() ? "nv" : ""; p.value() = t.value; return true;
  }
  return false;
}
static std::string slurp(const std::string &f) {
  std::ifstream in(f);
  std::stringstream ss;
  ss << in.rdbuf();
  return ss.str();
}
static bool write_load(const Property &root, T &back, std::string &text, std::string &why) {
  ::unlink("m.xml");
  {
    std::ofstream f("m.xml", std::ios::trunc);
    PropertyIOManipulator iom(PropertyIOManipulator::XML, 1, "");
    f << iom << root;
  }
  text = slurp("m.xml");
  Property b;
  try { b.LoadFromXML("m.xml"); } catch (const std::exception &e) { why = std::string("reload throws: ") + e.what(); return false; }
  if (b.size() != 1) { why = "reloaded document has " + std::to_string(b.size()) + " top-level elements"; return false; }
  back = from_prop(*b.begin());
  return true;
}
static Verdict check_m(const T &t0, int op1, int op2) {
  T t = t0;
  Property root;
  to_prop(t, root);
  Property &live = *root.begin();
  std::string e;
  enc(t0, 0, e);
  std::string what = "tree " + show(t0) + ": write+load, " + OPS[op1] + ", " + OPS[op2] + ", write+load: ";
  T back;
  std::string text, why;
  if (!write_load(root, back, text, why) || !same(t, back, why)) return {false, "reuse-modify-first-roundtrip", what + why, 0};
  if (!apply_op(op1, t, live) || !apply_op(op2, t, live)) return {true, "", "", 0};  // not applicable
  // the live object must now look like the model ...
  if (!same(t, from_prop(live), why)) return {false, "reuse-modify-object-differs-from-model", what + "object after the edits: " + why, 0};
  if (live.HasChildren() != !t.kids.empty()) return {false, "reuse-modify-haschildren-stale", what + "HasChildren() is stale", 0};
  for (auto &k : t.kids) {
    if (!live.exists(k.name)) return {false, "reuse-modify-lookup-stale", what + "exists(" + k.name + ") false after the edits", 0};
    // get() = last child with that name
    const T *last = nullptr;
    for (auto &x : t.kids) if (x.name == k.name) last = &x;
    if (!same(*last, from_prop(live.get(k.name)), why)) return {false, "reuse-modify-lookup-stale", what + "get(" + k.name + "): " + why, 0};
  }
  for (const char *n : {"a", "b", "c"}) {
    bool ex = false;
    for (auto &x : t.kids) ex = ex || x.name == n;
    if (live.exists(n) != ex) return {false, "reuse-modify-lookup-stale", what + "exists(" + n + ") wrong after the edits", 0};
  }
  // ... and write+load of the reused object == write+load of a freshly built equal tree
  std::string text2, textf;
  T back2, backf;
  if (!write_load(root, back2, text2, why) || !same(t, back2, why)) return {false, "reuse-modify-second-roundtrip", what + why, 0};
  Property fresh;
  to_prop(t, fresh);
  if (!write_load(fresh, backf, textf, why)) return {false, "reuse-modify-second-roundtrip", what + "fresh tree: " + why, 0};
  if (text2 != textf) return {false, "reuse-modify-written-file-differs-from-fresh", what + "file written from the edited object differs from the file written from a fresh equal tree", 0};
  return {true, "", "", bsx::fnv(std::string(OPS[op1]) + OPS[op2] + std::to_string(t.kids.size()))};
}

// --- (a) as<T> after value() was changed
static const char *ALITS[] = {"5", "-7", "true", "FALSE", "1", "0", "2.5", "1e3", "x", "", " 12 ", "1 2 3", "1,2", "1 2 3 4", "nan?", "0x10"};
static const int NALITS = 16;
static const char *ATYPES[] = {"bool", "int", "float", "str", "vec3", "vecx", "veci"};
static std::string as_outcome(const std::string &type, const Property &p) {
  try {
    if (type == "bool") return p.as<bool>() ? "ok:true" : "ok:false";
    if (type == "int") return "ok:" + std::to_string(p.as<Index>());
    if (type == "float") return "ok:" + bsx::hexd(p.as<double>());
    if (type == "str") return "ok:" + p.as<std::string>();
    std::string o = "ok:";
    if (type == "vec3") { Eigen::Vector3d v = p.as<Eigen::Vector3d>(); for (int i = 0; i < 3; i++) o += bsx::hexd(v[i]) + ","; }
    else if (type == "vecx") { Eigen::VectorXd v = p.as<Eigen::VectorXd>(); for (Index i = 0; i < v.size(); i++) o += bsx::hexd(v[i]) + ","; }
    else { for (Index i : p.as<std::vector<Index>>()) o += std::to_string(i) + ","; }
    return o;
  } catch (const std::runtime_error &e) {
    return std::string("err:") + e.what();
  }
}
static Verdict check_a(int ti, int i, int j, int how) {
  std::string type = ATYPES[ti];
  Property parent("par", "", "");
  Property &p = parent.add("n", ALITS[i]);
  p.setAttribute<std::string>("at", ALITS[i]);
  std::string first = as_outcome(type, p);
  if (how == 0) p.value() = ALITS[j];
  else parent.set("n", ALITS[j]);
  p.setAttribute<std::string>("at", ALITS[j]);
  std::string second = as_outcome(type, p);
  Property parent2("par", "", "");
  Property &q = parent2.add("n", ALITS[j]);
  std::string ref = as_outcome(type, q);
  std::string what = "as<" + type + "> on '" + ALITS[i] + "' (" + first + "), value changed to '" + ALITS[j] + "' by " +
                     (how ? "set()" : "value()=") + ": ";
  if (second != ref) return {false, "reuse-as-after-value-change", what + "got " + second + ", a fresh Property gives " + ref, 0};
  if (p.getAttribute<std::string>("at") != std::string(ALITS[j])) return {false, "reuse-attribute-after-overwrite", what + "attribute not replaced", 0};
  return {true, "", "", bsx::fnv(type + second.substr(0, 3))};
}

static void all_small_trees(int maxn, const std::vector<std::string> &V, const std::function<void(const T &)> &f) {
  for (int n = 1; n <= maxn; n++) {
    std::vector<std::vector<int>> sh;
    shapes(n, sh);
    for (auto &depth : sh) {
      std::vector<int> idx(2 * n, 0), radix;
      for (int i = 0; i < n; i++) radix.push_back(2);
      for (int i = 0; i < n; i++) radix.push_back((int)V.size());
      do {
        std::vector<T> nodes(n);
        for (int i = 0; i < n; i++) { nodes[i].name = idx[i] ? "b" : "a"; nodes[i].value = V[idx[n + i]]; }
        f(build_shape(depth, nodes));
      } while (bsx::next(idx, radix));
    }
  }
}

static int mode_reuse(const bsx::Args &a, bsx::Report &R) {
  bool thorough = a.tier == "thorough";
  R.rule =
      "reuse (differential: second call on a reused object == same call on a fresh object). h: one OptionsHandler, all ordered "
      "pairs (incl. i=j) of public calls from 10 base items (ProcessUserInput on dftgwbse/qmmm/neighborlist/eqm trees accepted and "
      "rejected, CalculatorOptions, additional choices {jobfile} set for one item and unset for the next) - thorough: + empty input "
      "and CalculatorOptions of every shipped calculator (66 items); full dump (names, values, paths, attributes) of the second "
      "result compared, user input tree must be untouched. l: LoadFromXML twice into one Property, all ordered pairs of 6 files "
      "(thorough: + every shipped xml incl. subpackages): children == first document's followed by second's (property.cc appends), "
      "root untouched, get()/Select() see the second document. m: every tree <=3 nodes over names {a,b}, values {'',v,<} x every "
      "in-place edit (add, add below first child, set, deleteChildren(name a), deleteChildren(all), setAttribute twice, "
      "deleteAttribute, add(copy of first child), value change; thorough: every ordered pair of edits) between two write+load "
      "round trips: object == plain model, exists/get/HasChildren consistent, reloaded tree == model, written file byte-identical "
      "to that of a freshly built equal tree. a: as<T> (7 types) on literal i, value changed to literal j through value()= or "
      "set(), all ordered pairs of 16 literals: result == fresh Property with literal j. distinct = (sub-space, outcome kind).";
  long long ci = 0;
  auto rec = [&](const Verdict &v, const std::string &cas, const std::string &sample) {
    R.eval();
    if (v.cls) R.cls(v.cls);
    if (!v.ok) R.fail(v.key, v.what, cas);
    else if (R.evaluations % 211 == 1) R.sample(sample);
  };
  size_t nh = thorough ? hitems().size() : 10, nl = thorough ? lfiles().size() : 6;
  for (size_t i = 0; i < nh; i++)
    for (size_t j = 0; j < nh; j++) {
      if (!a.mine(ci++)) continue;
      R.counters["handler_pairs"]++;
      rec(check_h(i, j), "ru:h:" + std::to_string(i) + ":" + std::to_string(j),
          "one handler, calls #" + std::to_string(i) + " then #" + std::to_string(j) + ": second result identical to a fresh handler's");
    }
  for (size_t i = 0; i < nl; i++)
    for (size_t j = 0; j < nl; j++) {
      if (!a.mine(ci++)) continue;
      R.counters["load_twice_pairs"]++;
      rec(check_l(i, j), "ru:l:" + std::to_string(i) + ":" + std::to_string(j),
          "LoadFromXML of files #" + std::to_string(i) + " then #" + std::to_string(j) + " into one Property: appended, lookups see the second");
    }
  all_small_trees(3, {"", "v", "<"}, [&](const T &t) {
    for (int o1 = 0; o1 < NOPS; o1++)
      for (int o2 = 0; o2 < (thorough ? NOPS : 1); o2++) {
        if (!a.mine(ci++)) continue;
        R.counters["modify_histories"]++;
        std::string e;
        enc(t, 0, e);
        rec(check_m(t, o1, o2), "ru:m:" + std::to_string(o1) + ":" + std::to_string(o2) + ":" + e,
            "tree " + show(t) + " write+load, " + OPS[o1] + "," + OPS[o2] + ", write+load: consistent with model and fresh tree");
      }
  });
  for (int ti = 0; ti < 7; ti++)
    for (int i = 0; i < NALITS; i++)
      for (int j = 0; j < NALITS; j++)
        for (int how = 0; how < 2; how++) {
          if (!a.mine(ci++)) continue;
          R.counters["as_after_change"]++;
          rec(check_a(ti, i, j, how), "ru:a:" + std::to_string(ti) + ":" + std::to_string(i) + ":" + std::to_string(j) + ":" + std::to_string(how),
              std::string("as<") + ATYPES[ti] + "> '" + ALITS[i] + "' -> '" + ALITS[j] + "' same as fresh");
        }
  return 0;
}
static int case_reuse(const std::string &c) {
  auto f = bsx::split(c, ':');
  Verdict v{true, "", "", 0};
  if (f.at(1) == "h") v = check_h(atoi(f.at(2).c_str()), atoi(f.at(3).c_str()));
  else if (f[1] == "l") v = check_l(atoi(f.at(2).c_str()), atoi(f.at(3).c_str()));
  else if (f[1] == "m") {
    size_t pos = 0;
    for (int k = 0; k < 4; k++) pos = c.find(':', pos) + 1;
    v = check_m(dec(c.substr(pos)), atoi(f.at(2).c_str()), atoi(f.at(3).c_str()));
  } else v = check_a(atoi(f.at(2).c_str()), atoi(f.at(3).c_str()), atoi(f.at(4).c_str()), atoi(f.at(5).c_str()));
  printf("%s: %s\n", c.c_str(), v.ok ? "holds" : ("FAILS key=" + v.key + ": " + v.what).c_str());
  return v.ok ? 0 : 3;
}

int main(int argc, char **argv) {
  bsx::Args a = bsx::parse(argc, argv);
  if (a.has_case) {
    if (a.cas.rfind("lit:", 0) == 0) return case_cast(a.cas);
    if (a.cas.rfind("ru:", 0) == 0) return case_reuse(a.cas);
    return case_rt(a.cas);
  }
  std::string mode = a.kv.count("mode") ? a.kv["mode"] : "rt";
  bsx::Report R;
  R.property = "C11";
  R.part = mode == "rt" ? "roundtrip" : mode == "reuse" ? "reuse" : "cast";
  R.tier = a.tier;
  R.max_samples = 10;
  if (mode == "rt") mode_rt(a, R);
  else if (mode == "reuse") mode_reuse(a, R);
  else mode_cast(a, R);
  if (!a.out.empty()) R.write(a.out);
  return 0;
}
