#!/usr/bin/env python3
"""C11 part `opts` — OptionsHandler::ProcessUserInput over every shipped calculator description.

Real code : $VERIF_BUILD/harness/C11_drv (C++; loads the user XML with Property::LoadFromXML and calls
            OptionsHandler::ProcessUserInput from libvotca_tools built from $VERIF_REPO).
Reference : `predict()` below — an independent interpreter of the option DESCRIPTION FORMAT
            (attributes default / OPTIONAL / REQUIRED / choices / link / list / unchecked) written from the
            property statement, not from optionshandler.cc.  It predicts either the resolved tree
            (path -> value for every declared leaf, presence for inner nodes) or "rejected, message names X".
Space     : see RULE.  Every case of the stated space is enumerated (no sampling); `--case` re-runs one.
"""
import copy, json, os, re, subprocess, sys
import xml.etree.ElementTree as ET

sys.path.insert(0, os.path.join(os.environ.get("VERIF_ROOT", os.path.join(os.path.dirname(os.path.abspath(__file__)), "..")), "lib"))
import pybsx

REPO = os.environ.get("VERIF_REPO", "/repo")
BUILD = os.environ.get("VERIF_BUILD", "/verif/build")
DRV = os.path.join(BUILD, "harness", "C11_drv")
DIRS = {  # id -> directory with calculator descriptions (+ subpackages/)
    "xtp": os.path.join(REPO, "xtp/share/xtp/xml") + "/",
    "tt": os.path.join(REPO, "tools/src/tests/DataFiles/optionshandler") + "/",
}
# description with a deliberately malformed list (two templates with the same tag): outside the property
SKIP = {("tt", "calc_brokenlist")}
WS = " \t\n\r"


# ----------------------------------------------------------------------------- generic tree
class N:
    __slots__ = ("name", "value", "attrs", "kids")

    def __init__(self, name, value="", attrs=None, kids=None):
        self.name, self.value, self.attrs, self.kids = name, value, dict(attrs or {}), list(kids or [])

    def last(self, name):
        r = None
        for k in self.kids:
            if k.name == name:
                r = k
        return r

    def all(self, name):
        return [k for k in self.kids if k.name == name]

    def clone(self):
        return N(self.name, self.value, self.attrs, [k.clone() for k in self.kids])


def from_et(e):
    n = N(e.tag, e.text or "", e.attrib)
    for c in e:
        n.kids.append(from_et(c))
        n.value += c.tail or ""
    return n


def xesc(s, attr=False):
    s = s.replace("&", "&amp;").replace("<", "&lt;").replace(">", "&gt;")
    if attr:
        s = s.replace('"', "&quot;")
    return s


def to_xml(n):
    a = "".join(' %s="%s"' % (k, xesc(v, True)) for k, v in n.attrs.items())
    if not n.kids and n.value == "":
        return "<%s%s/>" % (n.name, a)
    return "<%s%s>%s%s</%s>" % (n.name, a, xesc(n.value), "".join(to_xml(k) for k in n.kids), n.name)


# ----------------------------------------------------------------------------- description loading
_desc_cache = {}


LINKED = set()   # id() of description nodes that came in through a link= attribute


def mark_linked(n):
    LINKED.add(id(n))
    for k in n.kids:
        mark_linked(k)


def load_desc(dirid, calc):
    """the calculator description with all `link`ed sub-packages spliced in"""
    key = (dirid, calc)
    if key in _desc_cache:
        return _desc_cache[key]
    d = DIRS[dirid]
    root = from_et(ET.parse(os.path.join(d, calc + ".xml")).getroot())

    def splice(n):
        if "link" in n.attrs:
            for rel in [t for t in re.split("[ ,]", n.attrs["link"]) if t]:
                pkg = from_et(ET.parse(os.path.join(d, "subpackages", rel)).getroot())
                for k, v in pkg.attrs.items():
                    n.attrs.setdefault(k, v)          # attributes already present on the linking tag win
                new = [k.clone() for k in pkg.kids]
                n.kids += new
                for k in new:
                    mark_linked(k)
        for k in n.kids:
            splice(k)

    splice(root)
    _desc_cache[key] = root
    return root


# ----------------------------------------------------------------------------- literal rules (documented accept sets)
INT_RE = re.compile(r"[+-]?[0-9]+\Z")
FLT_RE = re.compile(r"[+-]?([0-9]+\.?[0-9]*|\.[0-9]+)([eE][+-]?[0-9]+)?\Z")


def is_bool(s):
    return s.lower() in ("true", "false") or s in ("1", "0")


def is_int(s):
    return bool(INT_RE.match(s)) and -2 ** 63 <= int(s) <= 2 ** 63 - 1


def is_float(s):
    return bool(FLT_RE.match(s))


def words(s):
    return [w for w in re.split("[ ,]", s) if w]


def choice_words(att):
    multi = "[" in att
    if multi:
        att = att[att.find("[") + 1:att.find("]")]
    return multi, words(att)


SPECIAL_RE = re.compile(r"([+-]?)(nan|inf|infinity)\Z", re.I)


def float_ok(v, nonneg):
    """type-based: is the literal a value of an IEEE double (and >= 0)?  True / False / None = the statement leaves it open
    (nan / inf spellings; non-zero literals that underflow to zero)"""
    m = SPECIAL_RE.match(v)
    if m:
        if nonneg and m.group(1) == "-" and m.group(2).lower() != "nan":
            return False                 # -inf: either no number or negative, rejected under both readings
        return None
    if not is_float(v):
        return False
    x = float(v)                         # correctly rounded, like strtod
    if x in (float("inf"), float("-inf")):
        return False                     # magnitude beyond DBL_MAX: not a double
    if x == 0.0 and re.search("[1-9]", re.split("[eE]", v)[0]):
        return None                      # underflow to zero
    if nonneg and (x < 0.0):
        return False
    return True


def value_ok(value, choices_att, extra):
    """does `value` (raw text) satisfy the declared choices?  True / False / None (unspecified).
    int, int+ : 64-bit signed VOTCA Index; float, float+ : IEEE double — decided from the literal, not from the code under test"""
    v = value.strip(WS)
    if v in extra:
        return True
    multi, ws = choice_words(choices_att)
    if not ws:
        return True
    head = ws[0]
    if head == "bool":
        return is_bool(v)
    if head == "float":
        return float_ok(v, False)
    if head == "float+":
        return float_ok(v, True)
    if head == "int":
        return is_int(v)
    if head == "int+":
        return is_int(v) and int(v) >= 0
    if not multi:
        return v in ws
    return all(w in ws for w in words(v))


# ----------------------------------------------------------------------------- the reference interpreter
class R:  # resolved node of the prediction
    __slots__ = ("name", "value", "kids", "cmp")

    def __init__(self, name, value, cmp_value):
        self.name, self.value, self.kids, self.cmp = name, value, [], cmp_value


def verbatim(u):
    r = R(u.name, u.value, True)
    r.kids = [verbatim(k) for k in u.kids]
    return r


def predict(desc_root, user_root, extra=(), honour_user_mark=False, unspec_ok=True, unspec_seen=None):
    """-> ("ok", R tree)  or  ("reject", [(kind, name), ...])   kinds: undeclared / required / choice
    honour_user_mark: the statement does not say what an unchecked= attribute written by the USER on a
    section that the description does not declare unchecked means.  Two readings are allowed: it means nothing
    (False: undeclared names below it are rejected) or it makes the section an unchecked one (True: undeclared
    names below it are accepted and copied to the resolved options like in a declared unchecked section)."""
    faults = []

    def names(u, d):
        if honour_user_mark and "unchecked" in u.attrs:
            return
        for c in u.kids:
            dk = d.last(c.name)
            if dk is None:
                faults.append(("undeclared", c.name))
            elif "unchecked" not in dk.attrs:
                names(c, dk)

    def merge(d, u):
        dflt = d.attrs.get("default")
        if u is None:
            if dflt == "OPTIONAL":
                return None
            if dflt == "REQUIRED":
                faults.append(("required", d.name))
        if not d.kids:  # a declared leaf
            if u is not None:
                r = R(d.name, u.value, True)
                if "unchecked" in d.attrs or (honour_user_mark and "unchecked" in u.attrs):
                    r.kids = [verbatim(k) for k in u.kids]
            else:
                r = R(d.name, d.value if dflt in (None, "OPTIONAL", "REQUIRED") else dflt, True)
            if not r.kids and "choices" in d.attrs:
                ok = value_ok(r.value, d.attrs["choices"], extra)
                if ok is None:               # statement silent (nan/inf/underflow): both outcomes are allowed
                    if unspec_seen is not None:
                        unspec_seen.append(d.name)
                    ok = unspec_ok
                if not ok:
                    faults.append(("choice", d.name))
            return r
        r = R(d.name, "", False)
        if "list" in d.attrs and u is not None:
            for t in d.kids:  # one template per tag; the user decides the multiplicity
                for e in u.all(t.name):
                    k = merge(t, e)
                    if k is not None:
                        r.kids.append(k)
        else:
            for dk in d.kids:
                k = merge(dk, u.last(dk.name) if u is not None else None)
                if k is not None:
                    r.kids.append(k)
        if "unchecked" in d.attrs and u is not None:
            r.kids += [verbatim(k) for k in u.kids]
        elif honour_user_mark and u is not None and "unchecked" in u.attrs:
            r.kids += [verbatim(k) for k in u.kids if d.last(k.name) is None]
        return r

    top = N("", "", None, [desc_root])
    names(user_root, top)
    res = merge(top, user_root)
    if faults:
        return "reject", faults
    return "ok", res


def flatten_pred(r, prefix, out):
    cnt = {}
    for k in r.kids:
        i = cnt.get(k.name, 0)
        cnt[k.name] = i + 1
        p = prefix + "/" + k.name + ("#%d" % i if i else "")
        out[p] = k.value.strip(WS) if (k.cmp and not k.kids) else None
        flatten_pred(k, p, out)
    return out


def flatten_real(j, prefix, out):
    cnt = {}
    for k in j["c"]:
        i = cnt.get(k["n"], 0)
        cnt[k["n"]] = i + 1
        p = prefix + "/" + k["n"] + ("#%d" % i if i else "")
        out[p] = k["v"].strip(WS)
        flatten_real(k, p, out)
    return out


# ----------------------------------------------------------------------------- comparison -> (ok, key, what, class)
def user_marks(desc, user):
    """user nodes carrying unchecked= where the description does not declare the section unchecked"""
    found = []

    def rec(u, d):
        for c in u.kids:
            dk = d.last(c.name)
            if dk is None or "unchecked" in dk.attrs:
                continue
            if "unchecked" in c.attrs:
                found.append(c.name)
            rec(c, dk)
    rec(user, N("", "", None, [desc]))
    return found


def compare(dirid, calc, extra, user, real):
    desc = load_desc(dirid, calc)
    marks = user_marks(desc, user)
    unspec = []
    r = compare1(desc, calc, extra, user, real, False, True, unspec)
    if not r[0] and unspec:
        r3 = compare1(desc, calc, extra, user, real, False, False)
        if r3[0]:
            return r3
    if r[0]:
        return (r[0], r[1], r[2], "unspecified-literal:" + r[3]) if unspec else r
    if not marks:
        return r
    r2 = compare1(desc, calc, extra, user, real, True)
    if r2[0]:
        return r2
    if real[0] == "OK" and r[1].startswith("accepted-undeclared"):
        return (False, "user-marked-unchecked-children-dropped",
                "section %s carries a user-side unchecked= attribute: its undeclared children are neither rejected nor "
                "present in the resolved options (%s)" % (marks, r2[2]), r[3])
    return r


def compare1(desc, calc, extra, user, real, honour, unspec_ok=True, unspec_seen=None):
    kind, pred = predict(desc, user, extra, honour, unspec_ok, unspec_seen)
    status, payload = real
    if kind == "reject":
        kinds = sorted({k for k, _ in pred})
        cls = "reject:" + "+".join(kinds)
        if status == "OK":
            return False, "accepted-%s" % kinds[0], "expected rejection naming one of %s, but the input was accepted" % sorted({n for _, n in pred}), cls
        if not any(n in payload for _, n in pred):
            return False, "reject-message-not-naming-%s" % kinds[0], "rejected, but message %r names none of %s" % (payload[:200], sorted({n for _, n in pred})), cls
        return True, "", "", cls
    exp = flatten_pred(pred, "", {})
    if status != "OK":
        # narrow predicates on the failing input
        un = unchecked_children(desc, user)
        if un and "no option" in payload and any(payload.endswith("." + n) for n in un):
            return False, "unchecked-section-child-rejected", "child %s of a section declared unchecked= was rejected: %r" % (un, payload[:200]), "ok"
        if "cannot be converted" in payload:
            return False, "rejected-legal-value", "legal input rejected: %r" % payload[:300], "ok"
        if "Please specify" in payload:
            return False, "rejected-required-although-supplied-or-inactive", "legal input rejected: %r" % payload[:300], "ok"
        if "no option" in payload:
            return False, "rejected-declared-name", "legal input rejected: %r" % payload[:300], "ok"
        return False, "rejected-legal-input", "legal input rejected: %r" % payload[:300], "ok"
    got = flatten_real(payload, "", {})
    supplied = flatten_user(user)
    for p in sorted(set(exp) | set(got)):
        if p not in got:
            key = "user-leaf-lost" if p in supplied else "declared-leaf-missing"
            return False, key, "resolved options lack %s (expected %r)" % (p, exp[p]), "ok"
        if p not in exp:
            return False, "invented-node", "resolved options contain %s=%r which is neither user input nor an active default" % (p, got[p]), "ok"
        if exp[p] is not None and exp[p] != got[p]:
            key = "user-value-changed" if p in supplied else "default-value-wrong"
            return False, key, "%s: expected %r, resolved %r" % (p, exp[p], got[p]), "ok"
    return True, "", "", "ok:%d" % len(exp)


def flatten_user(u):
    out = {}

    def rec(n, prefix):
        cnt = {}
        for k in n.kids:
            i = cnt.get(k.name, 0)
            cnt[k.name] = i + 1
            p = prefix + "/" + k.name + ("#%d" % i if i else "")
            out[p] = k.value
            rec(k, p)
    rec(u, "")
    return out


def unchecked_children(desc, user):
    """names of user nodes that sit directly below a description node carrying unchecked="""
    found = []

    def rec(u, d):
        for c in u.kids:
            dk = d.last(c.name)
            if dk is None:
                continue
            if "unchecked" in dk.attrs:
                found.extend(x.name for x in c.kids)
            else:
                rec(c, dk)
    rec(user, N("", "", None, [desc]))
    return found


# ----------------------------------------------------------------------------- enumeration of user trees
LEGAL = {"bool": ["true", "0", "FALSE"], "int": ["-7", "12", " 5 "], "int+": ["0", "12"],
         "float": ["-2.5", "1e-3", "7"], "float+": ["0", "2.5", "1E-3", " .5 "]}
ILLEGAL = {"bool": ["yes", "2", ""], "int": ["x", "1.5", "", "1 2"], "int+": ["-1", "x", "1.5"],
           "float": ["x", "1,5", "", "--1"], "float+": ["-0.5", "x", "-1e-3"]}
P31, P32, P53, P63, P64 = 2 ** 31, 2 ** 32, 2 ** 53, 2 ** 63, 2 ** 64
_INTS = ["0", "-0", "+0", "1", "-1", "+1", str(P31 - 1), str(P31), str(-P31), str(-P31 - 1), str(P32), str(P53), str(P53 + 1),
         str(P63 - 1), "+" + str(P63 - 1), str(-P63 + 1), str(-P63), str(P63), str(-P63 - 1), str(P64), "1e30", "1e3", "1.0",
         "007", "0" * 24 + "12", "-0042", " %d " % P31, "\t%d\n" % (P63 - 1), "inf", "nan", "1e308", "0x7fffffff"]
_FLTS = ["0", "-0", "0.0", "-0.0", "1", "-1", "+1.5", "00.5", "-00.5", str(P31), str(P53 + 1), str(P63), "-" + str(P63), "1e30", "-1e30",
         " 1e308 ", "1e308", "-1e308", "1.7976931348623157e308", "-1.7976931348623157e308", "1.7976931348623159e308", "1e309",
         "-1e309", "1e-320", "-1e-320", "4.9e-324", "2.2250738585072014e-308", "1e-400", "-1e-400", "inf", "+inf", "-inf",
         "infinity", "-Infinity", "nan", "NAN", "-nan", "0x1p3", "1e", "1d3"]
MAGNITUDE = {"int": _INTS, "int+": _INTS, "float": _FLTS, "float+": _FLTS}
FREE = ["abc", "", 'p <q> & "r" \'s\'', "1 2 3"]
BAD = "zz_bad"


def leaf_values(d):
    """[(value, tag)] to try on a declared leaf: its default, every legal choice, illegal ones per type"""
    vals = []
    dflt = d.attrs.get("default")
    if dflt not in (None, "OPTIONAL", "REQUIRED"):
        vals.append(dflt)
    if "choices" in d.attrs:
        multi, ws = choice_words(d.attrs["choices"])
        if ws and ws[0] in LEGAL:
            vals += LEGAL[ws[0]] + ILLEGAL[ws[0]]
        elif ws and not multi:
            vals += ws + [BAD, "", ws[0].swapcase()] + ([ws[0] + " " + ws[1]] if len(ws) > 1 else [])
        elif ws:
            vals += ws + ["", ",".join(ws), BAD, ws[0] + "," + BAD]
            if len(ws) > 1:
                vals += [ws[0] + "," + ws[1], ws[1] + " " + ws[0], " " + ws[-1] + " , " + ws[0] + " "]
    else:
        vals += FREE
    seen, out = set(), []
    for v in vals:
        if v not in seen:
            seen.add(v)
            out.append(v)
    return out


def second_legal(d):
    """a legal value different from the default (used for pairs)"""
    dflt = d.attrs.get("default")
    if "choices" in d.attrs:
        multi, ws = choice_words(d.attrs["choices"])
        if ws and ws[0] in LEGAL:
            c = LEGAL[ws[0]]
        else:
            c = ws
        for v in c:
            if v != dflt:
                return v
        return c[0] if c else "abc"
    return "other" if dflt != "other" else "another"


def needs_input(d):
    if d.attrs.get("default") == "REQUIRED":
        return True
    return (not d.kids and "default" not in d.attrs and "choices" in d.attrs
            and value_ok(d.value, d.attrs["choices"], ()) is False)


def complete(d, u):
    """add to user node u (for description node d) whatever is REQUIRED below it, recursively"""
    if "list" in d.attrs:
        for e in u.kids:
            t = d.last(e.name)
            if t is not None:
                complete(t, e)
        return
    for dk in d.kids:
        uk = u.last(dk.name)
        if uk is None and needs_input(dk):
            uk = N(dk.name, "" if dk.kids else second_legal(dk))
            u.kids.append(uk)
        if uk is not None and dk.kids:
            complete(dk, uk)


def pybsx_next(idx, radix):
    """odometer; False when wrapped around to all zeros"""
    for i in range(len(idx)):
        idx[i] += 1
        if idx[i] < radix:
            return True
        idx[i] = 0
    return False


class Ctx:
    """a user tree under construction together with the description"""

    def __init__(self, desc):
        self.desc = desc            # <options> description node
        self.user = N("", "", None, [N("options", "", None, [N(desc.kids[0].name)])])

    def ensure(self, dpath, idx=None):
        """user node for the description path dpath (list of description nodes below <options>);
        idx: {id(list element template): element number}"""
        u = self.user.kids[0]
        for d in dpath:
            want = (idx or {}).get(id(d), 0)
            have = u.all(d.name)
            while len(have) <= want:
                k = N(d.name)
                u.kids.append(k)
                have.append(k)
            u = have[want]
        return u

    def completed(self):
        c = Ctx.__new__(Ctx)
        c.desc = self.desc
        c.user = self.user.clone()
        complete(N("", "", None, [self.desc]), c.user)
        return c


def walk(d, path, out, in_list=False):
    """all description nodes below <options> with their path"""
    for k in d.kids:
        p = path + [k]
        out.append(p)
        walk(k, p, out)
    return out


def reverse_siblings(u):
    r = N(u.name, u.value, u.attrs, [reverse_siblings(k) for k in reversed(u.kids)])
    return r


def gen_cases(dirid, calc, tier):
    """yields (family, extra, user tree)"""
    desc = load_desc(dirid, calc)
    paths = walk(desc, [], [])
    leaves = [p for p in paths if not p[-1].kids]
    inner = [p for p in paths if p[-1].kids]
    thorough = tier == "thorough"

    def both(ctx, fam):
        yield fam + "/raw", (), ctx.user
        cc = ctx.completed()
        if to_xml(cc.user) != to_xml(ctx.user):
            yield fam + "/completed", (), cc.user

    # A: nothing supplied; not even the calculator section
    yield "A-empty/noroot", (), N("", "", None, [N("options")])
    c = Ctx(desc)
    yield from both(c, "A-empty")

    # B: every single declared leaf x every value class
    for p in leaves:
        for v in leaf_values(p[-1]):
            c = Ctx(desc)
            c.ensure(p).value = v
            yield from both(c, "B-leaf")

    # C: every inner node supplied empty; every list with multiplicities 0..2 per template
    for p in inner:
        d = p[-1]
        c = Ctx(desc)
        c.ensure(p)
        yield from both(c, "C-section")
        if "list" in d.attrs:
            tags = list(d.kids)
            idx = [0] * len(tags)
            while pybsx_next(idx, 3):
                base = []
                for t, m in zip(tags, idx):
                    base += [t] * m
                orders = [base]
                inter = base[::2] + base[1::2]
                if [t.name for t in inter] != [t.name for t in base]:
                    orders.append(inter)
                for order in orders:
                    c = Ctx(desc)
                    lu = c.ensure(p)
                    seen = {}
                    for t in order:
                        e = N(t.name)
                        lu.kids.append(e)
                        n = seen.get(t.name, 0)
                        seen[t.name] = n + 1
                        # distinguishable content: the element itself (leaf template) or its first
                        # free-text leaf gets a per-element value
                        if not t.kids:
                            e.value = "elem%d" % n if "choices" not in t.attrs else second_legal(t)
                        else:
                            for tk in t.kids:
                                if not tk.kids and "choices" not in tk.attrs:
                                    e.kids.append(N(tk.name, "elem%d" % n))
                                    break
                    yield from both(c, "C-list")

    # D: an undeclared name below every description node (and beside the calculator section)
    yield "D-undeclared/beside-calc", (), N("", "", None, [N("options", "", None, [N(desc.kids[0].name), N("zz_undeclared", "1")])])
    for p in paths:
        d = p[-1]
        variants = [[N("zz_undeclared", "1")]]
        if "unchecked" in d.attrs:
            variants += [[N("zz_a", "1"), N("zz_b", "x < y & z"), N("zz_a", "2")],
                         [N("zz_sec", "", None, [N("zz_in", "7"), N("zz_sec", "", None, [N("zz_deep", "d")])])]]
        for vi, kids in enumerate(variants):
            for uattr in ({}, {"unchecked": ""}):
                c = Ctx(desc).completed()
                u = c.ensure(p)
                complete(N("", "", None, [desc]), c.user)
                if not d.kids and "choices" in d.attrs and u.value == "":
                    u.value = second_legal(d)      # so that the undeclared child is the only fault
                u.kids += [k.clone() for k in kids]
                u.attrs.update(uattr)
                yield "D-undeclared" + ("/user-marked" if uattr else ""), (), c.user

    # E: every REQUIRED node removed from an otherwise completed context that activates it
    for p in paths:
        if p[-1].attrs.get("default") == "REQUIRED":
            c = Ctx(desc)
            c.ensure(p[:-1])
            c = c.completed()
            par = c.ensure(p[:-1])
            par.kids = [k for k in par.kids if k.name != p[-1].name]
            yield "E-required-removed", (), c.user

    # H: all subsets of the (first K) direct leaf children of every section / list element
    K = 8 if thorough else 5
    for p in [[]] + inner:
        d = p[-1] if p else None
        if d is None or "list" in d.attrs:
            continue
        lk = [k for k in d.kids if not k.kids][:K]
        for mask in range(1, 1 << len(lk)):
            c = Ctx(desc)
            u = c.ensure(p)
            for b, k in enumerate(lk):
                if mask >> b & 1:
                    u.kids.append(N(k.name, second_legal(k)))
            yield from both(c, "H-subset")

    # I: heterogeneous repetitions of a list element: element A supplies item L (a leaf with a legal non-default
    #    value, or an OPTIONAL subtree), element B omits it; every arrangement of A and B over 2 (thorough: also 3)
    #    repetitions that contains both; every leaf / OPTIONAL subtree below every template of every list section
    for p in inner:
        if "list" not in p[-1].attrs:
            continue
        for t in p[-1].kids:
            base = p + [t]
            items = [q for q in paths if len(q) >= len(base) and all(x is y for x, y in zip(q, base))
                     and (not q[-1].kids or q[-1].attrs.get("default") == "OPTIONAL")]
            for q in items:
                L = q[-1]
                for n in ((2, 3) if thorough else (2,)):
                    for mask in range(1, (1 << n) - 1):      # bit k set: repetition k is an A
                        c = Ctx(desc)
                        for k in range(n):
                            if mask >> k & 1:
                                u = c.ensure(q, {id(t): k})
                                if not L.kids:
                                    u.value = second_legal(L) if (L is not t or "choices" in L.attrs) else "elemA"
                            else:
                                c.ensure(base, {id(t): k})
                        c = c.completed()
                        if needs_input(L):                     # completion filled L in the B elements: take it out again
                            for k in range(n):
                                if not mask >> k & 1:
                                    u = c.ensure(base, {id(t): k})
                                    for d in q[len(base):-1]:
                                        u = u.last(d.name) if u is not None else None
                                    if u is not None and L is not t:
                                        u.kids = [x for x in u.kids if x.name != L.name]
                        yield "I-hetero-list/%d" % n, (), c.user

    # J: an unchecked section U with free content, plus ONE undeclared name at every other position of the tree
    #    (below every description node that is not U or inside U, incl. U's parent and all ancestors), with U's branch
    #    first / last in document order; and the dual: declared siblings of U supplied before / after U
    for pU in paths:
        if "unchecked" not in pU[-1].attrs:
            continue
        free = [N("zz_free", "1"), N("zz_sec", "", None, [N("zz_in", "x < y")])]
        for q in [[]] + paths:
            if len(q) >= len(pU) and all(x is y for x, y in zip(q, pU)):
                continue                                   # U itself / inside U: exempt from the name check
            above = all(x is y for x, y in zip(q, pU))     # q is an ancestor of U
            for ufirst in (True, False):
                c = Ctx(desc)
                if ufirst:
                    c.ensure(pU)
                    c.ensure(q)
                else:
                    c.ensure(q)
                    c.ensure(pU)
                c = c.completed()
                c.ensure(pU).kids = [k.clone() for k in free]
                u = c.ensure(q)
                if q and not q[-1].kids and "choices" in q[-1].attrs and u.value == "":
                    u.value = second_legal(q[-1])
                z = N("zz_undeclared", "1")
                if above and not ufirst:
                    u.kids.insert(0, z)                    # before the branch that leads to U
                else:
                    u.kids.append(z)
                yield "J-unchecked-and-undeclared/" + ("after" if ufirst else "before"), (), c.user
        sibs = [k for k in pU[-2].kids if k is not pU[-1]] if len(pU) > 1 else []
        for group in [[k] for k in sibs] + [sibs]:
            for ufirst in (True, False):
                c = Ctx(desc)
                if ufirst:
                    c.ensure(pU)
                for k in group:
                    u = c.ensure(pU[:-1] + [k])
                    if not k.kids:
                        u.value = second_legal(k)
                c.ensure(pU)
                c = c.completed()
                c.ensure(pU).kids = [k.clone() for k in free]
                yield "J-unchecked-declared-siblings/" + ("after" if ufirst else "before"), (), c.user

    # L: magnitude boundaries of the numeric choice types (type-based oracle: int, int+ = 64-bit Index; float, float+ = double)
    #    quick: per calculator and type the first directly declared leaf and the first leaf reached through a link;
    #    thorough: every leaf of a numeric type
    picked = {}
    for p in leaves:
        d = p[-1]
        if "choices" not in d.attrs:
            continue
        multi, ws = choice_words(d.attrs["choices"])
        if not ws or ws[0] not in MAGNITUDE:
            continue
        slot = (ws[0], id(d) in LINKED)
        if not thorough and slot in picked:
            continue
        picked[slot] = True
        for v in MAGNITUDE[ws[0]]:
            c = Ctx(desc)
            c.ensure(p).value = v
            yield "L-magnitude/" + ws[0], (), c.completed().user

    # F: pairs of leaves, both set to a legal non-default value (+ siblings reversed; + second one illegal)
    span = 10 ** 9 if thorough else 6
    for i in range(len(leaves)):
        for j in range(i + 1, min(len(leaves), i + 1 + span)):
            c = Ctx(desc)
            c.ensure(leaves[i]).value = second_legal(leaves[i][-1])
            c.ensure(leaves[j]).value = second_legal(leaves[j][-1])
            c = c.completed()
            yield "F-pair", (), c.user
            yield "F-pair/reversed", (), reverse_siblings(c.user)
            if thorough or j == i + 1:
                c2 = Ctx(desc)
                c2.ensure(leaves[i]).value = second_legal(leaves[i][-1])
                c2.ensure(leaves[j]).value = BAD + " 1"
                yield "F-pair/second-illegal", (), c2.completed().user

    # G: additional choices (the "jobfile" bypass XtpApplication installs for qmmm)
    for p in leaves:
        if "choices" in p[-1].attrs:
            for v in ("jobfile", BAD):
                c = Ctx(desc)
                c.ensure(p).value = v
                yield "G-additional-choice", ("jobfile",), c.completed().user


def calculators():
    out = []
    for dirid in ("xtp", "tt"):
        for f in sorted(os.listdir(DIRS[dirid])):
            if f.endswith(".xml") and (dirid, f[:-4]) not in SKIP:
                out.append((dirid, f[:-4]))
    return out


# ----------------------------------------------------------------------------- running the real code
PER_CASE = [False]   # set after a batch timed out: one driver process per case from then on
BATCH_TIMEOUT = 90   # s; a 300-case batch normally takes ~1 s


def run_real(batch, raw=False, one_process=False):
    """batch: [(dirid, calc, extra, xml)] -> [(status, payload)]; a crash is attributed to its case.
    raw: payload stays the output line (string); one_process: never split the batch (reuse histories)"""
    results = []
    start = 0
    while start < len(batch):
        todo = batch[start:start + 1] if (PER_CASE[0] and not one_process) else batch[start:]
        data = b""
        for dirid, calc, extra, xml in todo:
            x = xml.encode()
            data += ("CASE %s %s %s %d\n" % (DIRS[dirid], calc, ",".join(extra) or "-", len(x))).encode() + x
        try:
            p = subprocess.run([DRV], input=data, stdout=subprocess.PIPE, stderr=subprocess.PIPE, timeout=BATCH_TIMEOUT)
        except subprocess.TimeoutExpired:
            if one_process or len(todo) == 1:
                results.append(("CRASH", "driver did not finish within %d s" % BATCH_TIMEOUT))
                start += 1
                if one_process:
                    return results + [("CRASH", "not run")] * (len(batch) - len(results))
                continue
            PER_CASE[0] = True      # process-wide state seems to pile up: isolate every case
            continue
        lines = p.stdout.decode(errors="replace").split("\n")
        n = 0
        for ln in lines:
            if ln.startswith("OK "):
                results.append(("OK", ln if raw else json.loads(ln[3:])))
            elif ln.startswith("ERR "):
                results.append(("ERR", ln if raw else json.loads(ln[4:])))
            else:
                continue
            n += 1
        start += n
        if n < len(todo):  # driver died on case `start`
            results.append(("CRASH", "driver exited with %s: %s" % (p.returncode, p.stderr.decode(errors="replace")[-300:])))
            start += 1
    return results


def repeat_history(dirid, calc, extra, xml, other):
    """K: the same call three times in ONE driver process (fresh OptionsHandler objects, same process), with a call for
    another calculator in between: every answer must be byte-identical to the first (no state outside the objects)."""
    o = other
    hist = [(dirid, calc, extra, xml), (dirid, calc, extra, xml), o, (dirid, calc, extra, xml)]
    res = run_real(hist, raw=True, one_process=True)
    first = res[0]
    for k in (1, 3):
        if res[k] != first:
            r, f = str(res[k][1]), str(first[1])
            d = 0
            while d < len(r) and d < len(f) and r[d] == f[d]:
                d += 1
            return False, "same-process-repeat-differs", ("call %d of the same ProcessUserInput in one process answers differently "
                                                          "from call 1 (first difference at byte %d: %r vs %r)" % (k + 1, d, r[max(0, d - 40):d + 60], f[max(0, d - 40):d + 60]))
    return True, "", ""


def case_string(dirid, calc, extra, xml):
    return "%s|%s|%s|%s" % (dirid, calc, ",".join(extra), xml)


def evaluate(dirid, calc, extra, xml, real):
    user = N("", "", None, [from_et(ET.fromstring(xml))])
    if real[0] == "CRASH":
        return False, "fatal", real[1], "crash"
    return compare(dirid, calc, tuple(extra), user, real)


REP_OTHER = ("xtp", "neighborlist", (), "<options><neighborlist><constant>2</constant></neighborlist></options>")

RULE = ("alphabet: every calculator description in xtp/share/xtp/xml (28 files, linked sub-packages spliced in) plus the 5 "
        "well-formed descriptions of tools' own test data; user trees: A nothing supplied; B every single declared leaf x "
        "{its default, every legal choice word / 3-4 legal literals of its type, illegal literals of its type, free text with "
        "XML metacharacters}; C every section supplied empty and every list with multiplicities {0,1,2}^templates in two element "
        "orders; D an undeclared name below every node (inside unchecked sections: three shapes, with and without a user-side "
        "unchecked attribute); E every REQUIRED node removed from a context that activates it; F pairs of leaves i<j "
        "(quick: j-i<=6; thorough: all pairs) + sibling order reversed + second value illegal; G additional choice 'jobfile'; "
        "H all subsets of the first K (quick 5, thorough 8) leaf children of every section / list element; I every list section x "
        "every template x every leaf or OPTIONAL subtree L below it: 2 (thorough also 3) repetitions where some supply L and the "
        "others omit it, all arrangements (each repetition must resolve against the pristine template); J every unchecked section U "
        "filled with free content x one undeclared name below every other node of the description (ancestors of U included) x "
        "U's branch first/last in document order, and declared siblings of U (each, and all) supplied before/after U; L magnitude boundaries for "
        "every numeric choice type (int/int+: 0,-0,+-1,2^31-1,2^31,-2^31-1,2^32,2^53,2^63-1,-2^63 valid, 2^63,-2^63-1,2^64,1e30,1.0,inf,nan,"
        "hex invalid, leading +/zeros, surrounding blanks; float/float+: signed zeros, 2^53+1, 2^63, +-1e30, +-1e308, +-DBL_MAX, "
        "denormals valid; 1e309, just above DBL_MAX invalid; nan/inf spellings and underflow-to-zero unspecified = either outcome; "
        "negative => invalid for the + types) on the first directly declared and the first linked leaf of each type per calculator "
        "(thorough: every numeric leaf); validity decided from the literal against the TYPE (64-bit Index / IEEE double); K per "
        "calculator the empty and the completed input (thorough: + one input per description node, first 40) called 3x in ONE driver "
        "process with a neighborlist call in between: answers byte-identical (differential, no process-wide state). B,C,H both as is and "
        "with all REQUIRED nodes of the touched sections filled in; D also with a user-side unchecked= attribute (two readings allowed). "
        "oracle: independent interpreter of the description format predicting the full resolved tree (path->trimmed value for "
        "declared leaves and unchecked copies, presence for sections) or 'rejected, message names one of X'. "
        "distinct = outcome class (ok:#nodes / reject:kinds) per calculator.")


def main():
    a = pybsx.parse()
    if a.case is not None and a.case.startswith("rep|"):
        _, dirid, calc, extra, xml = a.case.split("|", 4)
        ok, key, what = repeat_history(dirid, calc, tuple(e for e in extra.split(",") if e), xml, REP_OTHER)
        print("case:", a.case)
        print("verdict:", "holds" if ok else "FAILS key=%s: %s" % (key, what))
        sys.exit(0 if ok else 3)
    if a.case is not None:
        dirid, calc, extra, xml = a.case.split("|", 3)
        extra = [e for e in extra.split(",") if e]
        real = run_real([(dirid, calc, extra, xml)])[0]
        ok, key, what, cls = evaluate(dirid, calc, extra, xml, real)
        print("case:", a.case)
        print("real:", real[0], (json.dumps(real[1])[:1500]))
        print("verdict:", "holds" if ok else "FAILS key=%s: %s" % (key, what))
        sys.exit(0 if ok else 3)

    rep = pybsx.Report("C11", "opts", a.tier)
    rep.rule = RULE
    rep.max_samples = 10
    i = 0
    batch, meta = [], []
    sampled = set()

    def flush():
        if not batch:
            return
        for (dirid, calc, extra, xml), fam, real in zip(batch, meta, run_real(batch)):
            ok, key, what, cls = evaluate(dirid, calc, extra, xml, real)
            rep.eval()
            rep.count("family." + fam.split("/")[0])
            rep.count("outcome." + cls.split(":")[0] + ("" if cls.startswith("ok") else ":" + cls.split(":")[1]))
            rep.cls((calc, cls))
            if not ok:
                rep.fail(key, "[%s %s] %s" % (calc, fam, what), case_string(dirid, calc, extra, xml))
            elif len(xml) < 260 and not cls.startswith("unspec"):
                kind = cls if cls.startswith("reject") else "ok/" + fam.split("/")[0]
                if kind not in sampled and fam[0] in "BCEHIJL":   # one written-out case per outcome kind
                    sampled.add(kind)
                    rep.samples.insert(0 if kind.startswith("ok") and len(sampled) % 2 else len(rep.samples),
                                       "%s %s: %s -> %s" % (calc, fam, xml, cls if cls.startswith("reject") else
                                                             "accepted, all %s resolved nodes as predicted" % cls[3:]))
        batch.clear()
        meta.clear()

    # K: process-level reuse histories (run first: they also tell whether batching the driver is sound)
    for dirid, calc in calculators():
        desc = load_desc(dirid, calc)
        c0 = Ctx(desc)
        users = [c0.user, c0.completed().user]
        if a.tier == "thorough":
            for p in walk(desc, [], [])[:40]:
                c = Ctx(desc)
                u = c.ensure(p)
                if not p[-1].kids:
                    u.value = second_legal(p[-1])
                users.append(c.completed().user)
        seenk = set()
        for user in users:
            xml = to_xml(user.kids[0])
            if xml in seenk:
                continue
            seenk.add(xml)
            if a.mine(i):
                ok, key, what = repeat_history(dirid, calc, (), xml, REP_OTHER)
                rep.eval()
                rep.count("family.K-same-process-repeat")
                rep.cls(("K", ok))
                if not ok:
                    rep.fail(key, "[%s K-repeat] %s" % (calc, what), "rep|" + case_string(dirid, calc, (), xml))
            i += 1

    for dirid, calc in calculators():
        seen = set()
        for fam, extra, user in gen_cases(dirid, calc, a.tier):
            xml = to_xml(user.kids[0])
            k = (extra, xml)
            if k in seen:          # the same user tree reached through two families counts once
                continue
            seen.add(k)
            if a.mine(i):
                batch.append((dirid, calc, extra, xml))
                meta.append(fam)
                if len(batch) >= 300:
                    flush()
            i += 1
    flush()
    if PER_CASE[0]:
        rep.cap("a driver batch did not finish within %d s; the remaining cases were run one per process" % BATCH_TIMEOUT)
    if a.shard == 0:
        rep.count("cases_in_space", i)
    rep.write(a.out)


if __name__ == "__main__":
    main()
