#!/usr/bin/env python3
"""C04  csg_stat distributions = independent recomputation (E3 op-history search, model_checking)

The REAL built csg_stat executable is driven over every frame-sequence history of length
1..3 over a 3-frame alphabet {A,B,C} (different box volumes, pairs exactly on a bin centre
and exactly on a bin edge, pairs across the periodic boundary) x block lengths x
--first-frame/--nframes selections x interaction sets x --include-intra x --do-imc x --nt 1/2
on small generated systems (8-9 CG beads, two bead types, a 4-bead chain molecule with
bonds, angles, optionally a dihedral; one system goes through a --cg mapping file).

Plus three families (see notes/C04.md): T4 large boxes with 4-7 search cells and unwrapped coordinates, T5 empty per-frame
histograms in IMC groups, G/H all 64 shapes {1,2,3,>=4}^3 of the neighbour-search grid in orthorhombic and triclinic boxes.

Oracles
 1. reference model: a boring Python recomputation of the documented formulas from the same
    input files (the .gro trajectory text is re-parsed): nearest-bin-centre counting over an
    O(N^2) minimum-image pair loop, exact shell volume, <V>, 2/N^2 resp. 1/(N1 N2) pair
    normalisation, unit-integral bonded / angular histograms, gmc = -(<SiSj>-<Si><Sj>),
    dS = <S> - de-normalised target, idx ranges, block k = average over block k's frames only
    (including <V>).
 2. differential block oracle: block k's files == the files of a fresh run (no blocks) on
    exactly block k's frames.
 3. --nt 2 output must be byte-identical to --nt 1 output.

Ties (a value within 1e-9 bins of a bin edge) are allowed to fall on either side; the choice
must be consistent for a frame letter within one run.
"""
import sys, os, math, itertools, subprocess, shutil, json, time

sys.path.insert(0, os.path.join(os.environ.get("VERIF_ROOT", os.path.join(os.path.dirname(os.path.abspath(__file__)), "..")), "lib"))
import pybsx

TIE = 1e-9          # |frac-0.5| below this (in bins) = tie, either bin allowed
# tolerances derived from the print precision of the files (Table: 10 significant digits,
# imcio: 8 significant digits): half a unit in the last digit, x4 margin; the absolute part
# covers values that are mathematically 0 but carry n*ulp noise of O(1) operands.
TOL_DIST = (2e-9, 1e-11)
TOL_IMC = (2e-7, 1e-11)

# ----------------------------------------------------------------------------- systems

CH_TYPES = ["A", "B", "A", "B"]


class System:
    """CG description: beads (molecule id, name, type), bonded groups, xml texts."""

    def __init__(self, name, nchains, nfa, nfb, dihedral, mapped=False):
        self.name, self.mapped, self.dihedral = name, mapped, dihedral
        self.beads = []      # (molid, molname, beadname, type)
        self.bonded = {}     # group -> (kind, [tuples of bead indices])
        mol = 0
        bonds, angles, dihs = [], [], []
        for c in range(nchains):
            o = len(self.beads)
            for k in range(4):
                self.beads.append((mol, "CH", "C%d" % (k + 1), CH_TYPES[k]))
            bonds += [(o, o + 1), (o + 1, o + 2), (o + 2, o + 3)]
            angles += [(o, o + 1, o + 2), (o + 1, o + 2, o + 3)]
            dihs += [(o, o + 1, o + 2, o + 3)]
            mol += 1
        for c in range(nfa):
            self.beads.append((mol, "FA", "S", "A")); mol += 1
        for c in range(nfb):
            self.beads.append((mol, "FB", "S", "B")); mol += 1
        self.nchains, self.nfa, self.nfb = nchains, nfa, nfb
        # the xml reader creates the interactions bond-definition by bond-definition over all
        # molecules; order is irrelevant for histograms
        self.bonded["bond"] = ("bond", bonds)
        self.bonded["angle"] = ("angle", angles)
        if dihedral:
            self.bonded["dih"] = ("dihedral", dihs)
        # exclusions: beads of the same molecule that share a bonded interaction
        self.excl = set()
        for kind, lst in self.bonded.values():
            for t in lst:
                for a in t:
                    for b in t:
                        if a != b:
                            self.excl.add((min(a, b), max(a, b)))

    def ntype(self, t):
        return [i for i, b in enumerate(self.beads) if b[3] == t]

    # --- files
    def bonded_xml(self, tag_open, tag_close, fmt):
        s = tag_open
        s += "<bond><name>bond</name><beads>%s %s  %s %s  %s %s</beads></bond>\n" % tuple(
            fmt(x) for x in ("C1", "C2", "C2", "C3", "C3", "C4"))
        s += "<angle><name>angle</name><beads>%s %s %s  %s %s %s</beads></angle>\n" % tuple(
            fmt(x) for x in ("C1", "C2", "C3", "C2", "C3", "C4"))
        if self.dihedral:
            s += "<dihedral><name>dih</name><beads>%s %s %s %s</beads></dihedral>\n" % tuple(
                fmt(x) for x in ("C1", "C2", "C3", "C4"))
        return s + tag_close

    def topology_xml(self):
        if not self.mapped:
            s = "<topology>\n <molecules>\n"
            if self.nchains:
                s += '  <molecule name="CH" nmols="%d" nbeads="4">\n' % self.nchains
                for k in range(4):
                    s += '   <bead name="C%d" type="%s" mass="%g" q="0"/>\n' % (k + 1, CH_TYPES[k], 12.0 + k)
                s += "  </molecule>\n"
            if self.nfa:
                s += '  <molecule name="FA" nmols="%d" nbeads="1"><bead name="S" type="A" mass="7" q="0"/></molecule>\n' % self.nfa
            if self.nfb:
                s += '  <molecule name="FB" nmols="%d" nbeads="1"><bead name="S" type="B" mass="9" q="0"/></molecule>\n' % self.nfb
            s += " </molecules>\n"
            s += self.bonded_xml(" <bonded>\n", " </bonded>\n", lambda b: "CH:" + b)
            return s + "</topology>\n"
        # atomistic topology: every CG bead is made of two atoms (masses irrelevant: the
        # mapping weights are given explicitly)
        s = "<topology>\n <molecules>\n"
        if self.nchains:
            s += '  <molecule name="CH" nmols="%d" nbeads="8">\n' % self.nchains
            for k in range(4):
                s += '   <bead name="a%d" type="X" mass="3" q="0"/>\n   <bead name="b%d" type="Y" mass="1" q="0"/>\n' % (k + 1, k + 1)
            s += "  </molecule>\n"
        if self.nfa:
            s += '  <molecule name="FA" nmols="%d" nbeads="2"><bead name="a1" type="X" mass="3" q="0"/><bead name="b1" type="Y" mass="1" q="0"/></molecule>\n' % self.nfa
        if self.nfb:
            s += '  <molecule name="FB" nmols="%d" nbeads="2"><bead name="a1" type="X" mass="3" q="0"/><bead name="b1" type="Y" mass="1" q="0"/></molecule>\n' % self.nfb
        return s + " </molecules>\n</topology>\n"

    def mapping_xmls(self):
        """one mapping file per molecule type; weights 3:1"""
        out = {}
        def cgmol(name, beads, bonded):
            s = "<cg_molecule>\n <name>%s</name>\n <ident>%s</ident>\n <topology>\n  <cg_beads>\n" % (name, name)
            for bn, bt, k in beads:
                s += ("   <cg_bead><name>%s</name><type>%s</type><mapping>M</mapping>"
                      "<beads>1:%s:a%d 1:%s:b%d</beads></cg_bead>\n" % (bn, bt, name, k, name, k))
            s += "  </cg_beads>\n" + bonded + " </topology>\n"
            s += " <maps><map><name>M</name><weights>3 1</weights></map></maps>\n</cg_molecule>\n"
            return s
        if self.nchains:
            out["map_CH.xml"] = cgmol("CH", [("C%d" % (k + 1), CH_TYPES[k], k + 1) for k in range(4)],
                                      self.bonded_xml("  <cg_bonded>\n", "  </cg_bonded>\n", lambda b: b))
        if self.nfa:
            out["map_FA.xml"] = cgmol("FA", [("S", "A", 1)], "")
        if self.nfb:
            out["map_FB.xml"] = cgmol("FB", [("S", "B", 1)], "")
        return out


SYSTEMS = {
    "T1": System("T1", nchains=1, nfa=2, nfb=2, dihedral=False),             # 8 beads; 1-4 pair NOT excluded
    "T2": System("T2", nchains=2, nfa=1, nfb=0, dihedral=True),              # 9 beads; whole chain excluded
    "T3": System("T3", nchains=1, nfa=2, nfb=2, dihedral=False, mapped=True),  # T1 through a mapping file
    # grid-search family: 12 beads in a large non-cubic box (4,5,6 neighbour-search cells per axis for the rdf
    # cutoffs), coordinates NOT wrapped into [0,L): negative (just below 0, below -cell, several boxes away), beyond L
    "T4": System("T4", nchains=1, nfa=5, nfb=3, dihedral=False),
}
GRID_FAMILY = ("T4",)
# empty-histogram family (--do-imc only): frames P,Q,R,Z in which chosen members of an IMC group have a COMPLETELY
# EMPTY per-frame histogram (P: none empty, Q: first member empty, R: second member empty, Z: both empty)
SYSTEMS["T5"] = System("T5", nchains=1, nfa=2, nfb=2, dihedral=False)
EMPTY_FAMILY = ("T5",)
LETTERS5 = "PQRZ"

# CG coordinates of frame A (nm, 3 decimals), displacement tables for B and C
BASE = {
    "T1": [(0.100, 0.100, 0.100), (0.400, 0.100, 0.100), (0.400, 0.375, 0.100), (0.650, 0.375, 0.300),
           (1.900, 0.100, 0.100), (0.100, 0.100, 0.350), (0.700, 0.800, 0.500), (1.950, 1.900, 0.200)],
    "T2": [(0.100, 0.100, 0.100), (0.400, 0.100, 0.100), (0.400, 0.375, 0.100), (0.650, 0.375, 0.300),
           (0.550, 0.600, 0.500), (0.850, 0.650, 0.450), (0.900, 0.900, 0.600), (1.150, 0.850, 0.850),
           (0.300, 0.700, 0.200)],
}
BASE["T3"] = BASE["T1"]
DB = [(0.025, -0.050, 0.075), (-0.050, 0.025, 0.000), (0.075, 0.050, -0.025), (0.000, -0.075, 0.050),
      (0.100, 0.000, -0.050), (-0.025, 0.075, 0.025), (-0.100, -0.050, 0.100), (0.050, 0.050, 0.050),
      (0.075, -0.025, -0.075)]
DC = [(-0.050, 0.075, 0.025), (0.050, -0.025, 0.100), (-0.075, 0.000, 0.050), (0.100, 0.100, -0.100),
      (0.150, 0.250, 0.050), (0.200, -0.050, -0.150), (-0.200, -0.300, -0.100), (0.250, 0.300, 0.150),
      (-0.100, 0.050, 0.250)]
SHIFT_C = (1.700, 1.900, 0.000)          # frame C straddles two box faces
# frame B of T1/T3: the free B bead sits 0.0866 nm from C4, i.e. inside the first BB bin [0, 0.1)
OVERRIDE = {("T1", "B", 6): (0.700, 0.350, 0.400), ("T3", "B", 6): (0.700, 0.350, 0.400)}
BOX = {"A": (2.000, 2.000, 2.000), "B": (2.000, 2.200, 2.500), "C": (2.400, 2.100, 2.000)}
# --- T4: frame A is designed on the axes (x,y,z) of box (3.7,4.6,5.5): 4/5/6 cells for the cutoffs 0.85..0.9;
# frame B = the same design on cyclically permuted axes (z,x,y) + small displacements, frame C = (y,z,x) with a
# slightly longer last edge, whole-box shifts (unwrapped trajectory) and other displacements.
BOX4 = {"A": (3.700, 4.600, 5.500), "B": (5.500, 3.700, 4.600), "C": (4.600, 5.500, 3.800)}
BASE4 = [(1.000, 3.300, 2.000), (1.300, 3.300, 2.000), (1.300, 3.550, 2.100), (1.550, 3.600, 2.300),   # chain A B A B
         (-0.450, 5.600, 1.000),    # A  x in (-cell,0) [cell N-1], y beyond L;   partner in cell N-2:
         (2.680, 1.000, 1.000),     # A
         (2.000, -1.400, 3.000),    # A  y below -cell [cell N-2];               partner in cell N-3:
         (2.000, 2.680, 3.000),     # A
         (2.950, 1.400, 1.000),     # A  centre of an A-A-A triple with the two beads above
         (3.000, 4.000, -11.450),   # B  z three boxes below [cell N-1];          partner in cell N-2:
         (3.000, 4.000, 4.500),     # B
         (1.000, -0.620, 2.000)]    # B  y in (-cell,0); A-B and B-B partners (chain) in cell N-2
D4B = [(0.010, -0.020, 0.000), (-0.010, 0.010, 0.020), (0.020, 0.000, -0.010), (0.000, 0.020, 0.010),
       (-0.020, 0.010, 0.010), (0.010, 0.020, -0.020), (0.000, -0.010, 0.020), (0.020, 0.010, 0.000),
       (-0.010, -0.020, 0.010), (0.010, 0.000, -0.010), (-0.020, 0.020, 0.000), (0.000, -0.010, -0.020)]
D4C = [(-0.020, 0.010, 0.020), (0.020, 0.020, -0.010), (0.000, -0.020, 0.010), (0.010, 0.000, 0.020),
       (0.020, -0.010, -0.020), (-0.010, 0.010, 0.000), (0.010, 0.020, 0.010), (-0.020, 0.000, -0.010),
       (0.000, 0.010, 0.020), (-0.010, -0.020, 0.000), (0.020, 0.010, 0.010), (0.010, -0.010, 0.000)]
K4C = [(0, 0, 0), (0, 0, 0), (0, 0, 0), (0, 0, 0), (1, 0, 0), (0, -2, 0), (0, 0, 1), (0, 0, 0),
       (0, 1, 0), (0, 0, 0), (2, 0, -1), (0, 0, 0)]        # whole-box shifts of single (free) beads in frame C


# --- T5 (8 beads: chain C1(A) C2(B) C3(A) C4(B), free A 4,5, free B 6,7).  Members: first = BB / AB, second = bond / AAA.
#   P: compact chain (bonds in range), A cluster (A-A-A triples), B-B and A-B pairs in range
#   Q: stretched straight chain (bonds 0.45 in range, 1-4 pair 1.35), A cluster >= 0.9 from every B, B beads isolated
#   R: bonds 0.6 (outside [0.075,0.525)), A beads isolated from each other (no triple), B-B and A-B pairs in range
#   Z: bonds 0.6, everything isolated
BOX5 = {"P": (3.000, 3.200, 3.400), "Q": (3.100, 3.200, 3.400), "R": (3.000, 3.300, 3.400), "Z": (3.000, 3.200, 3.500)}
FRAMES5 = {
    "P": [(1.000, 1.000, 1.000), (1.300, 1.000, 1.000), (1.300, 1.280, 1.000), (1.550, 1.300, 1.200),
          (0.700, 1.000, 1.000), (0.750, 1.350, 1.000), (1.600, 1.000, 1.500), (1.900, 1.300, 1.500)],
    "Q": [(1.000, 1.000, 1.000), (1.450, 1.000, 1.000), (1.900, 1.000, 1.000), (2.350, 1.000, 1.000),
          (0.500, 1.000, 1.000), (0.600, 1.000, 1.400), (1.500, 2.600, 2.500), (2.600, 2.500, 0.200)],
    "R": [(1.000, 1.000, 1.000), (1.600, 1.000, 1.000), (1.600, 1.600, 1.000), (2.200, 1.600, 1.000),
          (2.200, 1.600, 1.400), (0.200, 0.300, 3.000), (1.600, 1.000, 1.520), (1.600, 0.620, 1.800)],
    "Z": [(1.000, 1.000, 1.000), (1.600, 1.000, 1.000), (1.600, 1.610, 1.000), (2.210, 1.610, 1.000),
          (0.200, 0.300, 3.000), (2.800, 3.000, 0.300), (1.500, 2.600, 2.500), (0.300, 2.000, 1.800)],
}
# designed emptiness of the per-frame histogram: letter -> interactions that must be EMPTY (all others of S7/S8 populated)
EMPTY5 = {"P": (), "Q": ("BB", "AB"), "R": ("bond", "AAA"), "Z": ("BB", "AB", "bond", "AAA")}


# --- grid-SHAPE family: systems G<nx><ny><nz> (orthorhombic) and H<nx><ny><nz> (triclinic), n in {1,2,3,4}: the
# neighbour-search grid of every rdf of set S9 (cut-offs max+step = 0.9 / 1.0 / 0.85, three-body cut 0.85) has exactly
# nx x ny x nz cells in frame A and cells of the same class {1,2,3,>=4} (4 -> 5) in frame B.  The box height along an axis
# is taken from LEN6[letter][n]: floor(h/cut) = n for all three cut-offs, and max <= h/2 (the rule csg_stat enforces) even
# for the single-cell length (2*max = 1.6 <= h < 2*(max+step) = 1.7).  16 beads (chain A-B-A-B + 6 free A + 6 free B) on one design that is
# placed relative to the box: a cluster straddling the three box faces through the origin (negative coordinates, whole-box
# shifts) + two A and two B around the point P = the cell-boundary planes nearest the box centre.
LEN6 = {"A": {1: 1.650, 2: 2.300, 3: 3.200, 4: 4.100}, "B": {1: 1.680, 2: 2.400, 3: 3.100, 4: 5.050}}
TILT6 = {"A": (0.300, -0.250, 0.350), "B": (-0.200, 0.300, 0.250)}     # (b_x, c_x, c_y) of the triclinic boxes
SHAPE_FAMILY = {}        # system name -> (kind 'G'|'H', (nx, ny, nz))
for _kind in "GH":
    for _s in itertools.product((1, 2, 3, 4), repeat=3):
        _n = "%s%d%d%d" % ((_kind,) + _s)
        SHAPE_FAMILY[_n] = (_kind, _s)
        SYSTEMS[_n] = System(_n, nchains=1, nfa=6, nfb=6, dihedral=False)
# offsets from the origin corner resp. (beads of CENTRED6) from the point P on the cell boundaries nearest the box centre
BASE6 = [(0.113, 0.157, 0.209), (0.413, 0.157, 0.209), (0.413, 0.427, 0.259), (0.663, 0.447, 0.459),   # chain A B A B
         (-0.247, 0.203, 0.121),    # 4  A  beyond the face x=0
         (0.171, -0.313, 0.247),    # 5  A  beyond the face y=0
         (0.223, 0.109, -0.351),    # 6  A  beyond the face z=0     (beads 0,4,5,6: A-A-A triples centred on bead 0)
         (-0.190, -0.170, -0.210),  # 7  A  P - ..   | pairs straddling an internal cell boundary on every axis with >= 2
         (0.160, 0.220, 0.180),     # 8  A  P + ..   | cells (the same cell on an axis with one cell)
         (0.557, 0.193, 0.613),     # 9  A  in the cell of the chain (same-cell A-A pairs with beads 0 and 2)
         (-0.183, -0.141, 0.317),   # 10 B  beyond x=0 and y=0 (edge neighbour)
         (0.307, 0.211, -0.293),    # 11 B  beyond z=0
         (-0.157, 0.493, 0.287),    # 12 B  beyond x=0
         (-0.080, -0.280, -0.120),  # 13 B  P - ..   | B-B (and, with beads 7/8, A-B) pairs straddling the internal
         (0.190, 0.130, 0.210),     # 14 B  P + ..   | cell boundaries
         (0.287, 0.531, 0.571)]     # 15 B  in the cell of the chain (same-cell B-B pairs with beads 1 and 3)
CENTRED6 = (7, 8, 13, 14)
NCELL6 = {"A": {1: 1, 2: 2, 3: 3, 4: 4}, "B": {1: 1, 2: 2, 3: 3, 4: 5}}     # cells of the rdf grids for LEN6
D6B = D4B[:9] + [(0.010, -0.010, 0.020)] + D4B[9:] + [(-0.020, 0.010, -0.010), (0.020, -0.020, 0.010), (0.010, 0.020, -0.020)]
# whole-box shifts (unwrapped trajectory): multiples of the box vectors a, b, c added to single beads
K6 = {"A": [(0, 0, 0)] * 4 + [(0, 0, 0), (0, 0, 0), (0, 0, 0), (0, 0, 0), (0, 0, 0), (0, 0, 0),
                              (0, 0, 0), (0, 0, 2), (-1, 0, 0), (0, 0, 0), (0, 0, 0), (0, 0, 0)],
      "B": [(0, 0, 0)] * 4 + [(1, 0, 0), (0, -2, 0), (0, 0, 0), (0, 0, 1), (0, 0, 0), (0, 0, 0),
                              (0, 1, 0), (0, 0, 0), (1, 0, -1), (0, 0, 0), (-1, 2, 0), (0, 0, 0)]}


def box6(sysname, letter):
    """box line of the .gro frame: 3 numbers (orthorhombic) or the 9 numbers v1x v2y v3z v1y v1z v2x v2z v3x v3y with
    v1y = v1z = v2z = 0; the triclinic box is built so that its three HEIGHTS (distances between opposite faces, what
    the search grid and csg_stat's half-box rule use) are the design lengths"""
    kind, shape = SHAPE_FAMILY[sysname]
    h = [LEN6[letter][n] for n in shape]
    if kind == "G":
        return tuple(h)
    bx, cx, cy = TILT6[letter]
    cz = h[2]
    by = round(h[1] * math.sqrt(1.0 + (cy / cz) ** 2), 5)
    bxc = cross((bx, by, 0.0), (cx, cy, cz))
    ax = round(h[0] * norm(bxc) / (by * cz), 5)
    return (ax, by, cz, 0.0, 0.0, bx, 0.0, cx, cy)


def cg_frame6(sysname, letter):
    cols = box_cols(box6(sysname, letter))
    frac = []
    for n in SHAPE_FAMILY[sysname][1]:
        N = NCELL6[letter][n]
        frac.append(float(N // 2) / N if N >= 2 else 0.5)
    centre = tuple(sum(frac[j] * cols[j][k] for j in range(3)) for k in range(3))
    out = []
    for i, p in enumerate(BASE6):
        o = centre if i in CENTRED6 else (0.0, 0.0, 0.0)
        d = D6B[i] if letter == "B" else (0.0, 0.0, 0.0)
        K = K6[letter][i]
        out.append(tuple(round(o[k] + p[k] + d[k] + sum(K[j] * cols[j][k] for j in range(3)), 3) for k in range(3)))
    return out


def box_of(sysname, letter):
    if sysname in SHAPE_FAMILY:
        return box6(sysname, letter)
    if sysname in EMPTY_FAMILY:
        return BOX5[letter]
    return BOX4[letter] if sysname in GRID_FAMILY else BOX[letter]


def cg_frame4(letter):
    out = []
    for i, p in enumerate(BASE4):
        if letter == "A":
            q = p
        elif letter == "B":
            q = tuple((p[2], p[0], p[1])[k] + D4B[i][k] for k in range(3))
        else:
            q = tuple((p[1], p[2], p[0])[k] + D4C[i][k] + K4C[i][k] * BOX4["C"][k] for k in range(3))
        out.append(tuple(round(x, 3) for x in q))
    return out
# two atoms per CG bead for the mapped system: a = p - d, b = p + 3d  (weights 3:1 -> COM = p)
DATOM = [(0.010, 0.020, -0.010), (-0.020, 0.010, 0.015), (0.015, -0.015, 0.020), (0.005, 0.025, 0.010),
         (-0.010, -0.020, 0.005), (0.020, 0.005, -0.020), (-0.015, 0.010, 0.010), (0.010, -0.010, -0.015)]


def cg_frame(sysname, letter):
    if sysname in SHAPE_FAMILY:
        return cg_frame6(sysname, letter)
    if sysname in GRID_FAMILY:
        return cg_frame4(letter)
    if sysname in EMPTY_FAMILY:
        return list(FRAMES5[letter])
    base = BASE[sysname]
    out = []
    for i, p in enumerate(base):
        if letter == "A":
            q = p
        elif letter == "B":
            q = tuple(p[k] + DB[i][k] for k in range(3))
        else:
            q = tuple(p[k] + DC[i][k] + SHIFT_C[k] for k in range(3))
        q = OVERRIDE.get((sysname, letter, i), q)
        out.append(tuple(round(x, 3) for x in q))
    return out


def gro_frame(sysname, letter):
    """text of one .gro frame"""
    sy = SYSTEMS[sysname]
    pos = cg_frame(sysname, letter)
    lines = []
    if not sy.mapped:
        for i, p in enumerate(pos):
            molid, molname, bn, bt = sy.beads[i]
            lines.append("%5d%-5s%5s%5d%8.3f%8.3f%8.3f" % (molid + 1, molname, bn, i + 1, p[0], p[1], p[2]))
    else:
        n = 0
        for i, p in enumerate(pos):
            molid, molname, bn, bt = sy.beads[i]
            d = DATOM[i]
            a = tuple(p[k] - d[k] for k in range(3))
            b = tuple(p[k] + 3 * d[k] for k in range(3))
            k = int(bn[1:]) if bn.startswith("C") else 1
            for nm, q in (("a%d" % k, a), ("b%d" % k, b)):
                n += 1
                lines.append("%5d%-5s%5s%5d%8.3f%8.3f%8.3f" % (molid + 1, molname, nm, n, q[0], q[1], q[2]))
    bx = box_of(sysname, letter)
    return "frame %s t= 0.0\n%5d\n%s\n%s\n" % (letter, len(lines), "\n".join(lines), "".join("%10.5f" % v for v in bx))


def parse_gro(text, sy):
    """re-read the trajectory file like a boring gro parser: list of (box, cg positions)"""
    ls = text.split("\n")
    frames, i = [], 0
    while i < len(ls) and ls[i].strip() != "":
        n = int(ls[i + 1])
        atoms = []
        for l in ls[i + 2:i + 2 + n]:
            atoms.append((float(l[20:28]), float(l[28:36]), float(l[36:44])))
        box = tuple(float(x) for x in ls[i + 2 + n].split())
        i += 3 + n
        if sy.mapped:   # centre of the two atoms, weights 3:1, second atom taken as nearest image of the first
            cg = []
            for k in range(0, n, 2):
                a, b = atoms[k], atoms[k + 1]
                bb = tuple(a[c] + minimg(b[c] - a[c], box[c]) for c in range(3))
                cg.append(tuple(0.75 * a[c] + 0.25 * bb[c] for c in range(3)))
            atoms = cg
        frames.append((box, atoms))
    return frames


# ----------------------------------------------------------------------------- interactions

# name -> definition.  rdf: (kind, t1, t2, min, max, step, max_intra); bonded: (kind, min, max, step);
# threebody: (kind, t1, t2, t3, min, max, step, cut)      numbers are kept as the TEXT written to the xml
INTER = {
    "AA": ("rdf", "A", "A", "0", "0.8", "0.1", "0.6"),       # same type, range starts at 0 (first bin is half a bin)
    "AB": ("rdf", "A", "B", "0.2", "0.8", "0.2", "0.6"),     # cross type, min > 0
    "BB": ("rdf", "B", "B", "0.05", "0.75", "0.1", "0.55"),  # lower edge of the first bin is exactly r = 0
    "bond": ("bonded", "0.1", "0.5", "0.05"),
    "angle": ("bonded", "0", "3.2", "0.2"),
    "dih": ("bonded", "-3.2", "3.2", "0.4"),
    "AAA": ("three", "A", "A", "A", "0", "3.2", "0.2", "0.6"),
    "ABB": ("three", "A", "B", "B", "0", "3.2", "0.4", "0.7"),
    "AAW": ("three", "A", "A", "A", "0", "3.2", "0.2", "0.85"),   # wide cut: its search grid has the shape of the rdf grids of the shape family
}
# interaction sets: list of (name, imc group)   ("none" = not part of any imc group)
SETS = {
    "S1": [("AA", "g")],
    "S2": [("AB", "g"), ("bond", "none")],
    "S3": [("AA", "g"), ("AB", "g"), ("bond", "g"), ("angle", "none")],
    "S4": [("BB", "h"), ("AB", "g"), ("AAA", "none"), ("angle", "h")],
    "S5": [("dih", "none"), ("AA", "g"), ("ABB", "none")],
    "S6": [("AA", "g"), ("AB", "g"), ("BB", "h"), ("AAA", "none"), ("bond", "h")],
    "S7": [("BB", "g"), ("bond", "g")],        # same-type rdf + bonded in one group
    "S8": [("AB", "g"), ("AAA", "g")],         # cross-type rdf + three-body in one group (dS of AAA not compared)
    "S9": [("AA", "g"), ("AB", "g"), ("BB", "h"), ("AAA", "none"), ("AAW", "none"), ("bond", "h")],   # grid-shape family
}
SETS_OF = {"T1": ["S1", "S2", "S3", "S4"], "T2": ["S1", "S3", "S5", "S4"], "T3": ["S3", "S2"], "T4": ["S6", "S1"], "T5": ["S7", "S8"]}


def is_bonded(n):
    return INTER[n][0] == "bonded"


def set_order(sname):
    """order in which csg_stat registers the interactions: non-bonded first, then bonded, xml order each"""
    names = [n for n, g in SETS[sname]]
    return [n for n in names if not is_bonded(n)] + [n for n in names if is_bonded(n)]


def settings_xml(sname, imc, nb=None):
    s = "<cg>\n"
    if nb:
        s += " <nbsearch>%s</nbsearch>\n" % nb
    for n, g in SETS[sname]:
        d = INTER[n]
        grp = ("<inverse><imc><group>%s</group></imc></inverse>" % g) if imc else ""
        if d[0] == "rdf":
            s += (" <non-bonded><name>%s</name><type1>%s</type1><type2>%s</type2><min>%s</min><max>%s</max>"
                  "<step>%s</step><max_intra>%s</max_intra>%s</non-bonded>\n" % (n, d[1], d[2], d[3], d[4], d[5], d[6], grp))
        elif d[0] == "three":
            s += (" <non-bonded><name>%s</name><type1>%s</type1><type2>%s</type2><type3>%s</type3><threebody>1</threebody>"
                  "<min>%s</min><max>%s</max><max_intra>%s</max_intra><step>%s</step><cut>%s</cut>%s</non-bonded>\n"
                  % (n, d[1], d[2], d[3], d[4], d[5], d[5], d[6], d[7], grp))   # the tool reads max_intra of EVERY non-bonded entry
        else:
            s += " <bonded><name>%s</name><min>%s</min><max>%s</max><step>%s</step>%s</bonded>\n" % (n, d[1], d[2], d[3], grp)
    return s + "</cg>\n"


def grid(name, intra):
    """(min, step, nbins) of the histogram of an interaction as the settings define it"""
    d = INTER[name]
    if d[0] == "rdf":
        mn, mx, st = float(d[3]), float(d[6] if intra else d[4]), float(d[5])
    elif d[0] == "three":
        mn, mx, st = float(d[4]), float(d[5]), float(d[6])
    else:
        mn, mx, st = float(d[1]), float(d[2]), float(d[3])
    n = int(round((mx - mn) / st)) + 1
    assert abs((mx - mn) / st - (n - 1)) < 1e-9, "range must be a multiple of the step (other ranges are undefined)"
    return mn, st, n


def target_values(name, n):
    """generated target distribution (name.dist.tgt), any positive numbers will do"""
    k = sum(ord(c) for c in name) % 7
    return [0.25 + 0.125 * ((3 * i + k) % 11) for i in range(n)]


# ----------------------------------------------------------------------------- reference model

def minimg(d, L):
    return d - L * round(d / L)


def box_cols(box):
    """box vectors a, b, c from the numbers of the .gro box line (3: orthorhombic, 9: v1x v2y v3z v1y v1z v2x v2z v3x v3y)"""
    if len(box) == 3:
        return ((box[0], 0.0, 0.0), (0.0, box[1], 0.0), (0.0, 0.0, box[2]))
    return ((box[0], box[3], box[4]), (box[5], box[1], box[6]), (box[7], box[8], box[2]))


def box_volume(box):
    a, b, c = box_cols(box)
    return abs(dot(a, cross(b, c)))


def box_heights(box):
    """distances between opposite faces"""
    a, b, c = box_cols(box)
    V = box_volume(box)
    return (V / norm(cross(b, c)), V / norm(cross(c, a)), V / norm(cross(a, b)))


def box_frac(r, box):
    """fractional coordinates of r along a, b, c"""
    a, b, c = box_cols(box)
    V = dot(a, cross(b, c))
    return (dot(r, cross(b, c)) / V, dot(r, cross(c, a)) / V, dot(r, cross(a, b)) / V)


_LATTICE, _CONN = {}, {}


def conn_general(a, b, box):
    """minimum image of b - a in a general (triclinic) box, brute force: the difference is reduced to fractional
    coordinates in [-0.5, 0.5] and ALL lattice vectors n_a a + n_b b + n_c c with |n| <= 2 are tried.
    returns (vector, image shift (n_a, n_b, n_c) relative to the unreduced difference, length gap to the second best)"""
    key = (a, b, box)
    if key not in _CONN:
        if box not in _LATTICE:
            cols = box_cols(box)
            _LATTICE[box] = [((i, j, k), tuple(i * cols[0][x] + j * cols[1][x] + k * cols[2][x] for x in range(3)))
                             for i in range(-2, 3) for j in range(-2, 3) for k in range(-2, 3)]
        cols = box_cols(box)
        d = tuple(b[k] - a[k] for k in range(3))
        s = box_frac(d, box)
        n0 = tuple(-int(round(x)) for x in s)
        d0 = tuple(d[x] + sum(n0[j] * cols[j][x] for j in range(3)) for x in range(3))
        best = second = None
        for n, T in _LATTICE[box]:
            v = (d0[0] + T[0], d0[1] + T[1], d0[2] + T[2])
            l2 = v[0] * v[0] + v[1] * v[1] + v[2] * v[2]
            if best is None or l2 < best[0]:
                best, second = (l2, v, n), best
            elif second is None or l2 < second[0]:
                second = (l2, v, n)
        _CONN[key] = (best[1], tuple(n0[k] + best[2][k] for k in range(3)), math.sqrt(second[0]) - math.sqrt(best[0]))
    return _CONN[key]


def cround(x):
    """C++ std::round: halves away from zero"""
    return math.floor(abs(x) + 0.5) * (1.0 if x >= 0 else -1.0)


def conn_sequential(a, b, box):
    """NOT the reference: the connection vector obtained by removing multiples of c, then b, then a by rounding the z, y, x
    component one after the other (what TriclinicBox::BCShortestConnection does).  It is the minimum image only while the
    true distance is below half the smallest of a_x, b_y, c_z; used solely to recognise the known finding
    'triclinic-connection-not-minimum-image' (output == model with THIS connection)."""
    cols = box_cols(box)
    r = [b[k] - a[k] for k in range(3)]
    for j in (2, 1, 0):
        n = cround(r[j] / cols[j][j])
        r = [r[k] - n * cols[j][k] for k in range(3)]
    return tuple(r)


SEQUENTIAL_IMAGE = [False]      # switched on only while the alternative model of the known finding is built


def conn(a, b, box):
    if len(box) == 3:
        return tuple(minimg(b[k] - a[k], box[k]) for k in range(3))
    if SEQUENTIAL_IMAGE[0]:
        return conn_sequential(a, b, box)
    return conn_general(a, b, box)[0]


def sequential_image_pairs(sy, frame, reach):
    """bead pairs of a triclinic frame whose sequentially reduced connection is longer than the minimum image although the
    minimum-image distance is below `reach`: [(a, b, true distance, sequential distance)]"""
    box, pos = frame
    out = []
    if len(box) == 9:
        for a in range(len(pos)):
            for b in range(a + 1, len(pos)):
                t, q = norm(conn_general(pos[a], pos[b], box)[0]), norm(conn_sequential(pos[a], pos[b], box))
                if q - t > 1e-9 and t < reach:
                    out.append((a, b, t, q))
    return out


def norm(v):
    return math.sqrt(v[0] * v[0] + v[1] * v[1] + v[2] * v[2])


def dot(a, b):
    return a[0] * b[0] + a[1] * b[1] + a[2] * b[2]


def cross(a, b):
    return (a[1] * b[2] - a[2] * b[1], a[2] * b[0] - a[0] * b[2], a[0] * b[1] - a[1] * b[0])


def angle_between(u, v):
    c = dot(u, v) / (norm(u) * norm(v))
    return math.acos(max(-1.0, min(1.0, c)))


class DesignError(Exception):
    pass


def values_of(sy, name, frame, intra):
    """all values that go into the histogram of interaction `name` for one frame"""
    box, pos = frame
    d = INTER[name]
    vals = []
    if d[0] == "rdf":
        l1, l2 = sy.ntype(d[1]), sy.ntype(d[2])
        pairs = [(a, b) for a in l1 for b in l1 if a < b] if d[1] == d[2] else [(a, b) for a in l1 for b in l2]
        for a, b in pairs:
            if not intra and (min(a, b), max(a, b)) in sy.excl:
                continue
            vals.append(norm(conn(pos[a], pos[b], box)))
    elif d[0] == "three":
        cut = float(d[7])
        l1, l2, l3 = sy.ntype(d[1]), sy.ntype(d[2]), sy.ntype(d[3])
        assert d[2] == d[3]
        for i in l1:
            for j in l2:
                for k in l3:
                    if not (j < k) or i == j or i == k:
                        continue
                    if any((min(x, y), max(x, y)) in sy.excl for x, y in ((i, j), (i, k), (j, k))):
                        continue
                    r12, r13 = conn(pos[i], pos[j], box), conn(pos[i], pos[k], box)
                    d12, d13 = norm(r12), norm(r13)
                    if abs(d12 - cut) < 1e-7 or abs(d13 - cut) < 1e-7:
                        raise DesignError("three-body neighbour exactly on the cutoff: undefined, redesign the frame")
                    if d12 < cut and d13 < cut:
                        vals.append(angle_between(r12, r13))
    else:
        kind, lst = sy.bonded[name]
        for t in lst:
            if kind == "bond":
                vals.append(norm(conn(pos[t[0]], pos[t[1]], box)))
            elif kind == "angle":
                vals.append(angle_between(conn(pos[t[1]], pos[t[0]], box), conn(pos[t[1]], pos[t[2]], box)))
            else:
                b1, b2, b3 = conn(pos[t[0]], pos[t[1]], box), conn(pos[t[1]], pos[t[2]], box), conn(pos[t[2]], pos[t[3]], box)
                n1, n2 = cross(b1, b2), cross(b2, b3)
                vals.append(math.atan2(norm(b2) * dot(b1, n2), dot(n1, n2)))   # IUPAC sign
    return vals


def bin_values(vals, mn, st, n):
    """nearest-bin-centre counting.  returns (counts of the unambiguous values, ties[(bin_lo|None, bin_hi|None)])"""
    counts, ties = [0] * n, []
    for v in vals:
        x = (v - mn) / st + 0.5
        f = math.floor(x)
        lo = hi = None
        if abs(x - f) < TIE:
            lo, hi = f - 1, f
        elif abs(x - (f + 1)) < TIE:
            lo, hi = f, f + 1
        if lo is not None:
            ties.append((lo if 0 <= lo < n else None, hi if 0 <= hi < n else None))
        elif 0 <= f < n:
            counts[int(f)] += 1
    return counts, ties


class Model:
    """expected files of one csg_stat run"""

    def __init__(self, sysname, sname, intra, imc, frames_by_letter, sequential_image=False):
        """sequential_image=True: alternative model of the known finding (see conn_sequential), never the reference"""
        self.sy, self.sname, self.intra, self.imc = SYSTEMS[sysname], sname, intra, imc
        self.order = set_order(sname)
        self.grids = {n: grid(n, intra) for n in self.order}
        self.raw = {}       # (letter, name) -> (counts, ties)
        self.vol = {}
        SEQUENTIAL_IMAGE[0] = sequential_image
        try:
            for L, fr in frames_by_letter.items():
                self.vol[L] = fr[0][0] * fr[0][1] * fr[0][2] if len(fr[0]) == 3 else box_volume(fr[0])
                for n in self.order:
                    mn, st, nb = self.grids[n]
                    self.raw[(L, n)] = bin_values(values_of(self.sy, n, fr, intra), mn, st, nb)
        finally:
            SEQUENTIAL_IMAGE[0] = False
        self.tie_items = [(L, n, k) for (L, n), (c, t) in sorted(self.raw.items()) for k in range(len(t))]
        self.groups = {}
        if imc:
            for n in self.order:
                g = dict(SETS[sname])[n]
                if g != "none":
                    self.groups.setdefault(g, []).append(n)

    def hists(self, choice):
        """per (letter, name) histogram for one assignment of the ties (choice: dict item -> 0/1)"""
        h = {}
        for (L, n), (c, t) in self.raw.items():
            c = list(c)
            for k, (lo, hi) in enumerate(t):
                b = hi if choice.get((L, n, k), 0) else lo
                if b is not None:
                    c[b] += 1
            h[(L, n)] = c
        return h

    def pairnorm(self, n):
        d = INTER[n]
        n1, n2 = len(self.sy.ntype(d[1])), len(self.sy.ntype(d[2]))
        return 2.0 / (n1 * n2) if d[1] == d[2] else 1.0 / (n1 * n2)

    def shell(self, n, i):
        mn, st, nb = self.grids[n]
        x1 = (mn + i * st) - 0.5 * st
        if x1 < 0:
            return None
        x2 = x1 + st
        return 4.0 / 3.0 * math.pi * (x2 ** 3 - x1 ** 3)

    def block_files(self, h, wframes, vol_frames, suffix_dist, suffix_imc):
        """expected {filename: content} for an average over `wframes` (list of (letter, w); w = weight of
        the BONDED histograms of that frame, 1 in the property's model);
        vol_frames = the frames <V> is taken over (== frames in the property's model)"""
        out = {}
        nf = float(len(wframes))
        V = sum(self.vol[L] for L in vol_frames) / float(len(vol_frames))
        avg = {}
        def hw(L, w, n):
            return [c * w for c in h[(L, n)]] if is_bonded(n) else h[(L, n)]
        for n in self.order:
            mn, st, nb = self.grids[n]
            a = [sum(hw(L, w, n)[i] for L, w in wframes) / nf for i in range(nb)]
            avg[n] = a
            kind = INTER[n][0]
            if kind == "rdf":
                pn = self.pairnorm(n)
                y = []
                for i in range(nb):
                    sh = self.shell(n, i)
                    y.append(0.0 if sh is None else V * pn * a[i] / sh)
            else:
                tot = sum(a)
                y = [v / (tot * st) for v in a] if tot > 0 else list(a)
            out[n + suffix_dist] = ("table", [(mn + i * st, y[i]) for i in range(nb)])
        for g, members in self.groups.items():
            S, r, dS, idx = [], [], [], []
            begin = 1
            for n in members:
                mn, st, nb = self.grids[n]
                tgt = target_values(n, nb)
                for i in range(nb):
                    r.append(mn + i * st)
                    if INTER[n][0] == "rdf":
                        sh = self.shell(n, i) or 0.0
                        dS.append(avg[n][i] - tgt[i] * sh / (V * self.pairnorm(n)))
                    elif INTER[n][0] == "three":
                        dS.append(None)         # de-normalisation of an angular target is not defined by the property
                    else:
                        dS.append(avg[n][i] - tgt[i])      # bonded: the tool's de-normalisation factor is 1
                S.append(n)
                idx.append((n, "%d:%d" % (begin, begin + nb - 1) if nb > 1 else "%d" % begin))
                begin += nb
            vecs = [[c for n in members for c in hw(L, w, n)] for L, w in wframes]
            m = len(r)
            mean = [sum(v[i] for v in vecs) / nf for i in range(m)]
            gmc = [[-(sum(v[i] * v[j] for v in vecs) / nf - mean[i] * mean[j]) for j in range(m)] for i in range(m)]
            out[g + suffix_imc + ".imc"] = ("table", list(zip(r, dS)))
            out[g + suffix_imc + ".gmc"] = ("matrix", gmc)
            out[g + suffix_imc + ".idx"] = ("index", idx)
        return out

    def expected(self, processed, bl, choice, cumvol=False, dup_odd=False):
        """{filename: content} for the whole run. cumvol=True reproduces a tool that never restarts <V>;
        dup_odd=True one whose 2nd, 4th, ... frame counts every bonded interaction twice"""
        h = self.hists(choice)
        wf = [(L, 2 if (dup_odd and p % 2 == 1) else 1) for p, L in enumerate(processed)]
        if bl == 0:
            return self.block_files(h, wf, processed, ".dist.new", "")
        out = {}
        for k in range(len(processed) // bl):
            fr = wf[k * bl:(k + 1) * bl]
            vf = processed[:(k + 1) * bl] if cumvol else processed[k * bl:(k + 1) * bl]
            suf = "_%d.dist.new" % (k + 1)
            out.update(self.block_files(h, fr, vf, suf, suf))
        return out


# ----------------------------------------------------------------------------- alphabet self-check (grid family)

def _cell(r, box, N, trunc):
    """cell index per axis as NBListGrid::getCell computes it (orthorhombic box); trunc=True emulates a cell index
    obtained by truncation toward zero instead of floor"""
    out = []
    for k in range(3):
        x = r[k] * N[k] / box[k]
        a = int(x) if trunc else math.floor(x)
        if a < 0:
            a = N[k] + int(math.fmod(a, N[k]))      # C++ remainder (sign of the dividend)
        out.append(a % N[k])
    return out


def _adjacent(c1, c2, N):
    """axes on which the two cells are NOT neighbours (cells see -1..+1, everything for N < 3... N=3 wraps fully)"""
    bad = []
    for k in range(3):
        d = (c1[k] - c2[k]) % N[k]
        if N[k] > 3 and d not in (0, 1, N[k] - 1):
            bad.append(k)
    return bad


def grid_sensitivity():
    """for every frame of the grid family and every rdf: pairs (inside the histogram range) that a cell list with a
    TRUNCATED cell index would lose.  Raises DesignError when a frame/interaction has none, or when the flooring
    emulation itself loses a pair (then the emulation is wrong)."""
    res = {}
    for sysname in GRID_FAMILY:
        sy = SYSTEMS[sysname]
        for L in "ABC":
            box, pos = parse_gro(gro_frame(sysname, L), sy)[0]
            for name in ("AA", "AB", "BB"):
                d = INTER[name]
                mn, mx, st = float(d[3]), float(d[4]), float(d[5])
                cut = mx + st
                N = [max(int(box[k] / cut), 1) for k in range(3)]
                l1, l2 = sy.ntype(d[1]), sy.ntype(d[2])
                pairs = [(a, b) for a in l1 for b in l1 if a < b] if d[1] == d[2] else [(a, b) for a in l1 for b in l2]
                lost = []
                for a, b in pairs:
                    if (min(a, b), max(a, b)) in sy.excl:
                        continue
                    r = norm(conn(pos[a], pos[b], box))
                    if not (mn - 0.5 * st <= r < mx + 0.5 * st):
                        continue
                    if _adjacent(_cell(pos[a], box, N, False), _cell(pos[b], box, N, False), N):
                        raise DesignError("cell-grid emulation loses pair %d-%d of %s in frame %s" % (a, b, name, L))
                    bad = _adjacent(_cell(pos[a], box, N, True), _cell(pos[b], box, N, True), N)
                    if bad:
                        lost.append((a, b, "xyz"[bad[0]], N[bad[0]]))
                if not lost:
                    raise DesignError("frame %s of %s has no %s pair that is sensitive to the cell index of unwrapped coordinates" % (L, sysname, name))
                res[(sysname, L, name)] = lost
    return res


SHAPE_CHECKED = {}


def shape_check(sysname):
    """self-check of one system of the grid-SHAPE family, from the generated .gro text (memoised; DesignError otherwise):
    * the search grid (floor(height/cut-off), at least 1, per axis) of AA, AB, BB and the wide three-body AAW has exactly
      the designed shape in frame A and the designed class per axis ({1,2,3,>=4}) in frame B;
    * every rdf obeys the rule csg_stat enforces on the first frame, max <= half the shortest box height, in BOTH frames
      and both modes (max / max_intra);
    * the in-range non-excluded pairs of EVERY rdf contain: a pair inside one cell; per axis with >= 2 cells a pair in
      different cells whose minimum image crosses the periodic face (through the wrap) and a pair in different cells
      that does not (internal boundary); per axis with ONE cell a pair whose minimum image crosses the face;
    * no A-A pair closer than step/2 (undefined first bin), no minimum image that is nearly ambiguous (matters for angles).
    returns counters for the evidence"""
    if sysname in SHAPE_CHECKED:
        return SHAPE_CHECKED[sysname]
    kind, shape = SHAPE_FAMILY[sysname]
    sy = SYSTEMS[sysname]
    stat = {"same_cell": 0, "cross_cell_through_wrap": 0, "cross_cell_internal": 0, "wrap_of_single_cell_axis": 0}
    for L in "AB":
        box, pos = parse_gro(gro_frame(sysname, L), sy)[0]
        hts = box_heights(box)
        for name in ("AA", "AB", "BB", "AAW"):
            d = INTER[name]
            cut = float(d[7]) if d[0] == "three" else float(d[4]) + float(d[5])
            N = [max(int(hts[k] / cut), 1) for k in range(3)]
            if [min(n, 4) for n in N] != list(shape) or (L == "A" and N != list(shape)):
                raise DesignError("%s frame %s: search grid of %s is %s, designed %s" % (sysname, L, name, N, shape))
            if d[0] != "rdf":
                continue
            if max(float(d[4]), float(d[6])) > 0.5 * min(hts):
                raise DesignError("%s frame %s: max of %s exceeds half the shortest box height" % (sysname, L, name))
            mn, mx, st = float(d[3]), float(d[4]), float(d[5])
            l1, l2 = sy.ntype(d[1]), sy.ntype(d[2])
            pairs = [(a, b) for a in l1 for b in l1 if a < b] if d[1] == d[2] else [(a, b) for a in l1 for b in l2]
            same = 0
            wrap, internal, single = [0, 0, 0], [0, 0, 0], [0, 0, 0]
            for a, b in pairs:
                v, n_img, gap = conn_general(pos[a], pos[b], box)
                r = norm(v)
                if r < 1.2 and gap < 1e-6:
                    raise DesignError("%s frame %s: minimum image of pair %d-%d is ambiguous" % (sysname, L, a, b))
                if name == "AA" and r < 0.5 * st + 1e-6:
                    raise DesignError("%s frame %s: A-A pair %d-%d closer than step/2" % (sysname, L, a, b))
                if (min(a, b), max(a, b)) in sy.excl or not (mn - 0.5 * st <= r < mx + 0.5 * st):
                    continue
                fa, fb = box_frac(pos[a], box), box_frac(pos[b], box)
                ca = [int(math.floor(fa[k] * N[k])) % N[k] for k in range(3)]
                cb = [int(math.floor(fb[k] * N[k])) % N[k] for k in range(3)]
                # image shift between the two beads folded into the primary cell
                cross_face = [n_img[k] + int(math.floor(fb[k])) - int(math.floor(fa[k])) != 0 for k in range(3)]
                if ca == cb:
                    same += 1
                for k in range(3):
                    if N[k] == 1:
                        single[k] += cross_face[k]
                    elif ca[k] != cb[k]:
                        if cross_face[k]:
                            wrap[k] += 1
                        else:
                            internal[k] += 1
            for k in range(3):
                ok = (single[k] > 0) if N[k] == 1 else (wrap[k] > 0 and internal[k] > 0)
                if not ok or not same:
                    raise DesignError("%s frame %s %s: pair classes missing on axis %s (%d cells): same-cell %d, through wrap %s, internal %s, "
                                      "wrap of single cell %s" % (sysname, L, name, "xyz"[k], N[k], same, wrap, internal, single))
            stat["same_cell"] += same
            stat["cross_cell_through_wrap"] += sum(wrap)
            stat["cross_cell_internal"] += sum(internal)
            stat["wrap_of_single_cell_axis"] += sum(single)
        # ties / three-body neighbours on the cut-off would be DesignErrors of the model: provoke them now
        for intra in (0, 1):
            for name in set_order("S9"):
                values_of(sy, name, (box, pos), intra)
    SHAPE_CHECKED[sysname] = stat
    return stat


def empty_pattern_check():
    """the frames of the empty-histogram family must have exactly the designed pattern of empty / populated
    per-frame histograms (without ties), and populated histograms of one member must differ between frames"""
    out = {}
    for sysname in EMPTY_FAMILY:
        sy = SYSTEMS[sysname]
        for L in LETTERS5:
            fr = parse_gro(gro_frame(sysname, L), sy)[0]
            for name in ("BB", "AB", "bond", "AAA"):
                mn, st, nb = grid(name, 0)
                c, t = bin_values(values_of(sy, name, fr, 0), mn, st, nb)
                if any(lo is not None or hi is not None for lo, hi in t):
                    raise DesignError("tie in the empty-histogram family: %s frame %s" % (name, L))
                if (sum(c) == 0) != (name in EMPTY5[L]):
                    raise DesignError("frame %s of %s: histogram of %s is %s" % (L, sysname, name, "empty" if sum(c) == 0 else "populated"))
                out[(L, name)] = tuple(c)
        for name in ("BB", "AB", "bond", "AAA"):
            pop = [out[(L, name)] for L in LETTERS5 if name not in EMPTY5[L]]
            if len(set(pop)) != len(pop):
                raise DesignError("populated histograms of %s do not differ between frames" % name)
    return out


# ----------------------------------------------------------------------------- running the tool

CSG_STAT = None
RUNNO = [0]
LOADER_RETRIES = [0]


def run_tool(sysname, sname, hist, bl, ff, nf, intra, imc, nt, keep=None, nb=None):
    """runs the real csg_stat in a fresh directory. returns (rc, {filename: bytes}, stdout, trajectory text)"""
    global CSG_STAT
    if CSG_STAT is None:
        CSG_STAT = pybsx.exe("csg_stat")
    sy = SYSTEMS[sysname]
    RUNNO[0] += 1
    wd = os.path.abspath("run%d" % RUNNO[0]) if keep is None else os.path.abspath(keep)
    shutil.rmtree(wd, ignore_errors=True)
    os.makedirs(wd)
    inputs = {"topol.xml": sy.topology_xml(), "settings.xml": settings_xml(sname, imc, nb),
              "traj.gro": "".join(gro_frame(sysname, L) for L in hist)}
    cmd = [CSG_STAT, "--top", "topol.xml", "--trj", "traj.gro", "--options", "settings.xml", "--nt", str(nt)]
    if sy.mapped:
        maps = sy.mapping_xmls()
        inputs.update(maps)
        cmd += ["--cg", ";".join(sorted(maps))]
    if imc:
        cmd.append("--do-imc")
        for n, g in SETS[sname]:
            if g != "none":
                mn, st, nb = grid(n, intra)
                inputs[n + ".dist.tgt"] = "".join("%.10g %.10g i\n" % (mn + i * st, t) for i, t in enumerate(target_values(n, nb)))
    if intra:
        cmd.append("--include-intra")
    if bl:
        cmd += ["--block-length", str(bl)]
    if ff:
        cmd += ["--first-frame", str(ff)]
    if nf:
        cmd += ["--nframes", str(nf)]
    for fn, txt in inputs.items():
        with open(os.path.join(wd, fn), "w") as f:
            f.write(txt)
    for attempt in range(40):
        try:
            p = subprocess.run(cmd, cwd=wd, stdout=subprocess.PIPE, stderr=subprocess.STDOUT, timeout=120)
            rc, so = p.returncode, p.stdout.decode(errors="replace")
        except subprocess.TimeoutExpired:
            rc, so = "timeout", ""
        except OSError as e:           # executable being replaced by a concurrent rebuild
            rc, so = 127, "error while loading shared libraries (exec failed: %s)" % e
        # the dynamic loader failed before main() because another check is relinking the shared build
        # (README: "one-off crash; just re-run"): wait for the linker, this is not behaviour of the tool
        if rc == 127 and ("error while loading shared libraries" in so or "symbol lookup error" in so):
            LOADER_RETRIES[0] += 1
            time.sleep(3)
            continue
        break
    files = {}
    for fn in sorted(os.listdir(wd)):
        if fn not in inputs:
            with open(os.path.join(wd, fn), "rb") as f:
                files[fn] = f.read()
    if keep is None:
        shutil.rmtree(wd, ignore_errors=True)
    return rc, files, so, inputs["traj.gro"]


def parse_file(fn, data):
    txt = data.decode(errors="replace")
    rows = [l.split() for l in txt.split("\n") if l.strip() and not l.startswith("#")]
    if fn.endswith(".idx"):
        return ("index", [(r[0], r[1]) for r in rows])
    if fn.endswith(".gmc") or fn.endswith(".cor"):
        return ("matrix", [[float(x) for x in r] for r in rows])
    return ("table", [(float(r[0]), float(r[1])) for r in rows])


def close(a, b, tol):
    return abs(a - b) <= tol[0] * max(abs(a), abs(b)) + tol[1]


def cmp_content(fn, got, exp, tol):
    """list of human readable differences between parsed contents"""
    if got[0] != exp[0]:
        return ["%s: kind %s != %s" % (fn, got[0], exp[0])]
    g, e = got[1], exp[1]
    if len(g) != len(e):
        return ["%s: %d rows, expected %d" % (fn, len(g), len(e))]
    out = []
    for i, (rg, re_) in enumerate(zip(g, e)):
        if got[0] == "index":
            if tuple(rg) != tuple(re_):
                out.append("%s row %d: %s, expected %s" % (fn, i, rg, re_))
        elif got[0] == "table":
            if not close(rg[0], re_[0], (1e-9, 1e-9)):
                out.append("%s row %d: x=%.10g, expected %.10g" % (fn, i, rg[0], re_[0]))
            if re_[1] is not None and not close(rg[1], re_[1], tol):
                out.append("%s row %d (x=%.10g): y=%.10g, expected %.10g" % (fn, i, rg[0], rg[1], re_[1]))
        else:
            if len(rg) != len(re_):
                out.append("%s row %d: %d columns, expected %d" % (fn, i, len(rg), len(re_)))
                continue
            for j, (x, y) in enumerate(zip(rg, re_)):
                if not close(x, y, tol):
                    out.append("%s [%d,%d]: %.8g, expected %.8g" % (fn, i, j, x, y))
    return out


def tol_of(fn):
    return TOL_DIST if fn.endswith(".dist.new") else TOL_IMC


def is_block_extra(fn):
    """.S / .cor block files: not described by the property; only checked by the differential block oracle"""
    return fn.endswith(".S") or fn.endswith(".cor")


def kind_of_file(fn, sname):
    """narrow failure-class key from the file that differs"""
    if fn.endswith(".gmc"):
        return "gmc-mismatch"
    if fn.endswith(".imc"):
        return "imc-dS-mismatch"
    if fn.endswith(".idx"):
        return "idx-mismatch"
    base = fn.split(".dist.new")[0]
    base = base.rsplit("_", 1)[0] if "_" in base else base
    k = INTER.get(base, ("?",))[0]
    return {"rdf": "nonbonded-dist-mismatch", "bonded": "bonded-dist-mismatch", "three": "threebody-dist-mismatch"}.get(k, "dist-mismatch")


def volume_dependent(fn):
    """files whose content depends on <V>"""
    if fn.endswith(".imc"):
        return True
    if fn.endswith(".dist.new"):
        base = fn[:-len(".dist.new")]
        base = base.rsplit("_", 1)[0] if "_" in base else base
        return INTER.get(base, ("?",))[0] == "rdf"
    return False


def compare_with_model(model, files, processed, bl, cumvol=False, dup_odd=False):
    """best assignment of the ties: returns (mismatch list [(file, text)], expected dict)"""
    if len(model.tie_items) > 8:
        raise DesignError("too many ties in one run: %d" % len(model.tie_items))
    used = [t for t in model.tie_items if t[0] in processed]
    best = None
    parsed = {fn: parse_file(fn, d) for fn, d in files.items() if not is_block_extra(fn)}
    for bits in itertools.product((0, 1), repeat=len(used)):
        exp = model.expected(processed, bl, dict(zip(used, bits)), cumvol, dup_odd)
        mm = []
        for fn in sorted(set(exp) | set(parsed)):
            if fn not in parsed:
                mm.append((fn, "missing-output", "%s was not written" % fn))
            elif fn not in exp:
                mm.append((fn, "unexpected-output", "%s written but not expected" % fn))
            else:
                for t in cmp_content(fn, parsed[fn], exp[fn], tol_of(fn)):
                    mm.append((fn, kind_of_file(fn, model.sname), t))
                if fn.endswith(".gmc") and parsed[fn][0] == "matrix":
                    M = parsed[fn][1]
                    if all(len(r) == len(M) for r in M):
                        for i in range(len(M)):
                            for j in range(i):
                                if not close(M[i][j], M[j][i], TOL_IMC):
                                    mm.append((fn, "gmc-asymmetric", "%s [%d,%d]=%.8g but [%d,%d]=%.8g" % (fn, i, j, M[i][j], j, i, M[j][i])))
        if best is None or len(mm) < len(best[0]):
            best = (mm, exp, parsed)
        if not mm:
            break
    return best


# ----------------------------------------------------------------------------- cases

def case_str(c):
    return "%s|%s|%s|bl=%d|ff=%d|nf=%d|intra=%d|imc=%d" % c


def parse_case(s):
    p = s.split("|")
    kv = dict(x.split("=") for x in p[3:])
    return (p[0], p[1], p[2], int(kv["bl"]), int(kv["ff"]), int(kv["nf"]), int(kv["intra"]), int(kv["imc"]))


def selected(hist, ff, nf):
    """frames the tool is asked to process: frames are numbered from 1; --first-frame 0 (default) = from the start"""
    h = hist[max(ff, 1) - 1:]
    return h[:nf] if nf else h


FRESH = {}


def fresh_run(sysname, sname, frames, intra, imc):
    """(result, 1 if the tool was really run else 0); memoised per process"""
    key = (sysname, sname, frames, intra, imc)
    new = key not in FRESH
    if new:
        FRESH[key] = run_tool(sysname, sname, frames, 0, 0, 0, intra, imc, 1)
    return FRESH[key], int(new)


def evaluate(c, R=None, verbose=False):
    """runs one case (2 tool runs + the fresh runs of the block oracle). returns list of (key, what)"""
    sysname, sname, hist, bl, ff, nf, intra, imc = c
    sy = SYSTEMS[sysname]
    processed = selected(hist, ff, nf)
    fails = []
    rc, files, so, traj = run_tool(sysname, sname, hist, bl, ff, nf, intra, imc, 1)
    nruns, nframes = 1, len(processed)
    if rc != 0:
        fails.append(("tool-failed", "csg_stat exit status %s on valid input: %s" % (rc, so.strip()[-300:])))
        return fails, nruns, nframes, None
    letters = sorted(set(hist))
    parsed_frames = parse_gro(traj, sy)
    fbl = {L: parsed_frames[hist.index(L)] for L in letters}
    model = Model(sysname, sname, intra, imc, fbl)
    mm, exp, parsed = compare_with_model(model, files, processed, bl)
    known_vol = False
    if mm and bl and len(processed) // bl >= 2 and len(set(model.vol[L] for L in processed)) > 1:
        # does a tool that never restarts <V> explain ALL differences?  (suspected defect #15)
        mm2, _, _ = compare_with_model(model, files, processed, bl, cumvol=True)
        if not mm2 and all(volume_dependent(fn) for fn, k, t in mm):
            known_vol = True
    # triclinic frames: are ALL differences explained by a connection vector that is reduced component by component
    # (z, then y, then x) instead of the minimum image, for a pair whose minimum-image distance lies inside a histogram
    # range but beyond half the shortest box vector?  (narrow: such a pair must exist in a processed frame AND the
    # output must equal the model computed with that connection exactly)
    known_seq = None
    if mm and not known_vol and any(len(fbl[L][0]) == 9 for L in processed):
        reach = max([float(INTER[n][7]) if INTER[n][0] == "three" else model.grids[n][0] + (model.grids[n][2] - 0.5) * model.grids[n][1]
                     for n in model.order if INTER[n][0] != "bonded"] + [0.0])
        prs = [(L,) + p for L in sorted(set(processed)) for p in sequential_image_pairs(sy, fbl[L], reach)]
        if prs:
            model2 = Model(sysname, sname, intra, imc, fbl, sequential_image=True)
            mm2, _, _ = compare_with_model(model2, files, processed, bl)
            if not mm2:
                known_seq = prs
    if known_seq:
        L, a, b, t, q = known_seq[0]
        fails.append(("triclinic-connection-not-minimum-image",
                      "triclinic box: frame %s beads %d-%d are %.4f nm apart (minimum image, inside the histogram range) but are "
                      "binned at %.4f nm, the z,y,x-reduced connection of TriclinicBox::BCShortestConnection; every difference "
                      "is explained by it: %s" % (L, a + 1, b + 1, t, q, mm[0][2])))
        model = model2
    elif known_vol:
        fails.append(("block-avg-vol-not-restarted",
                      "block output uses <V> accumulated over all previous blocks instead of the block's own frames: " + mm[0][2]))
    else:
        seen = set()
        for fn, k, t in mm:
            if k not in seen:
                seen.add(k)
                fails.append((k, t))
    # differential block oracle: block k == fresh run on block k's frames
    if bl:
        for k in range(len(processed) // bl):
            fr = processed[k * bl:(k + 1) * bl]
            (rc2, files2, so2, _), new = fresh_run(sysname, sname, fr, intra, imc)
            nruns += new; nframes += new * len(fr)
            if rc2 != 0:
                fails.append(("tool-failed", "fresh run on %s failed: %s" % (fr, so2.strip()[-200:])))
                continue
            suf = "_%d.dist.new" % (k + 1)
            for fn2, data2 in files2.items():
                if fn2.endswith(".dist.new"):
                    fn1 = fn2[:-len(".dist.new")] + suf
                else:
                    base, ext = fn2.rsplit(".", 1)
                    fn1 = base + suf + "." + ext
                if fn1 not in files:
                    fails.append(("block-differs-from-fresh-run", "block %d: %s missing (fresh run wrote %s)" % (k + 1, fn1, fn2)))
                    continue
                d = cmp_content(fn1, parse_file(fn1, files[fn1]), parse_file(fn2, data2), tol_of(fn2))
                if d:
                    if known_vol and volume_dependent(fn2) and k >= 1:
                        continue     # same class, already reported
                    fails.append(("block-differs-from-fresh-run", "block %d of %s vs fresh run on %s: %s" % (k + 1, processed, fr, d[0])))
                elif R is not None:
                    R.count("block_files_equal_fresh_run")
            # .S/.cor exist only in block mode: compare with a fresh 1-block run of the same length
            if imc:
                key3 = (sysname, sname, fr, intra, imc, bl)
                if key3 not in FRESH:
                    FRESH[key3] = run_tool(sysname, sname, fr, bl, 0, 0, intra, imc, 1)
                    nruns += 1; nframes += len(fr)
                rc3, files3, so3, _ = FRESH[key3]
                for fn3, data3 in files3.items():
                    if is_block_extra(fn3):
                        fn1 = fn3.replace("_1.dist.new", suf)
                        if fn1 not in files or cmp_content(fn1, parse_file(fn1, files[fn1]), parse_file(fn3, data3), TOL_IMC):
                            fails.append(("block-differs-from-fresh-run", "block %d: %s differs from %s of a fresh run on %s" % (k + 1, fn1, fn3, fr)))
    # --nt 2 must give byte-identical files
    rcn, filesn, son, _ = run_tool(sysname, sname, hist, bl, ff, nf, intra, imc, 2)
    nruns += 1; nframes += len(processed)
    if rcn != 0:
        fails.append(("tool-failed", "--nt 2: exit status %s: %s" % (rcn, son.strip()[-200:])))
    elif filesn != files:
        diff = sorted(fn for fn in set(files) | set(filesn) if files.get(fn) != filesn.get(fn))
        # explained by: the worker thread's topology (second ReadTopology of the same xml reader object)
        # carries every <bonded> interaction twice, so the 2nd, 4th, ... frame counts bonded values double?
        dup = False
        if not sy.mapped and (not mm or known_vol or known_seq) and any(is_bonded(n) for n in model.order):
            mmd, _, _ = compare_with_model(model, filesn, processed, bl, cumvol=known_vol, dup_odd=True)
            dup = not mmd
        if dup:
            fails.append(("nt2-xml-topology-bonded-duplicated",
                          "--nt 2 differs from --nt 1 in %s: frames evaluated by the second worker count every bonded "
                          "interaction of the xml topology twice" % diff))
        else:
            fails.append(("nt2-differs-from-nt1", "--nt 2 output differs from --nt 1 in %s" % diff))
    # grid family: <nbsearch>grid</nbsearch> (explicit) and <nbsearch>simple</nbsearch> must write the same files
    # as the default.  (csg_stat uses NBListGrid for BOTH values for pair interactions, so for the rdfs this only
    # checks the option path; for three-body interactions 'simple' is the O(N^3) NBList_3Body, a real differential.)
    if sysname in GRID_FAMILY:
        for nb in ("grid", "simple"):
            rcb, filesb, sob, _ = run_tool(sysname, sname, hist, bl, ff, nf, intra, imc, 1, nb=nb)
            nruns += 1; nframes += len(processed)
            if rcb != 0:
                fails.append(("tool-failed", "nbsearch=%s: exit status %s: %s" % (nb, rcb, sob.strip()[-200:])))
            elif filesb != files:
                diff = sorted(fn for fn in set(files) | set(filesb) if files.get(fn) != filesb.get(fn))
                fails.append(("nbsearch-%s-differs-from-default" % nb, "<nbsearch>%s</nbsearch> output differs from the default (grid) in %s" % (nb, diff)))
            elif R is not None:
                R.count("nbsearch_%s_identical" % nb)
    # grid-shape family: <nbsearch>simple</nbsearch> = O(N^3) NBList_3Body for the two three-body interactions (a genuine
    # grid-vs-simple differential for every grid shape); the rdfs use NBListGrid either way
    if sysname in SHAPE_FAMILY:
        rcb, filesb, sob, _ = run_tool(sysname, sname, hist, bl, ff, nf, intra, imc, 1, nb="simple")
        nruns += 1; nframes += len(processed)
        if rcb != 0:
            fails.append(("tool-failed", "nbsearch=simple: exit status %s: %s" % (rcb, sob.strip()[-200:])))
        elif filesb != files:
            diff = sorted(fn for fn in set(files) | set(filesb) if files.get(fn) != filesb.get(fn))
            fails.append(("nbsearch-simple-differs-from-default", "<nbsearch>simple</nbsearch> output differs from the default (grid) in %s" % diff))
        elif R is not None:
            R.count("nbsearch_simple_identical")
    # dedupe keys
    out, seen = [], set()
    for k, t in fails:
        if k not in seen:
            seen.add(k); out.append((k, t))
    summary = None
    if verbose or R is not None:
        summary = {fn: [round(v[1], 6) if isinstance(v, tuple) else v for v in p[1]][:12] for fn, p in sorted(parsed.items()) if p[0] == "table"}
    return out, nruns, nframes, (files, summary, model)


def enumerate_cases(tier):
    hists = ["".join(h) for n in (1, 2, 3) for h in itertools.product("ABC", repeat=n)]     # 39, shortest first
    if tier == "quick":
        systems = ["T1", "T2", "T3"]
        sets_of = {"T1": ["S1", "S4"], "T2": ["S5", "S3"], "T3": ["S2"]}
        bls = [0, 1, 2]
        sels = [(0, 0), (2, 2)]
    else:
        systems = ["T1", "T2", "T3"]
        sets_of = SETS_OF
        bls = [0, 1, 2, 3]
        sels = [(0, 0), (2, 0), (3, 0), (0, 1), (0, 2), (2, 1), (2, 2)]
    modes = [(0, 0), (1, 0), (0, 1)]      # (include-intra, do-imc); both together is rejected by the tool
    cases = []
    for hist in hists:
        for sysname in systems:
            for sname in sets_of[sysname]:
                for bl in bls:
                    for ff, nf in sels:
                        if len(selected(hist, ff, nf)) == 0:
                            continue            # nothing selected: the tool aborts, not part of the property
                        if (ff or nf) and selected(hist, ff, nf) == hist and tier == "quick":
                            continue            # selection is the identity (covered by (0,0))
                        for intra, imc in modes:
                            cases.append((sysname, sname, hist, bl, ff, nf, intra, imc))
    # grid-search family T4 (a handful in quick): all histories of length <= 2 (quick) / <= 3 (thorough)
    for hist in hists:
        if tier == "quick" and len(hist) > 2:
            continue
        for sname in (["S6"] if tier == "quick" else SETS_OF["T4"]):
            for bl in ([0, 1] if tier == "quick" else [0, 1, 2]):
                for ff, nf in ([(0, 0)] if tier == "quick" else [(0, 0), (2, 2)]):
                    if len(selected(hist, ff, nf)) == 0:
                        continue
                    for intra, imc in modes:
                        cases.append(("T4", sname, hist, bl, ff, nf, intra, imc))
    # empty-histogram family T5 (--do-imc only): ALL sequences over {P,Q,R,Z} = all 0/1 patterns 'member i of the
    # group is empty in frame k' for two members, length <= 3 (quick) / <= 4 (thorough), with and without blocks
    maxlen = 3 if tier == "quick" else 4
    for n in range(1, maxlen + 1):
        for h in itertools.product(LETTERS5, repeat=n):
            for sname in SETS_OF["T5"]:
                for bl in ([0, 2] if tier == "quick" else [0, 1, 2, 3]):
                    cases.append(("T5", sname, "".join(h), bl, 0, 0, 0, 1))
    # grid-SHAPE family: ALL 64 shapes {1,2,3,>=4}^3 of the search grid, orthorhombic (G) and triclinic (H) boxes
    if tier == "quick":
        hists6, bls6 = ["AB"], [0]
    else:
        hists6, bls6 = ["".join(h) for n in (1, 2) for h in itertools.product("AB", repeat=n)], [0, 1]
    for kind in "GH":
        for shape in sorted(s for k, s in SHAPE_FAMILY.values() if k == kind):
            sysname = "%s%d%d%d" % ((kind,) + shape)
            for hist in hists6:
                for bl in bls6:
                    for intra, imc in modes:
                        if tier == "quick" and kind == "H" and intra:
                            continue
                        cases.append((sysname, "S9", hist, bl, 0, 0, intra, imc))
    return cases


RULE = ("alphabet: frames {A,B,C} (boxes 8.0/11.0/10.08 nm^3, one pair exactly on a bin centre, pairs exactly on bin edges, "
        "pairs across box faces) of 3 systems (T1 8 beads, T2 9 beads incl. dihedral, T3 = T1 as 16 atoms through a --cg mapping) "
        "+ grid-search family T4: 12 beads in boxes 3.7x4.6x5.5 and axis permutations (4/5/6 resp. 5/6/7 neighbour-search cells per "
        "axis, 3/4/5 for the cross-type rdf) with UNWRAPPED coordinates (in (-cell,0), below -cell, 2-3 box lengths below 0, beyond L), "
        "pairs within the cutoff only through the periodic image and between the last two cell layers on every axis, run with "
        "nbsearch default/grid/simple (byte identical); a Python emulation of the cell grid asserts at start-up that in every T4 frame "
        "a truncating (instead of flooring) cell index would lose pairs of every rdf; "
        "+ empty-histogram family T5 (--do-imc): frames {P,Q,R,Z} = {no, first, second, both} member(s) of a two-member IMC "
        "group with a completely EMPTY per-frame histogram (asserted at start-up), groups {same-type rdf BB + bond} and "
        "{cross-type rdf AB + three-body AAA}: ALL sequences of length <= 3 (quick) / <= 4 (thorough) = all 0/1 emptiness "
        "patterns, block lengths {0,2} / {0,1,2,3}; gmc/idx (and dS except for three-body members) vs the recomputation + block oracle; "
        "+ grid-SHAPE family G/H (16 beads, unwrapped coordinates): ALL 64 shapes {1,2,3,>=4}^3 of the neighbour-search grid (cells per "
        "axis = floor(box height/(max+step)); box heights 1.65/2.3/3.2/4.1 nm in frame A, 1.68/2.4/3.1/5.05 (1/2/3/5 cells) in frame B, "
        "max = 0.8 <= half the shortest height as csg_stat demands) in orthorhombic (G) and triclinic (H, tilted b and c, heights as "
        "designed) boxes: a cluster straddling the three faces through the origin + beads straddling the internal cell boundaries; "
        "asserted at start-up per system and per rdf: in-range pairs inside one cell, in different cells through the periodic wrap "
        "and across an internal boundary on every axis with >= 2 cells, across the wrap of every single-cell axis; set S9 = AA, AB, BB, "
        "three-body AAA (cut 0.6) and AAW (cut 0.85, same grid shape), bond; quick: history AB x {plain, --include-intra (G only), "
        "--do-imc}; thorough: all histories over {A,B} of length <= 2 x block length {0,1} x 3 modes; nt 1/2, nbsearch simple identical; "
        "reference distance in triclinic boxes = brute-force minimum over all lattice images |n| <= 2; "
        "bound: ALL frame sequences of length 1..3 (39) x block lengths x first-frame/nframes selections x interaction sets "
        "(same-type rdf from 0, cross-type rdf from min>0, rdf whose first bin starts at r=0, bond, angle, dihedral, two three-body "
        "angular) x {plain, --include-intra, --do-imc}; every case additionally run with --nt 2 (byte identical) and, per block, "
        "as a fresh run on the block's frames; oracle: Python recomputation of every written file from the same input files + "
        "differential block oracle; distinct = distinct contents of the set of written files; states = distinct "
        "(configuration, processed frame history), transitions = frames merged by the tool, traces = tool runs compared")


def unit_of(c):
    """sharding unit: (system, set, mode, block length) keeps the memo of fresh block runs effective; the long
    T5 enumeration is split further by the first frame"""
    return (c[0], c[1], c[6], c[7], c[3], c[2][0] if c[0] in EMPTY_FAMILY else "")


def main():
    a = pybsx.parse()
    if a.case:
        c = parse_case(a.case)
        fails, nruns, nframes, info = evaluate(c, verbose=True)
        print("case", a.case, "processed", selected(c[2], c[4], c[5]))
        if info:
            for fn, v in (info[1] or {}).items():
                print("  ", fn, v)
        for k, t in fails:
            print("FAIL", k, t)
        sys.exit(3 if fails else 0)
    R = pybsx.Report("C04", "stat", a.tier)
    R.rule = RULE
    R.assumptions = [
        "pairs are 'excluded' iff both beads belong to the same molecule and share a bonded interaction (the tool's exclusion rule)",
        "frames are numbered from 1 for --first-frame; an incomplete last block writes nothing",
        "for bonded interactions in an IMC group the de-normalisation factor of the target is 1 (tool convention, not stated by the property)",
        "a pair closer than step/2 for a range starting at 0 (first, half bin) is not in the alphabet: its normalisation is undefined",
        "ranges that are not a multiple of the step are not in the alphabet (undefined bin layout)",
        "a three-body member of an IMC group is compared in .gmc/.idx/.dist.new; its dS rows in .imc are not (target de-normalisation undefined)",
    ]
    cases = enumerate_cases(a.tier)
    sens = grid_sensitivity()
    pat = empty_pattern_check()
    if a.shard == 0:
        R.sample("empty-histogram family T5 per-frame histograms: " + "; ".join(
            "%s/%s=%s" % (L, n, "empty" if not any(c) else list(c)) for (L, n), c in sorted(pat.items())))
    if a.shard == 0:
        for n6 in ("G123", "H141"):
            b6, p6 = parse_gro(gro_frame(n6, "A"), SYSTEMS[n6])[0]
            R.sample("shape family %s frame A: box line %s, heights %s, in-range rdf pair classes (both frames) %s" % (
                n6, list(b6), [round(h, 4) for h in box_heights(b6)], shape_check(n6)))
    if a.shard == 0:
        R.count("grid_family_pairs_sensitive_to_cell_index_of_unwrapped_coordinates", sum(len(v) for v in sens.values()))
        R.sample("grid family: pairs a truncating cell index would lose (bead a, bead b, axis, cells on that axis): " +
                 "; ".join("%s/%s/%s %s" % (k[0], k[1], k[2], v) for k, v in sorted(sens.items())))
    states, transitions, traces = set(), 0, 0
    units = {}
    for c in cases:      # sharding unit = (system, set, mode, block length): the memo of fresh block runs stays effective
        units.setdefault(unit_of(c), len(units))
    for i, c in enumerate(cases):
        if not a.mine(units[unit_of(c)]):
            continue
        if c[0] in SHAPE_FAMILY:
            st = shape_check(c[0])
            if c[2:] == ("AB", 0, 0, 0, 0, 0):        # once per system
                R.count("shape_family_systems")
                for k, v in sorted(st.items()):
                    R.count("shape_family_in_range_rdf_pairs_" + k, v)
        fails, nruns, nframes, info = evaluate(c, R)
        R.eval(nruns)
        traces += nruns
        transitions += nframes
        processed = selected(c[2], c[4], c[5])
        states.add((c[0], c[1], c[3], c[6], c[7], processed))
        R.count("cases")
        if info:
            files, summary, model = info
            if files:
                R.cls(sorted((fn, d) for fn, d in files.items()))
                R.count("files_compared", len(files))
            else:
                R.count("runs_without_output(block longer than history)")
            if model.tie_items:
                R.count("cases_with_bin_edge_ties")
            if summary and i % 197 == 3:
                fn = sorted(summary)[0]
                R.sample("%s -> processed %s, %d files, %s y=%s" % (case_str(c), processed, len(files), fn, summary[fn]))
        for k, t in fails:
            R.fail(k, t, case_str(c))
    if LOADER_RETRIES[0]:
        R.count("loader_retries(shared build relinked during the run)", LOADER_RETRIES[0])
    R.states, R.transitions, R.traces = len(states), transitions, traces
    R.write(a.out)


if __name__ == "__main__":
    main()
