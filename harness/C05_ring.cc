// C05 — threaded trajectory analysis is schedule- and thread-count-independent.
// The REAL CsgApplication::Run / ProcessData / Worker::Run (libvotca_csg) is driven
// through Application::Exec with a stub topology reader, a stub trajectory reader and a
// logging worker, under the vsched controlled scheduler; all schedules up to a
// preemption bound are enumerated (stateless DFS, one forked child per execution).
#include <boost/program_options.hpp>
#include <map>
#include <set>
#include <sstream>

#include "bsx.h"
#include "vsched/explore.h"
#include "vsched/vsched.h"
#include "C05_common.h"

struct Cfg { int nt, F, ff, N; bool ord; bool ul = false; int B = -1; /* --begin B (time of frame f is f); -1: absent */ };  // N = -1: --nframes absent; ul: the instant after every mutex unlock is a scheduling point too
static std::string cfgstr(const Cfg &c) {
  return "nt=" + std::to_string(c.nt) + ";F=" + std::to_string(c.F) + ";ff=" + std::to_string(c.ff) + ";N=" + std::to_string(c.N) +
         ";ord=" + (c.ord ? "1" : "0") + (c.ul ? ";ul=1" : "") + (c.B >= 0 ? ";B=" + std::to_string(c.B) : "");
}

static bool g_force_tids = false;  // interpret the prefix as thread ids (model -> implementation replay)
static void child_body(const Cfg &c, vs_shared *shm, const std::vector<int> &choices, int horizon) {
  g_frames_in_file = c.F;
  // keep the library's chatter out of the way
  if (!freopen("/dev/null", "w", stdout)) {}
  if (!freopen("/dev/null", "w", stderr)) {}
  std::vector<std::string> av{"c05_driver", "--top", "x.vtop", "--trj", "x.vtrj", "--nt", std::to_string(c.nt),
                              "--first-frame", std::to_string(c.ff)};
  if (c.N >= 0) { av.push_back("--nframes"); av.push_back(std::to_string(c.N)); }
  if (c.B >= 0) { av.push_back("--begin"); av.push_back(std::to_string(c.B)); }
  std::vector<char *> argv;
  for (auto &s : av) argv.push_back(const_cast<char *>(s.c_str()));
  App app;
  app.ordered = c.ord;
  vs_set_unlock_points(c.ul ? 1 : 0);
  if (g_force_tids) vs_begin_tids(shm, choices.data(), (int)choices.size(), horizon);
  else vs_begin(shm, choices.data(), (int)choices.size(), horizon);
  int rc = app.Exec((int)argv.size(), argv.data());
  vs_log(EV_RC, rc, 0);
  vs_end();
  _exit(0);
}

// expected selection, from the statement: frames first..first+N-1 of the file, in order
static bool expected(const Cfg &c, std::vector<long> &sel) {
  sel.clear();
  int s = std::max(c.ff, 1);
  if (c.B >= 0) s = std::max(s, c.B);  // frames before time B are skipped as well (time of frame f is f)
  if (c.F >= 1 && s > c.F) return false;  // "trajectory too short": rejected
  int last = c.N < 0 ? c.F : std::min(c.F, s + c.N - 1);
  for (int f = s; f <= last; f++) sel.push_back(f);
  return true;
}

struct Verdict { bool ok = true; std::string key, what, obs; };

static Verdict judge(const Cfg &c, const vsx::Exec &x) {
  Verdict v;
  const vs_shared *shm = x.shm;
  auto bad = [&](const std::string &k, const std::string &w) { if (v.ok) { v.ok = false; v.key = k; v.what = w; } };
  std::string mode = c.ord ? "ordered" : "unordered";
  if (x.verdict == VS_DIVERGED || x.verdict == VS_INTERNAL) { bad("MACHINERY", "scheduler: " + x.message); return v; }
  if (x.verdict == VS_DEADLOCK) { bad(mode + "-deadlock", x.message); return v; }
  if (x.verdict == VS_HORIZON) { bad(mode + "-livelock", "step horizon exceeded"); return v; }
  if (x.crashed || x.verdict != VS_COMPLETED) { bad(mode + "-crash", "child status " + std::to_string(x.status) + " verdict " + std::to_string(x.verdict)); return v; }
  std::vector<long> sel;
  bool accept = expected(c, sel);
  int inread = 0, inmerge = 0;
  long rc = -999;
  std::vector<long> reads, finals, evals;
  std::map<long, int> evalcount;
  std::map<int, long> lastread_by_tid;
  bool began = false;
  std::ostringstream obs;
  for (int i = 0; i < shm->nevents; i++) {
    const vs_event &e = shm->events[i];
    switch (e.kind) {
      case EV_READ_ENTER:
        if (inread > 0) bad(mode + "-reader-overlap", "two threads inside the trajectory reader (thread " + std::to_string(e.tid) + " entered)");
        inread++;
        break;
      case EV_READ_EXIT:
        inread--;
        if (e.a > 0) reads.push_back(e.a);
        break;
      case EV_EVAL_ENTER:
        evals.push_back(e.b);
        evalcount[e.b]++;
        obs << "E" << e.a << ":" << e.b << " ";
        break;
      case EV_TORN: bad(mode + "-torn-frame", "worker " + std::to_string(e.a) + " evaluated a frame whose data does not match its step " + std::to_string(e.b)); break;
      case EV_MERGE_ENTER:
        if (inmerge > 0) bad(mode + "-merge-overlap", "two threads inside MergeWorker");
        inmerge++;
        break;
      case EV_MERGE_EXIT: inmerge--; break;
      case EV_MERGED: obs << "M" << e.a << ":" << e.b << " "; break;
      case EV_BEGIN: began = true; break;
      case EV_FINAL: finals.push_back(e.a); break;
      case EV_RC: rc = e.a; break;
    }
  }
  (void)began;
  if (!accept) {
    if (rc == 0) bad(mode + "-short-trajectory-accepted", "first frame beyond the end of the trajectory but Exec returned 0");
    if (!evals.empty()) bad(mode + "-short-trajectory-evaluated", "frames evaluated although the selection is empty");
    v.obs = "rejected";
    return v;
  }
  if (rc != 0) bad(mode + "-exec-failed", "Exec returned " + std::to_string(rc));
  // every frame read from the file exactly once and in file order
  for (size_t i = 0; i < reads.size(); i++)
    if (reads[i] != (long)i + 1) { bad(mode + "-read-order", "read #" + std::to_string(i + 1) + " returned frame " + std::to_string(reads[i])); break; }
  if (c.F == 0) {  // empty file: only the differential requirement (same as nt=1) applies
    v.obs = "F0:" + obs.str();
    return v;
  }
  std::string budget = c.N >= 0 ? "-nframes" : "";
  std::multiset<long> want(sel.begin(), sel.end()), gotE(evals.begin(), evals.end()), gotF(finals.begin(), finals.end());
  if (gotE != want) {
    std::string g, w;
    for (long f : evals) g += std::to_string(f) + " ";
    for (long f : sel) w += std::to_string(f) + " ";
    bool dup = false;
    for (auto &kv : evalcount) if (kv.second > 1) dup = true;
    bad(mode + budget + (dup ? "-frame-evaluated-twice" : "-wrong-frame-set"), "evaluated frames {" + g + "} but selected frames are {" + w + "}");
  }
  if (c.ord) {
    if (finals != sel) {
      std::string g, w;
      for (long f : finals) g += std::to_string(f) + " ";
      for (long f : sel) w += std::to_string(f) + " ";
      bad("ordered" + budget + "-merge-order", "merged result [" + g + "] differs from the single-thread result [" + w + "]");
    }
  } else if (gotF != want) {
    std::string g, w;
    for (long f : finals) g += std::to_string(f) + " ";
    for (long f : sel) w += std::to_string(f) + " ";
    bad("unordered" + budget + "-merged-set", "merged frames {" + g + "} differ from the selected frames {" + w + "}");
  }
  v.obs = obs.str();
  return v;
}

// One execution as a line of model-level labels: the steps are (chosen thread, label of the op it resumes from),
// the events the observable log.  Mutex ids are mapped to their role in the ring protocol.
static std::string trace_line(const Cfg &c, const vsx::Exec &x) {
  const vs_shared *shm = x.shm;
  std::string s = "verdict=" + std::to_string(x.verdict) + "|steps=";
  for (int i = 0; i < shm->npoints; i++) {
    const vs_point &p = shm->points[i];
    std::string lab = "?";
    int t = p.chosen, o = p.chosen_obj;
    switch (p.chosen_op) {
      case VS_OP_START: lab = "START"; break;
      case VS_OP_CREATE: lab = "CR"; break;
      case VS_OP_JOIN: lab = o < 0 ? "JA" : "J"; break;
      case VS_OP_YIELD:
        if (o == 300 || o == 301) lab = std::string(t == 0 ? "MY" : "Y") + std::to_string(o);
        else lab = "Y" + std::to_string(o);
        break;
      case VS_OP_LOCK:
        if (c.ord) {
          if (o < 2 * c.nt) lab = t == 0 ? "PL" : (o % 2 == 0 ? "L_IN" : "L_OUT");
          else if (o == 2 * c.nt) lab = "L_RD";
          else lab = "L?" + std::to_string(o);
        } else lab = o == 0 ? "L_RD" : (o == 1 ? "ML" : "L?" + std::to_string(o));
        break;
      default: lab = "op" + std::to_string(p.chosen_op);
    }
    s += (i ? "," : "") + std::to_string(t) + ":" + lab;
  }
  s += "|events=";
  bool first = true;
  for (int i = 0; i < shm->nevents; i++) {
    const vs_event &e = shm->events[i];
    std::string ev;
    if (e.kind == EV_READ_EXIT && e.a > 0) ev = "R" + std::to_string(e.a);
    else if (e.kind == EV_EVAL_ENTER) ev = "E" + std::to_string(e.a) + ":" + std::to_string(e.b);
    else if (e.kind == EV_MERGED) ev = "M" + std::to_string(e.b);
    else if (e.kind == EV_FINAL) ev = "F" + std::to_string(e.a);
    else continue;
    s += (first ? "" : ",") + ev;
    first = false;
  }
  s += "|msg=" + x.message;
  return s;
}

int main(int argc, char **argv) {
  bsx::Args a = bsx::parse(argc, argv);
  int horizon = 3000;
  if (a.kv.count("dump-traces") || a.kv.count("run-tids")) {
    // model conformance support (lib/conform_c05.py)
    bool forced = a.kv.count("run-tids") > 0;
    auto m = bsx::kvs(forced ? a.kv["run-tids"] : a.kv["dump-traces"]);
    Cfg c{atoi(m["nt"].c_str()), atoi(m["F"].c_str()), atoi(m["ff"].c_str()), atoi(m["N"].c_str()), m["ord"] == "1"};
    FILE *out = fopen(a.kv["outfile"].c_str(), "w");
    if (!out) return 2;
    vsx::Explorer ex;
    ex.horizon = horizon;
    ex.body = [&](vs_shared *shm, const std::vector<int> &ch) { child_body(c, shm, ch, horizon); };
    if (!forced) {
      int bound = atoi(a.kv["bound"].c_str());
      ex.dfs({}, 0, bound, [&](const vsx::Exec &x) { fprintf(out, "%s\n", trace_line(c, x).c_str()); return true; });
    } else {
      g_force_tids = true;
      FILE *in = fopen(a.kv["tidsfile"].c_str(), "r");
      if (!in) return 2;
      char *line = nullptr;
      size_t cap = 0;
      while (getline(&line, &cap, in) > 0) {
        std::string l(line);
        while (!l.empty() && (l.back() == '\n' || l.back() == '\r')) l.pop_back();
        vsx::Exec x = ex.run(vsx::parse_sched(l));
        fprintf(out, "%s\n", trace_line(c, x).c_str());
      }
      fclose(in);
    }
    fclose(out);
    return 0;
  }
  if (a.has_case) {
    auto m = bsx::kvs(a.cas);
    Cfg c{atoi(m["nt"].c_str()), atoi(m["F"].c_str()), atoi(m["ff"].c_str()), atoi(m["N"].c_str()), m["ord"] == "1", m["ul"] == "1", m.count("B") ? atoi(m["B"].c_str()) : -1};
    std::vector<int> sched = vsx::parse_sched(m["sched"]);
    vsx::Explorer ex;
    ex.horizon = horizon;
    ex.body = [&](vs_shared *shm, const std::vector<int> &ch) { child_body(c, shm, ch, horizon); };
    // determinism gate: the same schedule must give the same observation twice
    vsx::Exec x1 = ex.run(sched);
    Verdict v1 = judge(c, x1);
    std::string t1 = vsx::trace_str(ex.shm);
    vsx::Exec x2 = ex.run(sched);
    Verdict v2 = judge(c, x2);
    std::string t2 = vsx::trace_str(ex.shm);
    if (t1 != t2 || v1.ok != v2.ok || v1.key != v2.key) { printf("MACHINERY: replay not deterministic\n%s\n%s\n", t1.c_str(), t2.c_str()); return 2; }
    if (v1.key == "MACHINERY") { printf("MACHINERY: %s\n", v1.what.c_str()); return 2; }
    printf("schedule trace: %s\n", t1.c_str());
    if (v1.ok) { printf("case holds (obs %s)\n", v1.obs.c_str()); return 0; }
    printf("case FAILS: key=%s %s\n", v1.key.c_str(), v1.what.c_str());
    return 3;
  }
  bsx::Report R;
  R.property = "C05"; R.part = "ring"; R.tier = a.tier;
  bool thorough = a.tier == "thorough";
  double budget_s = thorough ? 840 : 70;
  R.deadline_s = budget_s;
  std::vector<Cfg> base_cfgs;
  std::vector<int> nts = thorough ? std::vector<int>{1, 2, 3, 4} : std::vector<int>{1, 2, 3};
  for (int nt : nts)
    for (int F : {0, 1, 2, 3, 4})
      for (int ff : {0, 1, 2})
        for (int N : {-1, 0, 1, 2, F + 1})
          for (int ord = 1; ord >= 0; ord--) {
            if (F == 0 && (ff > 0 || N >= 0)) continue;
            if (N == F + 1 && (N == 1 || N == 2)) continue;  // duplicate of an earlier value
            base_cfgs.push_back({nt, F, ff, N, ord == 1, false});
            // --begin: frames with a time below B are skipped too (on top of --first-frame)
            if (F >= 3 && (N == -1 || N == 1) && ff <= 1)
              for (int B : {2, F + 1}) base_cfgs.push_back({nt, F, ff, N, ord == 1, false, B});
          }
  // Work items (configuration, segmentation, preemption bound) in the order they are explored: iterated bounds, small
  // configurations first.  ul = the instant after every mutex release is a scheduling point too.
  //   quick   : level 0: every configuration, ul, bound 1
  //   thorough: level 0: nt<=3 ul bound 1, nt=4 acquire-only bound 1
  //             level 1: nt=2 ul bound 2, nt=2 acquire-only bound 3, nt=3 acquire-only bound 2, nt=4 ul bound 1
  // Level 0 gets at most 45% of the time budget in thorough; inside a level every item gets an equal share of what is left
  // (unused time flows on), so an item that is too large is reported as capped and does not starve the items after it.
  struct Item { Cfg c; int bound; int level; };
  std::vector<Item> items;
  for (const Cfg &b : base_cfgs) {
    Cfg u = b; u.ul = true;
    if (!thorough || b.nt <= 3) items.push_back({u, 1, 0}); else items.push_back({b, 1, 0});
  }
  if (thorough)
    for (const Cfg &b : base_cfgs) {
      Cfg u = b; u.ul = true;
      if (b.nt == 2) { items.push_back({u, 2, 1}); items.push_back({b, 3, 1}); }
      if (b.nt == 3) items.push_back({b, 2, 1});
      if (b.nt == 4) items.push_back({u, 1, 1});
    }
  R.rule = "all schedules (stateless DFS over the choice sequences of the vsched controlled scheduler; scheduling points: thread "
           "start/create/exit, every blocking mutex acquire, the instant after every mutex release, join, and harness yields inside the stub reader, EvalConfiguration and "
           "MergeWorker) with <= k preemptions of the real CsgApplication::Run driven through Application::Exec, for nt x frames-in-file x "
           "--first-frame x --nframes x --begin x ordered/unordered; k = 1 with the release points (quick); thorough: iterated bounds, level 0 = bound 1 everywhere (release points for nt<=3), level 1 = bound 2 with release points and bound 3 acquire-only for nt=2, bound 2 acquire-only for nt=3, bound 1 with release points for nt=4; items cut short by their time share are counted in the evidence. Oracle per execution: "
           "no reader/merge overlap, reads in file order, every selected frame evaluated exactly once, ordered merge = single-thread "
           "result, unordered merged set = selected set, no deadlock/livelock. distinct_nontrivial = distinct (config, evaluation/merge "
           "order observation) pairs";
  vsx::Explorer ex;
  ex.horizon = horizon;
  long long unit = 0, schedules = 0, points = 0;
  std::map<std::string, long long> done, capped, sched_by;
  for (int level = 0; level < 2; level++) {
    std::vector<const Item *> todo;
    for (const Item &it : items) if (it.level == level) todo.push_back(&it);
    double level_end = (thorough && level == 0) ? 0.45 * R.deadline_s : R.deadline_s;
    for (size_t ci = 0; ci < todo.size(); ci++) {
      const Cfg &c = todo[ci]->c;
      int bound = todo[ci]->bound;
      std::string klass = "nt" + std::to_string(c.nt) + (c.ul ? "_ul" : "_acq") + "_bound" + std::to_string(bound);
      ex.body = [&](vs_shared *shm, const std::vector<int> &ch) { child_body(c, shm, ch, horizon); };
      // an item may use up to 3x the equal share of what is left of its level (items differ in size; unused time flows on);
      // quick: the global budget only
      double slice_end = thorough ? R.elapsed() + 3.0 * std::max(0.0, level_end - R.elapsed()) / double(todo.size() - ci) : R.deadline_s;
      if (slice_end > level_end) slice_end = level_end;
      bool cut = false;
      auto on_exec = [&](const vsx::Exec &x) -> bool {
        schedules++;
        sched_by[klass]++;
        points += x.npoints();
        R.eval();
        Verdict v = judge(c, x);
        std::string cas = cfgstr(c) + ";sched=" + vsx::sched_str(x.choices);
        if (!v.ok) {
          if (v.key == "MACHINERY") { fprintf(stderr, "MACHINERY-ERROR %s [%s]\n", v.what.c_str(), cas.c_str()); exit(2); }
          R.fail(v.key, v.what + "  [" + cas + "]", cas);
        } else {
          R.cls(cfgstr(c) + "|" + v.obs);
          if (R.samples.size() < R.max_samples && (schedules % 37 == 1)) R.sample(cas + " => " + v.obs);
        }
        if (R.elapsed() > slice_end) { cut = true; return false; }
        return true;
      };
      // root + first-level branches are the work units distributed over shards (same numbering in every shard)
      vsx::Exec root = ex.run({});
      std::vector<vsx::Explorer::Branch> br = ex.branches(root, bound);
      long long base = unit;
      unit += 1 + (long long)br.size();
      if (a.mine(base)) { vsx::Exec r2 = ex.run({}); on_exec(r2); }
      for (size_t bi = 0; bi < br.size() && !cut; bi++) {
        if (!a.mine(base + 1 + (long long)bi)) continue;
        ex.dfs(br[bi].prefix, br[bi].cost, bound, on_exec);
      }
      if (cut) {
        capped[klass]++;
        if (capped[klass] <= 2) R.cap("time share used up while exploring " + cfgstr(c) + " at bound " + std::to_string(bound));
      } else done[klass]++;
    }
  }
  for (auto &kv : done) R.counters["items_completed_" + kv.first] = kv.second;
  for (auto &kv : capped) { R.counters["items_capped_" + kv.first] = kv.second; R.cap(std::to_string(kv.second) + " work items of class " + kv.first + " were cut short by their time share (this shard)"); }
  for (auto &kv : sched_by) R.counters["schedules_" + kv.first] = kv.second;
  R.states = points;  // scheduling points visited = states of the explored execution tree
  R.transitions = points;
  R.traces = schedules;
  R.counters["schedules"] = schedules;
  R.counters["scheduling_points"] = points;
  R.counters["configs"] = (long long)base_cfgs.size();
  R.assumptions = {"scheduling points at synchronisation operations suffice for data-race-free code (races are checked by a separate free-running TSan pass)",
                   "sequential consistency; stub readers/evaluators replace file I/O and analysis; <= 4 worker threads"};
  if (!R.write(a.out)) return 2;
  return 0;
}
