// C02 — periodic distances obey the minimum-image convention.
// Exhaustive enumeration of (box, box-type mode, base point, difference, whole-box
// offsets of either point) on exactly representable fractional lattices, against
// a brute-force 7x7x7 image search done in long double.  The code under test is
// reached through Topology::setBox + Topology::BCShortestConnection / getDist /
// BoxVolume / ShortestBoxSize (libvotca_csg built from the source tree).
#include <array>
#include <cfloat>

#include "bsx.h"
#include <votca/csg/topology.h>
#include <memory>
#include <votca/csg/openbox.h>
#include <votca/csg/orthorhombicbox.h>
#include <votca/csg/triclinicbox.h>

using namespace votca::csg;
using bsx::hexd;
using bsx::unhex;
typedef long double LD;
typedef std::array<LD, 3> L3;
typedef std::array<double, 3> D3;
typedef std::array<int, 3> I3;

// ------------------------------------------------------------------ box
struct Box {
  // columns a=(ax,0,0) b=(bx,by,0) c=(cx,cy,cz); all-zero = open
  double ax = 0, by = 0, cz = 0, bx = 0, cx = 0, cy = 0;
  // 0 auto, 1 explicit "natural" type (ortho for diagonal, triclinic otherwise),
  // 2 explicit triclinic on a diagonal matrix, 3 explicit open on a non-zero matrix
  int mode = 0;
  bool zero() const { return ax == 0 && by == 0 && cz == 0 && bx == 0 && cx == 0 && cy == 0; }
  bool diagonal() const { return bx == 0 && cx == 0 && cy == 0; }
  bool open() const { return zero() || mode == 3; }
  std::string cls() const { return open() ? "open" : diagonal() ? "ortho" : "tric"; }
  std::string keycls() const { return cls() + (mode == 0 ? "" : mode == 2 ? "-typed-triclinic" : "-explicit-type"); }
  Eigen::Matrix3d mat() const {
    Eigen::Matrix3d m = Eigen::Matrix3d::Zero();
    m(0, 0) = ax; m(1, 1) = by; m(2, 2) = cz; m(0, 1) = bx; m(0, 2) = cx; m(1, 2) = cy;
    return m;
  }
  // lattice used to place points: the box itself, or the unit cube for the zero matrix
  void cols(L3 &a, L3 &b, L3 &c) const {
    if (zero()) { a = {1, 0, 0}; b = {0, 1, 0}; c = {0, 0, 1}; return; }
    a = {ax, 0, 0}; b = {bx, by, 0}; c = {cx, cy, cz};
  }
  double lmax() const { return zero() ? 1.0 : std::max({ax, by, cz}); }
  std::string str() const {
    return hexd(ax) + "," + hexd(by) + "," + hexd(cz) + "," + hexd(bx) + "," + hexd(cx) + "," + hexd(cy);
  }
  std::string pretty() const {
    char b[200];
    snprintf(b, sizeof b, "a=(%g,0,0) b=(%g,%g,0) c=(%g,%g,%g) mode=%d", ax, bx, by, cx, cy, cz, mode);
    return b;
  }
};

static void apply_box(Topology &top, const Box &b) {
  BoundaryCondition::eBoxtype t = BoundaryCondition::typeAuto;
  if (b.mode == 1) t = b.diagonal() ? BoundaryCondition::typeOrthorhombic : BoundaryCondition::typeTriclinic;
  if (b.mode == 2) t = BoundaryCondition::typeTriclinic;
  if (b.mode == 3) t = BoundaryCondition::typeOpen;
  top.setBox(b.mat(), t);
}

// position = B * f  (double arithmetic, fixed order);  shifted = r + a*n0 + b*n1 + c*n2
static D3 place(const Box &bx, const D3 &f) {
  L3 a, b, c; bx.cols(a, b, c);
  D3 r;
  for (int k = 0; k < 3; k++) r[k] = (double)a[k] * f[0] + (double)b[k] * f[1] + (double)c[k] * f[2];
  return r;
}
static D3 shifted(const Box &bx, const D3 &r0, const I3 &n) {
  L3 a, b, c; bx.cols(a, b, c);
  D3 r;
  for (int k = 0; k < 3; k++) r[k] = r0[k] + ((double)a[k] * n[0] + (double)b[k] * n[1] + (double)c[k] * n[2]);
  return r;
}
static Eigen::Vector3d ev(const D3 &r) { return Eigen::Vector3d(r[0], r[1], r[2]); }

// ------------------------------------------------------------------ reference
struct Cand { I3 k; L3 v; LD d; };
struct RefMin {
  LD dmin = 0;
  std::vector<Cand> cands;  // all images within `margin` of the minimum
};
// brute-force 7^3 image search around the reduced difference D0 (long double)
static RefMin brute(const Box &bx, const L3 &D0, LD margin) {
  L3 a, b, c; bx.cols(a, b, c);
  RefMin r;
  r.dmin = 1e300L;
  std::vector<Cand> all;
  all.reserve(343);
  for (int i = -3; i <= 3; i++)
    for (int j = -3; j <= 3; j++)
      for (int k = -3; k <= 3; k++) {
        Cand cd;
        cd.k = {i, j, k};
        for (int q = 0; q < 3; q++) cd.v[q] = D0[q] - (a[q] * i + b[q] * j + c[q] * k);
        cd.d = sqrtl(cd.v[0] * cd.v[0] + cd.v[1] * cd.v[1] + cd.v[2] * cd.v[2]);
        if (cd.d < r.dmin) r.dmin = cd.d;
        all.push_back(cd);
      }
  for (auto &cd : all)
    if (cd.d <= r.dmin + margin) r.cands.push_back(cd);
  return r;
}
// independent volume / shortest height of the parallelepiped
static LD ref_volume(const Box &b) { return fabsl((LD)b.ax * (LD)b.by * (LD)b.cz); }
static L3 cross(const L3 &u, const L3 &v) {
  return {u[1] * v[2] - u[2] * v[1], u[2] * v[0] - u[0] * v[2], u[0] * v[1] - u[1] * v[0]};
}
static LD norm(const L3 &u) { return sqrtl(u[0] * u[0] + u[1] * u[1] + u[2] * u[2]); }
static LD ref_height(const Box &bx) {
  L3 a, b, c; bx.cols(a, b, c);
  LD V = ref_volume(bx);
  LD ha = V / norm(cross(b, c)), hb = V / norm(cross(c, a)), hc = V / norm(cross(a, b));
  return std::min(ha, std::min(hb, hc));
}

// ------------------------------------------------------------------ one case
struct Ctx {
  Topology top;
  Bead *b0 = nullptr, *b1 = nullptr;
  long long perturb_used = 0, ties = 0, not_demanded = 0;
  Ctx() {
    b0 = top.CreateBead(Bead::spherical, "A", "A", 1, 1.0, 0.0);
    b1 = top.CreateBead(Bead::spherical, "B", "A", 1, 1.0, 0.0);
  }
};
struct Case {
  Box box;
  D3 ri0, rj0;
  I3 ni{{0, 0, 0}}, nj{{0, 0, 0}};
  bool via_getdist = false;
  std::string str() const {
    auto p = [](const D3 &r) { return hexd(r[0]) + "," + hexd(r[1]) + "," + hexd(r[2]); };
    auto q = [](const I3 &n) { return std::to_string(n[0]) + "," + std::to_string(n[1]) + "," + std::to_string(n[2]); };
    return "pt;box=" + box.str() + ";mode=" + std::to_string(box.mode) + ";ri=" + p(ri0) + ";rj=" + p(rj0) + ";ni=" + q(ni) +
           ";nj=" + q(nj) + ";gd=" + (via_getdist ? "1" : "0");
  }
  std::string pretty() const {
    char b[400];
    snprintf(b, sizeof b, "%s ri0=(%.17g,%.17g,%.17g) rj0=(%.17g,%.17g,%.17g) ni=(%d,%d,%d) nj=(%d,%d,%d)%s", box.pretty().c_str(),
             ri0[0], ri0[1], ri0[2], rj0[0], rj0[1], rj0[2], ni[0], ni[1], ni[2], nj[0], nj[1], nj[2], via_getdist ? " via getDist" : "");
    return b;
  }
};
struct Verdict {
  bool ok = true;
  std::string key, what;
  uint64_t cls = 0;
};

static Eigen::Vector3d call(Ctx &cx, const D3 &ri, const D3 &rj, bool via_getdist) {
  if (via_getdist) {
    cx.b0->setPos(ev(ri));
    cx.b1->setPos(ev(rj));
    return cx.top.getDist(0, 1);
  }
  return cx.top.BCShortestConnection(ev(ri), ev(rj));
}
static LD dist3(const Eigen::Vector3d &v, const L3 &u) {
  return std::max(fabsl((LD)v[0] - u[0]), std::max(fabsl((LD)v[1] - u[1]), fabsl((LD)v[2] - u[2])));
}
static std::string vs(const Eigen::Vector3d &v) {
  char b[120];
  snprintf(b, sizeof b, "(%.17g,%.17g,%.17g)", v[0], v[1], v[2]);
  return b;
}
// "unchanged to rounding": vtest equals the answer of the code under test for some
// input within delta of (ri,rj) — algorithm independent definition of a rounding tie.
static bool equal_up_to_rounding_tie(Ctx &cx, const Eigen::Vector3d &vtest, const D3 &ri, const D3 &rj, double delta, LD tol, bool gd) {
  cx.perturb_used++;
  for (int i = -1; i <= 1; i++)
    for (int j = -1; j <= 1; j++)
      for (int k = -1; k <= 1; k++) {
        D3 rp = {rj[0] + i * delta, rj[1] + j * delta, rj[2] + k * delta};
        Eigen::Vector3d u = call(cx, ri, rp, gd);
        if ((u - vtest).cwiseAbs().maxCoeff() <= (double)tol + 2 * delta) return true;
      }
  return false;
}

// The box must already be applied to cx.top.  ref = brute(box, rj0-ri0) (hoisted by the
// enumerator, recomputed for --case), hmin = reference shortest height.
static Verdict check_case(Ctx &cx, const Case &c, const RefMin &ref, LD hmin, LD margin) {
  Verdict V;
  const Box &bx = c.box;
  D3 ri = shifted(bx, c.ri0, c.ni), rj = shifted(bx, c.rj0, c.nj);
  Eigen::Vector3d v = call(cx, ri, rj, c.via_getdist);
  Eigen::Vector3d w = call(cx, rj, ri, c.via_getdist);
  L3 D = {(LD)rj[0] - (LD)ri[0], (LD)rj[1] - (LD)ri[1], (LD)rj[2] - (LD)ri[2]};
  double S = bx.lmax();
  for (int k = 0; k < 3; k++) S = std::max({S, std::fabs(ri[k]), std::fabs(rj[k])});
  // error budget: the inputs are exact doubles; difference, quotient*edge and up to three
  // subtractions round at magnitude <= 2S each  =>  well below 64 eps S
  LD tol = 64 * (LD)DBL_EPSILON * S;
  bool far = false;
  for (int k = 0; k < 3; k++) if (std::abs(c.ni[k]) >= 1000 || std::abs(c.nj[k]) >= 1000) far = true;
  std::string kc = bx.keycls();
  auto fail = [&](const std::string &key, const std::string &what) {
    V.ok = false; V.key = kc + "-" + key + (far ? "-far-image" : ""); V.what = what + "  [" + c.pretty() + "]";
    return V;
  };
  if (!std::isfinite(v[0]) || !std::isfinite(v[1]) || !std::isfinite(v[2])) return fail("non-finite", "result " + vs(v));
  if (bx.open()) {
    if (dist3(v, D) > tol) return fail("not-plain-difference", "open box returned " + vs(v) + " for difference (" + bsx::fmt((double)D[0]) + "," + bsx::fmt((double)D[1]) + "," + bsx::fmt((double)D[2]) + ")");
    if ((v + w).cwiseAbs().maxCoeff() > (double)tol) return fail("swap-asymmetry", "d(i,j)=" + vs(v) + " d(j,i)=" + vs(w));
    V.cls = bsx::fnv("open" + std::to_string(bx.mode) + (D[0] == 0 && D[1] == 0 && D[2] == 0 ? "zero" : "nz") + (far ? "far" : ""));
    return V;
  }
  // (i) result - plain difference is an integer combination of the box columns
  L3 a, b, cc; bx.cols(a, b, cc);
  L3 e = {D[0] - (LD)v[0], D[1] - (LD)v[1], D[2] - (LD)v[2]};  // = B*m
  LD m2 = e[2] / cc[2];
  LD m1 = (e[1] - cc[1] * m2) / b[1];
  LD m0 = (e[0] - b[0] * m1 - cc[0] * m2) / a[0];
  LD r0 = roundl(m0), r1 = roundl(m1), r2 = roundl(m2);
  L3 back = {a[0] * r0 + b[0] * r1 + cc[0] * r2, b[1] * r1 + cc[1] * r2, cc[2] * r2};
  LD resid = std::max(fabsl(back[0] - e[0]), std::max(fabsl(back[1] - e[1]), fabsl(back[2] - e[2])));
  if (resid > tol) {
    char t[200];
    snprintf(t, sizeof t, "result %s differs from the plain difference by %.6Lf a + %.6Lf b + %.6Lf c (not integers, residual %.3Lg)", vs(v).c_str(), m0, m1, m2, resid);
    return fail("not-integer-combination", t);
  }
  // (ii),(iii) shortest image — demanded always for orthorhombic boxes, for triclinic ones below half the shortest height
  bool demanded = bx.diagonal() || ref.dmin < 0.5L * hmin - margin;
  // candidates are expressed relative to D0 = rj0 - ri0; the shifted difference is D0 + B*(nj-ni) up to rounding
  auto matches_candidate = [&](const Eigen::Vector3d &x, int sign) {
    for (auto &cd : ref.cands) {
      L3 u = {sign * cd.v[0], sign * cd.v[1], sign * cd.v[2]};
      if (dist3(x, u) <= tol) return true;
    }
    return false;
  };
  if (ref.cands.size() > 1) cx.ties++;
  if (demanded) {
    if (!matches_candidate(v, 1)) {
      char t[300];
      snprintf(t, sizeof t, "result %s has length %.17g but the shortest periodic image has length %.17Lg (image %d,%d,%d)", vs(v).c_str(), v.norm(),
               ref.dmin, ref.cands[0].k[0], ref.cands[0].k[1], ref.cands[0].k[2]);
      return fail("not-shortest", t);
    }
    if (!matches_candidate(w, -1)) return fail("swap-asymmetry", "d(i,j)=" + vs(v) + " d(j,i)=" + vs(w) + " is not minus a shortest image");
    if (ref.cands.size() == 1 && (v + w).cwiseAbs().maxCoeff() > (double)tol) return fail("swap-asymmetry", "d(i,j)=" + vs(v) + " d(j,i)=" + vs(w));
  } else {
    cx.not_demanded++;
    // outside the guaranteed range only invariance and antisymmetry are demanded (to rounding)
    double delta = 1e-9 * bx.lmax();
    bool anyshift = c.ni != I3{{0, 0, 0}} || c.nj != I3{{0, 0, 0}};
    if (anyshift) {
      Eigen::Vector3d v0 = call(cx, c.ri0, c.rj0, c.via_getdist);
      if ((v - v0).cwiseAbs().maxCoeff() > (double)tol && !equal_up_to_rounding_tie(cx, v, c.ri0, c.rj0, delta, tol, c.via_getdist))
        return fail("shift-variance", "unshifted points give " + vs(v0) + ", after whole-box shifts " + vs(v));
    }
    if ((v + w).cwiseAbs().maxCoeff() > (double)tol && !equal_up_to_rounding_tie(cx, -w, ri, rj, delta, tol, c.via_getdist))
      return fail("swap-asymmetry", "d(i,j)=" + vs(v) + " d(j,i)=" + vs(w));
  }
  // outcome class: which image was selected (relative to the reduced difference)
  char t[120];
  snprintf(t, sizeof t, "%s|%d|%d,%d,%d|%d", bx.cls().c_str(), bx.mode, (int)r0 - (c.nj[0] - c.ni[0]), (int)r1 - (c.nj[1] - c.ni[1]),
           (int)r2 - (c.nj[2] - c.ni[2]), demanded ? 1 : 0);
  V.cls = bsx::fnv(t);
  return V;
}

// box-level check: volume and shortest height
static Verdict check_box(Ctx &cx, const Box &bx) {
  Verdict V;
  auto fail = [&](const std::string &key, const std::string &what) {
    V.ok = false; V.key = bx.keycls() + "-" + key; V.what = what + "  [" + bx.pretty() + "]";
    return V;
  };
  LD vref = bx.zero() ? 0 : ref_volume(bx);
  double vol = cx.top.BoxVolume();
  if (bx.mode != 3 && fabsl((LD)vol - vref) > 1e-12L * std::max((LD)1, vref)) return fail("volume", "BoxVolume " + bsx::fmt(vol) + " expected " + bsx::fmt((double)vref));
  if (bx.mode == 3) return V;  // explicitly open box with a non-zero matrix: volume/height not defined by the statement
  if (!bx.zero()) {
    LD href = ref_height(bx);
    double h = cx.top.ShortestBoxSize();
    if (fabsl((LD)h - href) > 1e-12L * href) return fail("shortest-height", "ShortestBoxSize " + bsx::fmt(h) + " expected " + bsx::fmt((double)href));
    char t[100];
    snprintf(t, sizeof t, "box|%s|%.6Lf|%.6Lf", bx.cls().c_str(), vref, href);
    V.cls = bsx::fnv(t);
  }
  return V;
}

static Box parse_box(const std::string &s, int mode) {
  auto f = bsx::split(s, ',');
  Box b;
  b.ax = unhex(f[0]); b.by = unhex(f[1]); b.cz = unhex(f[2]); b.bx = unhex(f[3]); b.cx = unhex(f[4]); b.cy = unhex(f[5]);
  b.mode = mode;
  return b;
}

// ------------------------------------------------------------------ reuse histories
// Topology::setBox called several times on ONE Topology (auto <-> explicit, orthorhombic -> triclinic -> open and back) and
// BoundaryCondition objects whose box is replaced must behave exactly (bitwise) like a fresh object given only the last box.
static std::vector<Box> reuse_configs() {
  auto mk = [](double ax, double by, double cz, double bx, double cx, double cy, int mode) {
    Box b; b.ax = ax; b.by = by; b.cz = cz; b.bx = bx; b.cx = cx; b.cy = cy; b.mode = mode; return b;
  };
  return {mk(1, 1.5, 3, 0, 0, 0, 0),            // 0 diagonal, auto (orthorhombic)
          mk(1, 1.5, 3, 0.5, -0.25, 0.375, 0),  // 1 triclinic, auto
          mk(0, 0, 0, 0, 0, 0, 0),              // 2 zero matrix, auto (open)
          mk(3, 1, 1.5, 0, 0, 0, 2),            // 3 diagonal, explicitly triclinic
          mk(1.5, 1, 3, 0.375, -0.75, 0.5, 3),  // 4 triclinic matrix, explicitly open
          mk(1, 1, 1, -0.5, 0.5, -0.5, 1),      // 5 triclinic, explicit
          mk(1, 1, 1, 0, 0, 0, 1)};             // 6 cubic, explicitly orthorhombic
}
struct Probe { D3 ri, rj; };
static std::vector<Probe> reuse_probes(const Box &bx) {
  std::vector<Probe> p;
  const double f[5] = {0.0, 0.375, 0.5, 0.625, 1.0};
  const I3 offs[3] = {{{0, 0, 0}}, {{0, 0, 1000}}, {{-2, 1, 0}}};
  for (const D3 &base : {D3{0, 0, 0}, D3{0.875, 0.125, 0.375}})
    for (double x : f) for (double y : f) for (double z : f)
      for (const I3 &n : offs) {
        D3 ri = place(bx, base), d = place(bx, {x, y, z});
        p.push_back({ri, shifted(bx, {ri[0] + d[0], ri[1] + d[1], ri[2] + d[2]}, n)});
      }
  return p;
}
static bool bits_equal(const Eigen::Vector3d &a, const Eigen::Vector3d &b) { return memcmp(a.data(), b.data(), 3 * sizeof(double)) == 0; }
static bool bits_equal(double a, double b) { return memcmp(&a, &b, sizeof(double)) == 0; }
static std::string seqstr(const std::vector<int> &seq) { std::string s; for (size_t i = 0; i < seq.size(); i++) s += (i ? "," : "") + std::to_string(seq[i]); return s; }
// kind 0: Topology::setBox history; kind 1..3: OrthorhombicBox / TriclinicBox / OpenBox object, setBox history (+ Clone of the reused object)
// use: the object is queried (shortest connection, volume, shortest height) after every intermediate box, so that lazily
// computed / memoised quantities of an earlier box exist when the next box arrives
static Verdict check_reuse(int kind, const std::vector<int> &seq, bool use) {
  Verdict V;
  std::vector<Box> cfg = reuse_configs();
  const Box &last = cfg[seq.back()];
  std::vector<Probe> probes = reuse_probes(last);
  std::string hist;
  for (size_t i = 0; i < seq.size(); i++) hist += (i ? (use ? " -> queries -> " : " -> ") : "") + cfg[seq[i]].pretty();
  auto fail = [&](const std::string &key, const std::string &what) { V.ok = false; V.key = key; V.what = what + "  [history " + hist + "]"; return V; };
  if (kind == 0) {
    Ctx re, fr;
    for (size_t i = 0; i < seq.size(); i++) {
      apply_box(re.top, cfg[seq[i]]);
      if (use && i + 1 < seq.size()) {
        std::vector<Probe> pp = reuse_probes(cfg[seq[i]]);
        for (size_t k = 0; k < pp.size(); k += 97) { (void)call(re, pp[k].ri, pp[k].rj, 0); (void)call(re, pp[k].ri, pp[k].rj, 1); }
        (void)re.top.BoxVolume();
        if (!cfg[seq[i]].open()) (void)re.top.ShortestBoxSize();
      }
    }
    apply_box(fr.top, last);
    std::string key = "reuse-topology-setbox-" + last.keycls() + "-after-" + cfg[seq[seq.size() - 2]].keycls();
    if (re.top.getBoxType() != fr.top.getBoxType()) return fail(key, "box type " + std::to_string((int)re.top.getBoxType()) + " on the reused Topology, " + std::to_string((int)fr.top.getBoxType()) + " on a fresh one");
    if (re.top.getBox() != fr.top.getBox()) return fail(key, "getBox() differs from a fresh Topology");
    if (!bits_equal(re.top.BoxVolume(), fr.top.BoxVolume())) return fail(key, "BoxVolume " + bsx::fmt(re.top.BoxVolume()) + " on the reused Topology, " + bsx::fmt(fr.top.BoxVolume()) + " on a fresh one");
    if (!last.open() && !bits_equal(re.top.ShortestBoxSize(), fr.top.ShortestBoxSize()))
      return fail(key, "ShortestBoxSize " + bsx::fmt(re.top.ShortestBoxSize()) + " on the reused Topology, " + bsx::fmt(fr.top.ShortestBoxSize()) + " on a fresh one");
    for (auto &p : probes)
      for (int gd = 0; gd < 2; gd++) {
        Eigen::Vector3d a = call(re, p.ri, p.rj, gd), b = call(fr, p.ri, p.rj, gd), c = call(re, p.rj, p.ri, gd), d = call(fr, p.rj, p.ri, gd);
        if (!bits_equal(a, b) || !bits_equal(c, d))
          return fail(key, std::string(gd ? "getDist" : "BCShortestConnection") + " gives " + vs(a) + " on the reused Topology and " + vs(b) + " on a fresh one for ri=" + vs(ev(p.ri)) + " rj=" + vs(ev(p.rj)));
      }
    V.cls = bsx::fnv("reuse-top|" + std::to_string(seq.back()) + "|" + std::to_string((int)fr.top.getBoxType()) + "|" + bsx::fmt(fr.top.BoxVolume()));
    return V;
  }
  const char *cn[4] = {"", "OrthorhombicBox", "TriclinicBox", "OpenBox"};
  std::unique_ptr<BoundaryCondition> re, fr;
  auto make = [&]() -> std::unique_ptr<BoundaryCondition> {
    if (kind == 1) return std::make_unique<OrthorhombicBox>();
    if (kind == 2) return std::make_unique<TriclinicBox>();
    return std::make_unique<OpenBox>();
  };
  re = make(); fr = make();
  for (size_t i = 0; i < seq.size(); i++) {
    re->setBox(cfg[seq[i]].mat());
    if (use && i + 1 < seq.size()) {
      std::vector<Probe> pp = reuse_probes(cfg[seq[i]]);
      for (size_t k = 0; k < pp.size(); k += 97) (void)re->BCShortestConnection(ev(pp[k].ri), ev(pp[k].rj));
      (void)re->BoxVolume();
      if (kind != 3 && !cfg[seq[i]].zero()) (void)re->getShortestBoxDimension();
    }
  }
  fr->setBox(last.mat());
  std::unique_ptr<BoundaryCondition> cl = re->Clone();
  for (int which = 0; which < 2; which++) {
    BoundaryCondition &x = which == 0 ? *re : *cl;
    std::string key = std::string("reuse-boundarycondition-") + cn[kind] + (which == 0 ? "-setbox" : "-clone");
    if (x.getBoxType() != fr->getBoxType() || x.getBox() != fr->getBox()) return fail(key, "box type / matrix differ from a fresh object");
    if (!bits_equal(x.BoxVolume(), fr->BoxVolume())) return fail(key, "BoxVolume " + bsx::fmt(x.BoxVolume()) + " vs " + bsx::fmt(fr->BoxVolume()) + " on a fresh object");
    if (kind != 3 && !last.zero() && !bits_equal(x.getShortestBoxDimension(), fr->getShortestBoxDimension()))
      return fail(key, "getShortestBoxDimension " + bsx::fmt(x.getShortestBoxDimension()) + " vs " + bsx::fmt(fr->getShortestBoxDimension()) + " on a fresh object");
    for (auto &p : probes) {
      Eigen::Vector3d a = x.BCShortestConnection(ev(p.ri), ev(p.rj)), b = fr->BCShortestConnection(ev(p.ri), ev(p.rj));
      if (!bits_equal(a, b)) return fail(key, "BCShortestConnection gives " + vs(a) + ", a fresh object " + vs(b) + " for ri=" + vs(ev(p.ri)) + " rj=" + vs(ev(p.rj)));
    }
  }
  V.cls = bsx::fnv(std::string("reuse-bc|") + cn[kind] + "|" + std::to_string(seq.back()));
  return V;
}

// ------------------------------------------------------------------ copy histories
// Operation histories over ONE boundary object and its copies.  Ops: s<i> setBox(config i) on the current object; Q query everything on the
// current object; K Clone(); C copy construction; F copy-assignment into a fresh object of the same class; U copy-assignment into an object that
// was used before (other box, queried); after K/C/F/U the copy is the current object; B go back to the object the current one was copied from.
// Topology level: s<i> = Topology::setBox(config, type mode), F/U = CopyTopologyData into a fresh / a used Topology (K, C do not exist).
// Oracle: after the history every live object is queried and must equal BITWISE a fresh object given only that object's current box
// (so a copy carries the source's box, and copying never changes the source); every Q inside the history is checked the same way.
static std::vector<Probe> copy_probes(const Box &bx) {
  std::vector<Probe> p;
  const double f[3] = {0.0, 0.375, 0.625};
  for (double x : f) for (double y : f) for (double z : f)
    for (int sh = 0; sh < 2; sh++) {
      D3 ri = place(bx, {0.875, 0.125, 0.375}), d = place(bx, {x, y, z});
      p.push_back({ri, shifted(bx, {ri[0] + d[0], ri[1] + d[1], ri[2] + d[2]}, sh ? I3{{0, 0, 3}} : I3{{0, 0, 0}})});
    }
  return p;
}
// configurations of the copy histories: 4 matrices (classes) / 4 (matrix, type mode) pairs (Topology)
static std::vector<Box> copy_configs(bool topology) {
  std::vector<Box> r = reuse_configs();
  if (topology) return {r[0], r[1], r[2], r[5]};     // diagonal auto, triclinic auto, zero matrix auto (open), triclinic explicit
  return {r[0], r[1], r[3], r[5]};                   // 1x1.5x3 diagonal, 1x1.5x3 triclinic, 3x1x1.5 diagonal, cubic triclinic (matrix only)
}
struct QField { const char *name; size_t begin, end; };
struct QResult {
  std::vector<double> v;  // type, 9 box entries, volume, [shortest dimension], 3 doubles per probe
  bool has_h = false;
  // first differing field
  const char *diff(const QResult &o) const {
    if (v.size() != o.v.size()) return "size";
    auto ne = [&](size_t a, size_t b) { return memcmp(&v[a], &o.v[a], (b - a) * sizeof(double)) != 0; };
    if (ne(0, 1)) return "box-type";
    if (ne(1, 10)) return "box-matrix";
    if (ne(10, 11)) return "volume";
    size_t k = 11;
    if (has_h) { if (ne(11, 12)) return "shortest-dimension"; k = 12; }
    if (ne(k, v.size())) return "connection-vector";
    return nullptr;
  }
  std::string field(const char *f) const {
    if (!strcmp(f, "box-type")) return bsx::fmt(v[0]);
    if (!strcmp(f, "volume")) return bsx::fmt(v[10]);
    if (!strcmp(f, "shortest-dimension")) return bsx::fmt(v[11]);
    if (!strcmp(f, "box-matrix")) { std::string s; for (int i = 1; i < 10; i++) s += bsx::fmt(v[i]) + " "; return s; }
    return "(vectors)";
  }
};
static QResult query_bc(const BoundaryCondition &b, const std::vector<Probe> &pr, bool with_h) {
  QResult q; q.has_h = with_h;
  q.v.push_back((double)b.getBoxType());
  for (int i = 0; i < 9; i++) q.v.push_back(b.getBox().data()[i]);
  q.v.push_back(b.BoxVolume());
  if (with_h) q.v.push_back(b.getShortestBoxDimension());
  for (auto &p : pr) { Eigen::Vector3d r = b.BCShortestConnection(ev(p.ri), ev(p.rj)); q.v.insert(q.v.end(), {r[0], r[1], r[2]}); }
  return q;
}
static QResult query_top(Topology &t, const std::vector<Probe> &pr, bool with_h) {
  QResult q; q.has_h = with_h;
  q.v.push_back((double)t.getBoxType());
  for (int i = 0; i < 9; i++) q.v.push_back(t.getBox().data()[i]);
  q.v.push_back(t.BoxVolume());
  if (with_h) q.v.push_back(t.ShortestBoxSize());
  for (auto &p : pr) {
    Eigen::Vector3d r = t.BCShortestConnection(ev(p.ri), ev(p.rj));
    if (t.BeadCount() >= 2) { t.getBead(0)->setPos(ev(p.ri)); t.getBead(1)->setPos(ev(p.rj)); r += 0.0 * t.getDist(0, 1); if (memcmp(r.data(), t.getDist(0, 1).data(), 24) != 0) r[0] = -1e300; }
    q.v.insert(q.v.end(), {r[0], r[1], r[2]});
  }
  return q;
}
struct Live {
  int cfg = -1, parent = -1;
  const char *origin = "original";
  bool source_was_queried = false, own_setbox = false, was_copied = false, queried = false;
  std::unique_ptr<BoundaryCondition> bc;  // class level
  std::unique_ptr<Topology> top;          // topology level
};
static std::unique_ptr<BoundaryCondition> make_bc(int cls) {
  if (cls == 0) return std::make_unique<OrthorhombicBox>();
  if (cls == 1) return std::make_unique<TriclinicBox>();
  return std::make_unique<OpenBox>();
}
template <class T> static std::unique_ptr<BoundaryCondition> copy_ctor(const BoundaryCondition &s) { return std::unique_ptr<BoundaryCondition>(new T(static_cast<const T &>(s))); }
template <class T> static void copy_assign(BoundaryCondition &d, const BoundaryCondition &s) { static_cast<T &>(d) = static_cast<const T &>(s); }
static std::unique_ptr<Topology> make_top() {
  auto t = std::make_unique<Topology>();
  t->CreateBead(Bead::spherical, "A", "A", 1, 1.0, 0.0);
  t->CreateBead(Bead::spherical, "B", "A", 1, 1.0, 0.0);
  return t;
}
static const char *COPYCLS[4] = {"OrthorhombicBox", "TriclinicBox", "OpenBox", "Topology"};
// ops: 0..3 setBox(config), 4 Q, 5 K, 6 C, 7 F, 8 U, 9 B
static const char *OPN[10] = {"s0", "s1", "s2", "s3", "Q", "K", "C", "F", "U", "B"};
static std::string opsstr(const std::vector<int> &ops) { std::string s; for (size_t i = 0; i < ops.size(); i++) s += (i ? "," : "") + std::string(OPN[ops[i]]); return s; }
// returns false through `valid` when the op sequence is not applicable (B at the original, K/C on a Topology, first op not a setBox)
static Verdict check_copy_history(int cls, const std::vector<int> &ops, bool &valid) {
  Verdict V;
  valid = true;
  bool istop = cls == 3;
  std::vector<Box> cfg = copy_configs(istop);
  std::vector<std::vector<Probe>> probes;
  for (auto &c : cfg) probes.push_back(copy_probes(c));
  std::vector<Live> live(1);
  if (istop) live[0].top = make_top(); else live[0].bc = make_bc(cls);
  size_t cur = 0;
  std::string hist = opsstr(ops);
  auto expected = [&](int c) {
    if (istop) { auto t = make_top(); apply_box(*t, cfg[c]); return query_top(*t, probes[c], !cfg[c].open()); }
    auto b = make_bc(cls); b->setBox(cfg[c].mat()); return query_bc(*b, probes[c], cls != 2);
  };
  auto check = [&](size_t i, const char *when) {
    Live &o = live[i];
    QResult got = istop ? query_top(*o.top, probes[o.cfg], !cfg[o.cfg].open()) : query_bc(*o.bc, probes[o.cfg], cls != 2);
    QResult exp = expected(o.cfg);
    const char *d = got.diff(exp);
    bool firstq = !o.queried;
    o.queried = true;
    if (!d) return true;
    V.ok = false;
    // class level: the key also says whether the source had been queried before the copy, whether the object got a box of its own afterwards and
    // whether it has itself been copied (the inputs a cache / hand-written copy operation could depend on); Topology level: origin + field only
    V.key = std::string("copyhist-") + COPYCLS[cls] + "-" + o.origin;
    if (!istop) V.key += std::string(o.source_was_queried ? "-of-queried-source" : "") + (o.own_setbox ? "-after-own-setbox" : "") + (o.was_copied ? "-after-being-copied" : "");
    else if (o.own_setbox) V.key += "-after-own-setbox";
    V.key += std::string("-") + d;
    V.what = std::string(COPYCLS[cls]) + " history [" + hist + "]: object #" + std::to_string(i) + " (" + o.origin + ", current box = config " + std::to_string(o.cfg) + " " + cfg[o.cfg].pretty() + ") " + when +
             (firstq ? " (its first query)" : "") + ": " + d + " = " + got.field(d) + ", a fresh object with that box gives " + exp.field(d);
    return false;
  };
  for (size_t k = 0; k < ops.size(); k++) {
    int op = ops[k];
    if (k == 0 && op > 3) { valid = false; return V; }
    if (op <= 3) {
      if (istop) apply_box(*live[cur].top, cfg[op]); else live[cur].bc->setBox(cfg[op].mat());
      live[cur].cfg = op;
      if (live[cur].parent >= 0 || live[cur].was_copied) live[cur].own_setbox = true;
    } else if (op == 4) {
      if (!check(cur, "queried inside the history")) return V;
    } else if (op == 9) {
      if (live[cur].parent < 0) { valid = false; return V; }
      cur = (size_t)live[cur].parent;
    } else {
      if (istop && (op == 5 || op == 6)) { valid = false; return V; }
      Live n;
      n.parent = (int)cur; n.cfg = live[cur].cfg; n.source_was_queried = live[cur].queried;
      int other = (live[cur].cfg + 1) % (int)cfg.size();
      if (istop) {
        n.top = std::make_unique<Topology>();
        n.origin = op == 7 ? "copytopologydata-into-fresh" : "copytopologydata-into-used";
        if (op == 8) { apply_box(*n.top, cfg[other]); (void)query_top(*n.top, probes[other], !cfg[other].open()); }
        n.top->CopyTopologyData(live[cur].top.get());
      } else {
        const BoundaryCondition &src = *live[cur].bc;
        if (op == 5) { n.bc = src.Clone(); n.origin = "clone"; }
        else if (op == 6) { n.bc = cls == 0 ? copy_ctor<OrthorhombicBox>(src) : cls == 1 ? copy_ctor<TriclinicBox>(src) : copy_ctor<OpenBox>(src); n.origin = "copy-constructed"; }
        else {
          n.bc = make_bc(cls);
          n.origin = op == 7 ? "copy-assigned-fresh" : "copy-assigned-used";
          if (op == 8) { n.bc->setBox(cfg[other].mat()); (void)query_bc(*n.bc, probes[other], cls != 2); }
          if (cls == 0) copy_assign<OrthorhombicBox>(*n.bc, src); else if (cls == 1) copy_assign<TriclinicBox>(*n.bc, src); else copy_assign<OpenBox>(*n.bc, src);
        }
      }
      live[cur].was_copied = true;
      live.push_back(std::move(n));
      cur = live.size() - 1;
    }
  }
  // final check: every live object, in creation order
  for (size_t i = 0; i < live.size(); i++)
    if (!check(i, "queried at the end")) return V;
  std::string sig = std::string(COPYCLS[cls]) + "|";
  for (auto &o : live) sig += std::string(o.origin) + ":" + std::to_string(o.cfg) + ";";
  V.cls = bsx::fnv(sig);
  return V;
}

static Verdict run_case(const std::string &cas) {
  auto m = bsx::kvs(cas);
  if (cas.rfind("copyhist;", 0) == 0) {
    std::vector<int> ops;
    for (auto &t : bsx::split(m["ops"], ',')) for (int i = 0; i < 10; i++) if (t == OPN[i]) ops.push_back(i);
    bool valid = true;
    return check_copy_history(atoi(m["cls"].c_str()), ops, valid);
  }
  if (cas.rfind("reuse;", 0) == 0) {
    std::vector<int> seq;
    for (auto &t : bsx::split(m["seq"], ',')) seq.push_back(atoi(t.c_str()));
    return check_reuse(atoi(m["kind"].c_str()), seq, m["use"] == "1");
  }
  Ctx cx;
  Box bx = parse_box(m["box"], atoi(m["mode"].c_str()));
  apply_box(cx.top, bx);
  if (cas.rfind("box;", 0) == 0) return check_box(cx, bx);
  Case c;
  c.box = bx;
  auto p3 = [](const std::string &s) { auto f = bsx::split(s, ','); return D3{unhex(f[0]), unhex(f[1]), unhex(f[2])}; };
  auto i3 = [](const std::string &s) { auto f = bsx::split(s, ','); return I3{atoi(f[0].c_str()), atoi(f[1].c_str()), atoi(f[2].c_str())}; };
  c.ri0 = p3(m["ri"]); c.rj0 = p3(m["rj"]); c.ni = i3(m["ni"]); c.nj = i3(m["nj"]); c.via_getdist = m["gd"] == "1";
  LD margin = 1e-9L * bx.lmax();
  L3 D0 = {(LD)c.rj0[0] - (LD)c.ri0[0], (LD)c.rj0[1] - (LD)c.ri0[1], (LD)c.rj0[2] - (LD)c.ri0[2]};
  RefMin ref;
  LD hmin = 0;
  if (!bx.open()) { ref = brute(bx, D0, margin); hmin = ref_height(bx); }
  return check_case(cx, c, ref, hmin, margin);
}

int main(int argc, char **argv) {
  bsx::Args a = bsx::parse(argc, argv);
  if (a.has_case) {
    Verdict v = run_case(a.cas);
    if (v.ok) { printf("case holds\n"); return 0; }
    printf("case FAILS: key=%s %s\n", v.key.c_str(), v.what.c_str());
    return 3;
  }
  bool thorough = a.tier == "thorough";
  bsx::Report R;
  R.property = "C02"; R.part = "minimg"; R.tier = a.tier;

  // ---- alphabets (all dyadic, so ties are exact)
  const std::vector<double> edges = {1.0, 1.5, 3.0};
  const std::vector<double> tilts = thorough ? std::vector<double>{-0.5, -0.375, -0.25, -0.125, 0.0, 0.125, 0.25, 0.375, 0.5} : std::vector<double>{-0.5, 0.0, 0.25, 0.5};
  const std::vector<double> fb = {0.0, 0.125, 0.375, 0.5, 0.625, 0.875, 1.0};                     // base lattice (7 per axis)
  const std::vector<double> fd = {0.0, 0.125, 0.375, 0.5, 0.5 + 1.0 / 1048576.0, 0.625, 0.875, 1.0};  // difference lattice (8 per axis)
  // fine difference lattice (sixteenths, 15 per axis) used by level C (thorough only)
  const std::vector<double> fd15 = {0.0, 0.0625, 0.125, 0.1875, 0.25, 0.3125, 0.375, 0.4375, 0.5, 0.5 + 1.0 / 1048576.0, 0.5625, 0.625, 0.75, 0.875, 1.0};
  const std::vector<int> offs = thorough ? std::vector<int>{0, 1, -1, 2, -2, 3, -3, 1000, -1000, 65536, -65536} : std::vector<int>{0, 1, -1, 2, -2, 1000, -1000};
  const std::vector<int> offs2 = thorough ? std::vector<int>{0, 1, -1, 1000, -1000} : offs;  // alphabet of the offsets with two non-zero components
  std::vector<I3> off1, two;  // <=1 non-zero component; exactly 2 non-zero components
  for (int i : offs) for (int j : offs) for (int k : offs)
    if ((i != 0) + (j != 0) + (k != 0) <= 1) off1.push_back({i, j, k});
  for (int i : offs2) for (int j : offs2) for (int k : offs2)
    if ((i != 0) + (j != 0) + (k != 0) == 2) two.push_back({i, j, k});
  const std::vector<D3> base4 = thorough ? std::vector<D3>{{0, 0, 0}, {1, 1, 1}, {0.875, 0.125, 0.375}}   // (the centre is the base point of the explicitly typed runs)
                                         : std::vector<D3>{{0, 0, 0}, {0.5, 0.5, 0.5}, {1, 1, 1}, {0.875, 0.125, 0.375}};
  const std::vector<D3> base2 = {{0, 0, 0}, {0.875, 0.125, 0.375}};

  std::vector<Box> boxes;
  auto add_modes = [&](Box b) {
    b.mode = 0; boxes.push_back(b);
    b.mode = 1; boxes.push_back(b);
    if (b.diagonal()) { b.mode = 2; boxes.push_back(b); }
  };
  for (double ax : edges) for (double by : edges) for (double cz : edges)
    for (double tb : tilts) for (double tc : tilts) for (double td : tilts) {
      Box b; b.ax = ax; b.by = by; b.cz = cz; b.bx = tb * ax; b.cx = tc * ax; b.cy = td * by;
      add_modes(b);
    }
  // second edge family (thorough): edges {0.75,2,5}^3 x tilt factors {-1/2,0,3/8}^3
  if (thorough)
    for (double ax : {0.75, 2.0, 5.0}) for (double by : {0.75, 2.0, 5.0}) for (double cz : {0.75, 2.0, 5.0})
      for (double tb : {-0.5, 0.0, 0.375}) for (double tc : {-0.5, 0.0, 0.375}) for (double td : {-0.5, 0.0, 0.375}) {
        Box b; b.ax = ax; b.by = by; b.cz = cz; b.bx = tb * ax; b.cx = tc * ax; b.cy = td * by;
        add_modes(b);
      }
  // tiny tilts: still triclinic (auto detection must not treat them as zero)
  for (auto e : std::vector<std::array<double, 3>>{{1, 1, 1}, {1, 1.5, 3}})
    for (int which = 0; which < 3; which++)
      for (double t : {1e-3, -1e-6}) {
        Box b; b.ax = e[0]; b.by = e[1]; b.cz = e[2];
        (which == 0 ? b.bx : which == 1 ? b.cx : b.cy) = t;
        add_modes(b);
      }
  { Box z; z.mode = 0; boxes.push_back(z); }                                                         // zero matrix -> open
  { Box b; b.ax = 1; b.by = 1.5; b.cz = 3; b.mode = 3; boxes.push_back(b); }                        // explicitly open, diagonal matrix
  { Box b; b.ax = 1.5; b.by = 1; b.cz = 3; b.bx = 0.375; b.cx = -0.75; b.cy = 0.5; b.mode = 3; boxes.push_back(b); }
  // representative boxes that get the full 7^3 base lattice and the two-component offsets (level B)
  auto levelB = [&](const Box &b) {
    if (b.mode != 0) return false;
    if (b.open()) return true;
    bool cubic1 = b.ax == 1 && b.by == 1 && b.cz == 1, mixed = b.ax == 1 && b.by == 1.5 && b.cz == 3, mixed2 = b.ax == 3 && b.by == 1 && b.cz == 1.5;
    if (!(cubic1 || mixed || mixed2)) return false;
    if (thorough) return cubic1 || mixed;  // thorough: every tilt combination of the 1x1x1 and the 1x1.5x3 box
    double tb = b.bx / b.ax, tc = b.cx / b.ax, td = b.cy / b.by;
    auto is = [&](double x, double y, double z) { return tb == x && tc == y && td == z; };
    return is(0, 0, 0) || is(0.5, 0.5, 0.5) || is(-0.5, 0.5, -0.5) || is(0.25, 0, 0) || is(0, -0.5, 0.25) || is(0.5, 0, 0.5) || is(0.25, 0.25, 0.25) || is(0, 0, -0.5);
  };

  if (!thorough)
    R.rule = "boxes = edges {1,1.5,3}^3 x tilt factors {-1/2,0,1/4,1/2}"
           "^3 (b_x=t*a_x, c_x=t*a_x, c_y=t*b_y: all GROMACS-reduced incl. the boundary) + 12 tiny-tilt boxes (1e-3, -1e-6) + zero matrix + 2 explicitly open; "
           "each auto-detected and explicitly typed (diagonal ones also typed triclinic). Points: level A (every box): 4 base points x 8^3 differences "
           "(fractions {0,1/8,3/8,1/2,1/2+2^-20,5/8,7/8,1}) x whole-box offsets of either point with <=1 non-zero component from {0,+-1,+-2,+-1000} "
           "(explicitly typed boxes: 1 base point); level B (<=24 representative auto-detected boxes + open): full 7^3 base lattice x 8^3 differences via Topology::getDist, "
           "and 4 bases x 8^3 differences x offsets with <=2 non-zero components. ";
  else
    R.rule = "boxes = edges {1,1.5,3}^3 x tilt factors {-1/2,-3/8,-1/4,-1/8,0,1/8,1/4,3/8,1/2}^3 (b_x=t*a_x, c_x=t*a_x, c_y=t*b_y: all GROMACS-reduced incl. the boundary, negative tilts, "
           "all single-tilt boxes) + edges {0.75,2,5}^3 x tilts {-1/2,0,3/8}^3 + 12 tiny-tilt boxes (1e-3, -1e-6) + zero matrix + 2 explicitly open; each auto-detected and explicitly typed "
           "(diagonal ones also typed triclinic). Points: level A (every box): 3 base points (explicitly typed: the centre) x 8^3 differences (fractions {0,1/8,3/8,1/2,1/2+2^-20,5/8,7/8,1}) x whole-box offsets of "
           "either point with <=1 non-zero component from {0,+-1,+-2,+-3,+-1000,+-65536}; level B (all 729 tilt combinations of the 1x1x1 and 1x1.5x3 boxes + open): full 7^3 base lattice x 8^3 differences via "
           "Topology::getDist, and 3 bases x 8^3 differences x offsets with 2 non-zero components from {+-1,+-1000}; level C (all 729 tilt combinations of the 3x1x1.5 box): 2 bases x 15^3 differences "
           "(sixteenths + 1/2+2^-20) x the level-A offsets. ";
  R.rule += "Copy histories: every operation sequence of length <= " + std::string(thorough ? "5" : "4") + " starting with a setBox over the alphabet {setBox(config 0..3), query-all (box type, matrix, BoxVolume, "
           "getShortestBoxDimension, BCShortestConnection on 54 probes), Clone(), copy construction, copy-assignment into a fresh / a previously used object, back to the source} on ONE OrthorhombicBox / TriclinicBox / OpenBox and its "
           "copies, and {Topology::setBox(config, type mode), query-all, CopyTopologyData into a fresh / a used Topology, back to the source} on ONE Topology and its copies: at every query inside the history and for every live "
           "object at its end the answers must equal bitwise those of a fresh object given only that object's current box (a copy carries the source's box; copying never changes the source). ";
  R.rule += "Reuse histories: every sequence of 2" + std::string(thorough ? " and 3" : "") + " setBox calls over 7 configurations (diagonal auto, triclinic auto, zero matrix, diagonal typed triclinic, "
           "triclinic matrix typed open, triclinic explicit, cubic typed orthorhombic) on ONE Topology, and on one OrthorhombicBox / TriclinicBox / OpenBox object (plus its Clone): box type, matrix, BoxVolume, "
           "ShortestBoxSize and BCShortestConnection/getDist on 750 probe pairs must equal bitwise those of a fresh object given only the last box. ";
  R.rule += "Oracle: integer-combination residual, membership in the set of "
           "brute-force (7^3 images, long double) minimisers within 1e-9 (ties accept any), sign flip on swap, shift invariance; outside the guaranteed "
           "range (triclinic, distance >= half shortest height) only integer-combination, invariance and antisymmetry up to rounding ties. "
           "BoxVolume/ShortestBoxSize vs independent long double formulas. distinct_nontrivial = distinct (box class, type mode, selected image vector, demanded) + distinct (volume,height)";
  R.assumptions = {
      "tolerance 64*DBL_EPSILON*max(|coordinate|,edge) on vectors (derived from the number of roundings), 1e-12 relative on volume/height",
      "images whose length is within 1e-9*edge of the minimum are ties: any of them is accepted, and on ties only membership (not a particular vector) is demanded",
      "outside the guaranteed range 'unchanged to rounding' means: equal to the answer of the code for some input within 1e-9*edge (27 axis/diagonal perturbations)",
      "the box type chosen by auto detection is not itself asserted, only the resulting distances",
      "ShortestBoxSize of the zero (open) box is not defined by the statement and not checked"};

  // level C (thorough): fine difference lattice for every tilt combination of the 3x1x1.5 box
  auto levelC = [&](const Box &b) { return thorough && b.mode == 0 && b.ax == 3 && b.by == 1 && b.cz == 1.5; };
  // all type modes of one box matrix go to the same shard (balances the cheap explicit-type runs against the auto runs)
  std::vector<long long> group(boxes.size());
  { long long g = -1; for (size_t i = 0; i < boxes.size(); i++) { if (boxes[i].mode == 0 || boxes[i].mode == 3) g++; group[i] = g; } }
  Ctx cx;
  std::map<std::string, long long> per;
  long long shown = 0;
  for (size_t bi = 0; bi < boxes.size(); bi++) {
    if (!a.mine(group[bi])) continue;
    const Box &bx = boxes[bi];
    apply_box(cx.top, bx);
    {
      Verdict v = check_box(cx, bx);
      R.eval();
      if (!v.ok) R.fail(v.key, v.what, "box;box=" + bx.str() + ";mode=" + std::to_string(bx.mode));
      else if (v.cls) R.cls(v.cls);
    }
    LD margin = 1e-9L * bx.lmax();
    LD hmin = bx.open() ? 0 : ref_height(bx);
    bool lb = levelB(bx);
    const std::vector<D3> &bases = bx.mode == 0 ? base4 : std::vector<D3>{{0.5, 0.5, 0.5}};
    auto run = [&](const D3 &fbase, const D3 &fdiff, const std::vector<I3> &offsets, bool gd, bool only_zero) {
      Case c;
      c.box = bx; c.via_getdist = gd;
      c.ri0 = place(bx, fbase);
      D3 dd = place(bx, fdiff);
      c.rj0 = {c.ri0[0] + dd[0], c.ri0[1] + dd[1], c.ri0[2] + dd[2]};
      L3 D0 = {(LD)c.rj0[0] - (LD)c.ri0[0], (LD)c.rj0[1] - (LD)c.ri0[1], (LD)c.rj0[2] - (LD)c.ri0[2]};
      RefMin ref;
      if (!bx.open()) ref = brute(bx, D0, margin);
      for (int side = 0; side < 2; side++)
        for (const I3 &n : offsets) {
          bool z = n == I3{{0, 0, 0}};
          if (side == 1 && z) continue;  // zero offset only once
          if (only_zero && !z) continue;
          c.ni = side == 0 ? I3{{0, 0, 0}} : n;
          c.nj = side == 0 ? n : I3{{0, 0, 0}};
          Verdict v = check_case(cx, c, ref, hmin, margin);
          R.eval();
          per[bx.cls()]++;
          if (!v.ok) R.fail(v.key, v.what, c.str());
          else {
            R.cls(v.cls);
            if (shown < 6 && !z && ref.cands.size() == 1 && (R.evaluations % 7919) == 17) {
              shown++;
              Eigen::Vector3d r = call(cx, shifted(bx, c.ri0, c.ni), shifted(bx, c.rj0, c.nj), gd);
              R.sample(c.pretty() + " -> " + vs(r) + " |r|=" + bsx::fmt(r.norm()) + " reference min " + bsx::fmt((double)ref.dmin));
            }
          }
        }
    };
    for (const D3 &fbase : bases)
      for (double x : fd) for (double y : fd) for (double z : fd) run(fbase, {x, y, z}, off1, false, false);
    if (lb) {
      for (double p : fb) for (double q : fb) for (double r : fb)
        for (double x : fd) for (double y : fd) for (double z : fd) run({p, q, r}, {x, y, z}, off1, true, true);
      for (const D3 &fbase : base4)
        for (double x : fd) for (double y : fd) for (double z : fd) run(fbase, {x, y, z}, two, false, false);  // offsets not covered by level A
      R.counters["levelB_boxes"]++;
    }
    if (levelC(bx)) {
      for (const D3 &fbase : base2)
        for (double x : fd15) for (double y : fd15) for (double z : fd15) run(fbase, {x, y, z}, off1, false, false);
      R.counters["levelC_boxes"]++;
    }
    R.counters["boxes"]++;
  }
  // ---- copy histories: all op sequences up to length 4 (thorough 5) per class and for Topology
  {
    long long ji = 0;
    int maxlen = thorough ? 5 : 4;
    for (int cls = 0; cls < 4; cls++)
      for (int len = 1; len <= maxlen; len++) {
        std::vector<int> idx(len, 0), radix(len, 10);
        radix[len - 1] = 4;  // the first op (most significant digit) is a setBox
        do {
          std::vector<int> ops(idx.rbegin(), idx.rend());
          if (!a.mine(ji++)) continue;
          bool valid = true;
          Verdict v = check_copy_history(cls, ops, valid);
          if (!valid) continue;
          R.eval();
          R.counters[std::string("copy_histories_") + COPYCLS[cls]]++;
          if (!v.ok) R.fail(v.key, v.what, "copyhist;cls=" + std::to_string(cls) + ";ops=" + opsstr(ops));
          else R.cls(v.cls);
        } while (bsx::next(idx, radix));
      }
  }
  // ---- reuse histories (all sequences of 2, thorough also of 3, of the 7 reuse configurations; 4 object kinds)
  {
    long long ji = 0;
    size_t ncfg = reuse_configs().size();
    for (int len = 2; len <= (thorough ? 3 : 2); len++) {
      std::vector<int> idx(len, 0), radix(len, (int)ncfg);
      do {
        std::vector<int> seq(idx.rbegin(), idx.rend());
        for (int kind = 0; kind < 4; kind++)
          for (int use = 0; use < 2; use++) {
            if (!a.mine(ji++)) continue;
            Verdict v = check_reuse(kind, seq, use == 1);
            R.eval();
            R.counters[kind == 0 ? "reuse_histories_topology_setbox" : "reuse_histories_boundarycondition"]++;
            if (!v.ok) R.fail(v.key + (use ? "-queried-in-between" : ""), v.what, "reuse;kind=" + std::to_string(kind) + ";use=" + std::to_string(use) + ";seq=" + seqstr(seq));
            else R.cls(v.cls + (uint64_t)use);
          }
      } while (bsx::next(idx, radix));
    }
  }
  for (auto &kv : per) R.counters["cases_" + kv.first] = kv.second;
  R.counters["tie_cases"] = cx.ties;
  R.counters["outside_guaranteed_range"] = cx.not_demanded;
  R.counters["rounding_tie_rule_invoked"] = cx.perturb_used;
  if (!R.write(a.out)) { fprintf(stderr, "cannot write %s\n", a.out.c_str()); return 2; }
  return 0;
}
