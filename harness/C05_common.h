// C05_common.h — stub topology/trajectory readers and the logging CsgApplication shared by the
// controlled-scheduler driver (C05_ring.cc) and the free-running ThreadSanitizer pass (C05_race.cc).
#pragma once
#include "vsched/vsched.h"
#include "votca/csg/csgapplication.h"
#include "votca/csg/topologyreader.h"
#include "votca/csg/trajectoryreader.h"

using namespace votca::csg;
using votca::Index;

enum { EV_READ_ENTER = 1, EV_READ_EXIT, EV_EVAL_ENTER, EV_EVAL_EXIT, EV_MERGE_ENTER, EV_MERGE_EXIT, EV_MERGED, EV_BEGIN, EV_END, EV_FINAL, EV_RC, EV_TORN };

static int g_frames_in_file = 0;

class StubTop : public TopologyReader {
 public:
  bool ReadTopology(std::string, Topology &top) override {
    top.Cleanup();
    top.CreateResidue("R");
    if (!top.BeadTypeExist("A")) top.RegisterBeadType("A");
    top.CreateBead(Bead::spherical, "b0", "A", 0, 1.0, 0.0);
    top.setBox(Eigen::Matrix3d::Identity() * 10.0);
    return true;
  }
};

// The reader keeps a cursor like a real file reader does: a frame is "read" by taking the cursor,
// (scheduling point), then advancing it — so two overlapping readers are observable as a duplicate.
class StubTrj : public TrajectoryReader {
 public:
  bool Open(const std::string &) override { cursor_ = 0; return true; }
  void Close() override {}
  bool FirstFrame(Topology &top) override { return NextFrame(top); }
  bool NextFrame(Topology &top) override {
    vs_log(EV_READ_ENTER, cursor_, 0);
    long c = cursor_;
    vs_yield(100);
    if (c >= g_frames_in_file) {
      vs_log(EV_READ_EXIT, -1, 0);
      return false;
    }
    top.setStep((Index)(c + 1));
    top.setTime(double(c + 1));
    top.getBead(0)->setPos(Eigen::Vector3d(double(c + 1), 0, 0));
    vs_yield(101);
    cursor_ = c + 1;
    vs_log(EV_READ_EXIT, c + 1, 0);
    return true;
  }
 private:
  long cursor_ = 0;
};

class App : public CsgApplication {
 public:
  bool ordered = true;
  std::vector<long> merged;
  std::string ProgramName() override { return "c05_driver"; }
  void HelpText(std::ostream &) override {}
  void Initialize() override {
    CsgApplication::Initialize();
    if (!TopReaderFactory().IsRegistered("vtop")) TopReaderFactory().Register<StubTop>("vtop");
    if (!TrjReaderFactory().IsRegistered("vtrj")) TrjReaderFactory().Register<StubTrj>("vtrj");
  }
  bool DoTrajectory() override { return true; }
  bool DoThreaded() override { return true; }
  bool SynchronizeThreads() override { return ordered; }
  void BeginEvaluate(Topology *, Topology *) override { vs_log(EV_BEGIN, 0, 0); }
  void EndEvaluate() override {
    vs_log(EV_END, 0, 0);
    for (long f : merged) vs_log(EV_FINAL, f, 0);
  }
  class W : public CsgApplication::Worker {
   public:
    std::vector<long> frames;
    void EvalConfiguration(Topology *top, Topology *) override {
      long f = (long)top->getStep();
      vs_log(EV_EVAL_ENTER, getId(), f);
      if (top->getBead(0)->getPos().x() != double(f)) vs_log(EV_TORN, getId(), f);
      vs_yield(200);
      frames.push_back(f);
      vs_log(EV_EVAL_EXIT, getId(), f);
    }
  };
  std::unique_ptr<CsgApplication::Worker> ForkWorker() override { return std::make_unique<W>(); }
  void MergeWorker(CsgApplication::Worker *w) override {
    W *ww = static_cast<W *>(w);
    vs_log(EV_MERGE_ENTER, ww->getId(), (long)ww->frames.size());
    size_t n0 = merged.size();
    vs_yield(300);
    // read-modify-write of the shared result with a scheduling point inside: an overlap loses data
    std::vector<long> m(merged.begin(), merged.begin() + n0);
    for (long f : ww->frames) { m.push_back(f); vs_log(EV_MERGED, ww->getId(), f); }
    ww->frames.clear();
    vs_yield(301);
    merged = m;
    vs_log(EV_MERGE_EXIT, ww->getId(), 0);
  }
};

