// C05 side condition — free-running ThreadSanitizer pass.
// The controlled scheduler (C05_ring) serialises threads, and its hand-offs are happens-before
// edges that would blind a race detector; so the SAME driver bodies are run here free-running
// (real pthreads, no scheduler) against ThreadSanitizer-instrumented libvotca_csg/libvotca_tools.
// A data race on state of CsgApplication (frame budget, first-frame flag, reader, ...) is reported
// by TSan and turned into a failure (mutex-misuse reports are switched off: the token rings unlock a
// mutex from another thread than the one that locked it by design, which is not what is checked here).  This pass backs the assumption "scheduling points at
// synchronisation operations suffice"; it is not the deciding step.
#include <sched.h>
#include <signal.h>
#include <sys/wait.h>
#include <unistd.h>

#include <atomic>

#include "bsx.h"
#include "C05_common.h"

// ---- stubs of the vsched API: no scheduler, and no synchronisation that could hide a race
static std::atomic<int> g_nev{0};
extern "C" {
void vs_yield(int) { sched_yield(); }
void vs_log(int, int64_t, int64_t) { g_nev.fetch_add(1, std::memory_order_relaxed); }
int vs_active(void) { return 0; }
int vs_tid(void) { return -1; }
}

// VOTCA's token rings release a mutex from a thread that did not lock it.  The kernel hands the mutex
// (and with it the happens-before edge) to the next locker all the same, but ThreadSanitizer ignores
// an unlock by a non-owner, so it would report everything the rings protect.  Make the edge explicit:
// every unlock is a release, every lock an acquire on the mutex address, whoever the owner is.
#include <dlfcn.h>
extern "C" {
void __tsan_acquire(void *addr);
void __tsan_release(void *addr);
typedef int (*mfn)(pthread_mutex_t *);
int pthread_mutex_lock(pthread_mutex_t *m) {
  static mfn real = (mfn)dlsym(RTLD_NEXT, "pthread_mutex_lock");
  int rc = real(m);
  __tsan_acquire(m);
  return rc;
}
int pthread_mutex_unlock(pthread_mutex_t *m) {
  static mfn real = (mfn)dlsym(RTLD_NEXT, "pthread_mutex_unlock");
  __tsan_release(m);
  return real(m);
}
}

struct Cfg { int nt, F, ff, N; bool ord; };
static std::string cfgstr(const Cfg &c) {
  return "nt=" + std::to_string(c.nt) + ";F=" + std::to_string(c.F) + ";ff=" + std::to_string(c.ff) + ";N=" + std::to_string(c.N) +
         ";ord=" + (c.ord ? "1" : "0");
}

static int run_once(const Cfg &c, std::string &report) {
  int fd[2];
  if (pipe(fd) != 0) return -1;
  fflush(stdout); fflush(stderr);
  pid_t pid = fork();
  if (pid == 0) {
    close(fd[0]);
    dup2(fd[1], 2);  // TSan reports go to stderr
    alarm(180);      // a free-running run takes milliseconds; a run that hangs (deadlock) ends with SIGALRM and is reported as such
    if (!freopen("/dev/null", "w", stdout)) {}
    g_frames_in_file = c.F;
    std::vector<std::string> av{"c05_race", "--top", "x.vtop", "--trj", "x.vtrj", "--nt", std::to_string(c.nt), "--first-frame", std::to_string(c.ff)};
    if (c.N >= 0) { av.push_back("--nframes"); av.push_back(std::to_string(c.N)); }
    std::vector<char *> argv;
    for (auto &s : av) argv.push_back(const_cast<char *>(s.c_str()));
    App app;
    app.ordered = c.ord;
    int rc = app.Exec((int)argv.size(), argv.data());
    _exit(rc == 0 ? 0 : 1);  // TSan overrides the status with its exitcode when it has reported
  }
  close(fd[1]);
  char buf[8192];
  ssize_t r;
  while ((r = read(fd[0], buf, sizeof buf)) > 0) if (report.size() < 6000) report.append(buf, (size_t)r);
  close(fd[0]);
  int st = 0;
  waitpid(pid, &st, 0);
  return WIFEXITED(st) ? WEXITSTATUS(st) : 128 + WTERMSIG(st);
}

int main(int argc, char **argv) {
  bsx::Args a = bsx::parse(argc, argv);
  setenv("TSAN_OPTIONS", "exitcode=66 halt_on_error=0 report_signal_unsafe=0 report_mutex_bugs=0 history_size=4", 1);
  auto parse = [](const std::string &s) {
    auto m = bsx::kvs(s);
    return Cfg{atoi(m["nt"].c_str()), atoi(m["F"].c_str()), atoi(m["ff"].c_str()), atoi(m["N"].c_str()), m["ord"] == "1"};
  };
  int reps = a.tier == "thorough" ? 40 : 10;
  if (a.has_case) {
    Cfg c = parse(a.cas);
    for (int i = 0; i < 3 * reps; i++) {
      std::string rep;
      int rc = run_once(c, rep);
      if (rep.find("ThreadSanitizer: data race") != std::string::npos) { printf("case FAILS: ThreadSanitizer report\n%s\n", rep.substr(0, 3000).c_str()); return 3; }
      if (rc != 0 && rc != 66) { printf("case FAILS: free-running run ended with status %d%s\n", rc, rc == 128 + SIGALRM ? " (hang: killed by the 180 s watchdog)" : ""); return 3; }
    }
    printf("case holds (%d free-running repetitions without a ThreadSanitizer report)\n", 3 * reps);
    return 0;
  }
  bsx::Report R;
  R.property = "C05"; R.part = "race"; R.tier = a.tier;
  R.rule = "side condition, not exhaustive by nature: the driver bodies of C05_ring run free-running (no scheduler) against ThreadSanitizer-instrumented "
           "libvotca_csg/libvotca_tools for nt in {2,3,4} x frames x --nframes x ordered/unordered, " + std::to_string(reps) +
           " repetitions each; any ThreadSanitizer data-race report is a failure. distinct_nontrivial = configurations exercised";
  long long i = 0;
  for (int ord = 1; ord >= 0; ord--)
    for (int nt : {2, 3, 4})
      for (int F : {1, 3, 6})
        for (int N : {-1, 2}) {
          Cfg c{nt, F, 0, N, ord == 1};
          if (!a.mine(i++)) continue;
          bool reported = false;
          for (int k = 0; k < reps && !reported; k++) {
            std::string rep;
            int rc = run_once(c, rep);
            R.eval();
            if (rep.find("ThreadSanitizer: data race") != std::string::npos) {
              reported = true;
              std::string first = rep.substr(0, rep.find("\n\n") == std::string::npos ? 600 : std::min<size_t>(rep.find("\n\n"), 900));
              R.fail(std::string(c.ord ? "ordered" : "unordered") + "-data-race", "ThreadSanitizer: " + first, cfgstr(c));
            } else if (rc != 0 && rc != 66) {
              R.fail(std::string(c.ord ? "ordered" : "unordered") + (rc == 128 + SIGALRM ? "-free-running-hang" : "-free-running-failure"),
                     (rc == 128 + SIGALRM ? std::string("run did not finish within 180 s (deadlock); ") : std::string()) + "exit status " + std::to_string(rc) + " " + rep.substr(0, 300), cfgstr(c));
              reported = true;
            }
          }
          if (!reported) R.cls(cfgstr(c));
          if (R.samples.size() < 4) R.sample(cfgstr(c) + " x " + std::to_string(reps) + " free-running runs: no ThreadSanitizer report");
        }
  R.exhaustive = false;
  R.caps.push_back("free-running schedules are sampled by the OS scheduler (side condition for the exhaustive exploration, see DESIGN §1)");
  R.assumptions = {"ThreadSanitizer sees every access of the instrumented libraries; stub readers/evaluator as in C05_ring"};
  if (!R.write(a.out)) return 2;
  return 0;
}
