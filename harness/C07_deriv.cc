// C07 — every analytic derivative equals the derivative of its value function.
// Three families, all enumerated completely over a stated lattice and compared with central
// finite differences (three step sizes, two Richardson levels; the difference of the two
// Richardson values plus the rounding bound eps*|f|/h is the tolerance floor):
//   b  IBond / IAngle / IDihedral (interaction.h, header compiled into this harness):
//      Grad == numerical gradient of EvaluateVar, sum of gradients == 0, value/gradient
//      invariant/covariant under rigid motions and invariant under periodic image shifts.
//   p  PotentialFunctionLJ126 / LJG / CBSPL: CalculateDF / CalculateD2F == numerical parameter
//      derivatives of CalculateF, D2F symmetric;   t  SavePotTab rows == CalculateF on the grid.
//   s  LinSpline / CubicSpline / AkimaSpline (Interpolate and Fit): CalculateDerivative ==
//      d/dx Calculate inside every knot interval.
#include <cfloat>
#include <functional>
#include <stdexcept>

#include "C12_sets.h"
#include "C12_ophist.h"
#include "bsx.h"
#include "votca/csg/interaction.h"
#include "votca/csg/potentialfunctions/potentialfunctioncbspl.h"
#include "votca/csg/potentialfunctions/potentialfunctionlj126.h"
#include "votca/csg/potentialfunctions/potentialfunctionljg.h"
#include "votca/csg/topology.h"
#include "votca/tools/table.h"

using namespace votca::csg;
using votca::Index;
using bsx::fmt;
typedef Eigen::Vector3d V3;

struct Res {
  std::vector<std::pair<std::string, std::string>> fails;
  std::vector<std::string> classes;
  long long checks = 0;
  std::string sample;
  double maxtol = 0;  // largest tolerance that had to be granted (reported as evidence)
  void fail(const std::string &k, const std::string &w) { fails.push_back({k, w}); }
};

// ------------------------------------------------------------------ finite differences
struct ND { double val, err; };
static const double EPS = DBL_EPSILON;

// first derivative of f at 0 (f takes the displacement)
static ND d1(const std::function<double(double)> &f, double h) {
  double fm = 0, D[3];
  for (int k = 0; k < 3; k++) {
    double a = f(h), b = f(-h);
    fm = std::max({fm, std::fabs(a), std::fabs(b)});
    D[k] = (a - b) / (2 * h);
    h /= 2;
  }
  double r1 = (4 * D[1] - D[0]) / 3, r2 = (4 * D[2] - D[1]) / 3;
  return {r2, std::fabs(r2 - r1) + 8 * EPS * fm / (h * 2)};
}
// second derivative d2f/dx2 at 0
static ND d2diag(const std::function<double(double)> &f, double h) {
  double f0 = f(0), fm = std::fabs(f0), D[3];
  for (int k = 0; k < 3; k++) {
    double a = f(h), b = f(-h);
    fm = std::max({fm, std::fabs(a), std::fabs(b)});
    D[k] = (a - 2 * f0 + b) / (h * h);
    h /= 2;
  }
  double r1 = (4 * D[1] - D[0]) / 3, r2 = (4 * D[2] - D[1]) / 3;
  return {r2, std::fabs(r2 - r1) + 16 * EPS * fm / (4 * h * h)};
}
// mixed second derivative d2f/dxdy at 0
static ND d2mixed(const std::function<double(double, double)> &f, double h) {
  double fm = 0, D[3];
  for (int k = 0; k < 3; k++) {
    double a = f(h, h), b = f(h, -h), c = f(-h, h), d = f(-h, -h);
    fm = std::max({fm, std::fabs(a), std::fabs(b), std::fabs(c), std::fabs(d)});
    D[k] = (a - b - c + d) / (4 * h * h);
    h /= 2;
  }
  double r1 = (4 * D[1] - D[0]) / 3, r2 = (4 * D[2] - D[1]) / 3;
  return {r2, std::fabs(r2 - r1) + 16 * EPS * fm / (16 * h * h)};
}

static std::vector<double> nums(const std::string &s) {
  std::vector<double> v;
  if (s.empty()) return v;
  for (auto &t : bsx::split(s, ',')) v.push_back(strtod(t.c_str(), nullptr));
  return v;
}
static std::string dstr(double v) {
  char b[40];
  snprintf(b, sizeof b, "%.10g", v);
  return b;
}

// ------------------------------------------------------------------ b: bonded interactions
static const double PI = 3.14159265358979323846;

// Off-diagonal-pattern boxes "od:<a_x>,<b_y>,<c_z>:<b_x>,<c_x>,<c_y>:<auto|ortho|tric>": the three GROMACS-reduced off-diagonal elements are
// given explicitly (any of them may be exactly 0), the last field says how the box type reaches Topology::setBox (auto = typeAuto, the
// auto-detection decides; ortho / tric = given explicitly).
struct OdBox { bool is = false; Eigen::Matrix3d m = Eigen::Matrix3d::Zero(); std::string mode, pat; };
static OdBox odbox(const std::string &b) {
  OdBox o;
  if (b.compare(0, 3, "od:") != 0) return o;
  auto f = bsx::split(b, ':');
  if (f.size() != 4) throw std::runtime_error("harness: malformed od box " + b);
  auto e = nums(f[1]), s = nums(f[2]);
  if (e.size() != 3 || s.size() != 3 || (f[3] != "auto" && f[3] != "ortho" && f[3] != "tric")) throw std::runtime_error("harness: malformed od box " + b);
  o.is = true; o.mode = f[3];
  o.m.col(0) = V3(e[0], 0, 0); o.m.col(1) = V3(s[0], e[1], 0); o.m.col(2) = V3(s[1], s[2], e[2]);
  const char *nm[3] = {"bx", "cx", "cy"};
  for (int k = 0; k < 3; k++) if (s[k] != 0) o.pat += (o.pat.empty() ? "" : "+") + std::string(nm[k]);
  if (o.pat.empty()) o.pat = "none";
  if (o.mode == "ortho" && o.pat != "none") throw std::runtime_error("harness: explicit orthorhombic type for a sheared box " + b);
  // the minimum image must be unambiguous and the reduction c, b, a of the real code valid: GROMACS conditions
  if (!(e[0] > 0 && e[1] > 0 && e[2] > 0 && 2 * std::fabs(s[0]) <= e[0] && 2 * std::fabs(s[1]) <= e[0] && 2 * std::fabs(s[2]) <= e[1]))
    throw std::runtime_error("harness: od box is not GROMACS-reduced " + b);
  return o;
}
static Eigen::Matrix3d boxmat(const std::string &b) {
  Eigen::Matrix3d m = Eigen::Matrix3d::Zero();
  if (b.compare(0, 3, "od:") == 0) return odbox(b).m;
  if (b == "cubic") m.diagonal() << 8, 8, 8;
  else if (b == "ortho") m.diagonal() << 10, 12, 14;
  else if (b == "tric") { m.col(0) = V3(10, 0, 0); m.col(1) = V3(2, 12, 0); m.col(2) = V3(1, 3, 14); }
  else if (b == "tric2") { m.col(0) = V3(9, 0, 0); m.col(1) = V3(-3, 11, 0); m.col(2) = V3(2, -4, 12); }
  else if (b == "big") m.diagonal() << 25, 30, 40;
  // triclinic boxes whose c vector has a large y component of either sign (|c_y| up to ~b_y/2): the number of b images
  // must be taken from the c-reduced difference; bonds <= 2 in the 6-boxes, <= 1 in the 4-boxes keep every component < half a box
  else if (b == "tricP") { m.col(0) = V3(6, 0, 0); m.col(1) = V3(1.5, 6, 0); m.col(2) = V3(1, 2.5, 6); }
  else if (b == "tricN") { m.col(0) = V3(6, 0, 0); m.col(1) = V3(-1.5, 6, 0); m.col(2) = V3(-1, -2.5, 6); }
  else if (b == "tric4") { m.col(0) = V3(4, 0, 0); m.col(1) = V3(1, 4, 0); m.col(2) = V3(0.5, 1.5, 4); }
  else if (b == "tric4n") { m.col(0) = V3(4, 0, 0); m.col(1) = V3(-1, 4, 0); m.col(2) = V3(-0.5, -1.5, 4); }
  return m;
}
static void motion(int k, Eigen::Matrix3d &R, V3 &t) {
  R = Eigen::Matrix3d::Identity(); t = V3::Zero();
  switch (k) {
    case 0: break;
    case 1: t = V3(1.5, -2.25, 0.75); break;
    case 2: R = Eigen::AngleAxisd(PI / 2, V3::UnitZ()).toRotationMatrix(); break;
    case 3: R << 0, 0, 1, 1, 0, 0, 0, 1, 0; break;  // 120 degrees about (1,1,1)
    case 4: R = Eigen::AngleAxisd(0.7, V3(1, 2, 3).normalized()).toRotationMatrix(); t = V3(0.25, 1.0, -0.5); break;
    case 5: R = Eigen::AngleAxisd(2.1, V3(-2, 1, 0.5).normalized()).toRotationMatrix(); t = V3(-3, 0.5, 4); break;
    case 6: R = Eigen::AngleAxisd(PI, V3(1, 0, 1).normalized()).toRotationMatrix(); t = V3(0.5, 0.5, 0.5); break;
    case 7: R = Eigen::AngleAxisd(1.3, V3::UnitX()).toRotationMatrix(); t = V3(10, -20, 5); break;
    case 8: R = Eigen::AngleAxisd(3.0, V3(0.2, -1, 0.4).normalized()).toRotationMatrix(); break;
    case 9: R = Eigen::AngleAxisd(-0.4, V3::UnitY()).toRotationMatrix(); t = V3(-0.125, 7, -2.5); break;
  }
}
struct Geo { std::string kind; double l[3] = {1, 1, 1}, th[2] = {90, 90}, phi = 0; int nb = 2; };
static std::vector<V3> build(const Geo &g) {
  const V3 O(0.3, -0.2, 0.1);
  std::vector<V3> p;
  if (g.kind == "bond") {
    p = {O, O + g.l[0] * V3(1, 0, 0)};
  } else if (g.kind == "angle") {
    double t = g.th[0] * PI / 180;
    p = {O + g.l[0] * V3(1, 0, 0), O, O + g.l[1] * V3(cos(t), sin(t), 0)};
  } else {
    double t1 = g.th[0] * PI / 180, t2 = g.th[1] * PI / 180, ph = g.phi * PI / 180;
    V3 p1 = O, p2 = O + g.l[1] * V3(1, 0, 0);
    V3 p0 = p1 + g.l[0] * V3(cos(t1), sin(t1), 0);
    V3 p3 = p2 + g.l[2] * V3(-cos(t2), sin(t2) * cos(ph), sin(t2) * sin(ph));
    p = {p0, p1, p2, p3};
  }
  return p;
}
struct BEval { double v; std::vector<V3> g; };
struct Rig {
  Topology top;
  std::unique_ptr<Interaction> ia;
  int nb;
  Rig(const std::string &kind, const Eigen::Matrix3d &box, BoundaryCondition::eBoxtype type = BoundaryCondition::typeAuto) {
    nb = kind == "bond" ? 2 : (kind == "angle" ? 3 : 4);
    for (int i = 0; i < nb; i++) top.CreateBead(Bead::spherical, "b" + std::to_string(i), "C", 1, 1.0, 0.0);
    top.setBox(box, type);
    if (nb == 2) ia = std::make_unique<IBond>(0, 1);
    else if (nb == 3) ia = std::make_unique<IAngle>(0, 1, 2);
    else ia = std::make_unique<IDihedral>(0, 1, 2, 3);
  }
  void place(const std::vector<V3> &p) { for (int i = 0; i < nb; i++) top.getBead(i)->setPos(p[i]); }
  double value(const std::vector<V3> &p) { place(p); return ia->EvaluateVar(top); }
  BEval eval(const std::vector<V3> &p) {
    place(p);
    BEval e; e.v = ia->EvaluateVar(top);
    for (int i = 0; i < nb; i++) e.g.push_back(ia->Grad(top, i));
    return e;
  }
};
static std::string v3s(const V3 &v) { return "(" + dstr(v[0]) + "," + dstr(v[1]) + "," + dstr(v[2]) + ")"; }

static void run_bonded(std::map<std::string, std::string> &m, Res &R) {
  Geo g; g.kind = m["kind"];
  auto l = nums(m["l"]), th = nums(m["th"]);
  for (size_t i = 0; i < l.size() && i < 3; i++) g.l[i] = l[i];
  for (size_t i = 0; i < th.size() && i < 2; i++) g.th[i] = th[i];
  g.phi = strtod(m["phi"].c_str(), nullptr);
  std::string box = m["box"];
  int mot = atoi(m["mot"].c_str());
  Eigen::Matrix3d B = boxmat(box);
  OdBox od = odbox(box);
  // key suffix of the image-shift checks: the named box, or for the od boxes the zero/non-zero pattern of (b_x,c_x,c_y) and how the type was given
  std::string boxkey = od.is ? "shear-" + od.pat + "-" + (od.mode == "auto" ? "auto" : "explicit-" + od.mode) : box;
  BoundaryCondition::eBoxtype btype = BoundaryCondition::typeAuto;
  if (od.is && od.mode == "ortho") btype = BoundaryCondition::typeOrthorhombic;
  if (od.is && od.mode == "tric") btype = BoundaryCondition::typeTriclinic;
  Rig rig(g.kind, B, btype);
  int nb = rig.nb;
  std::vector<V3> base = build(g);
  auto moved = [&](int k) {
    Eigen::Matrix3d Rm; V3 t; motion(k, Rm, t);
    std::vector<V3> p; for (auto &q : base) p.push_back(Rm * q + t);
    return p;
  };
  int sb = -1; V3 shiftv = V3::Zero();
  if (m["sh"] != "none" && !m["sh"].empty()) {
    auto f = bsx::split(m["sh"], ':');
    sb = atoi(f[0].c_str());
    shiftv = B.col(0) * atof(f[1].c_str()) + B.col(1) * atof(f[2].c_str()) + B.col(2) * atof(f[3].c_str());
  }
  std::vector<V3> p = moved(mot);
  std::vector<V3> unshifted = p;
  if (sb >= 0) p[sb] += shiftv;
  BEval e = rig.eval(p);
  std::string K = g.kind == "bond" ? "ibond" : (g.kind == "angle" ? "iangle" : "idihedral");
  bool finite = std::isfinite(e.v);
  for (auto &gv : e.g) finite = finite && gv.allFinite();
  if (!finite) { R.fail(K + "-nonfinite", "value or gradient not finite, value=" + fmt(e.v)); return; }
  double gmax = 0; for (auto &gv : e.g) gmax = std::max(gmax, gv.cwiseAbs().maxCoeff());

  // (1) value against the constructed geometry (sign convention of the dihedral left open)
  {
    double expect = g.kind == "bond" ? g.l[0] : (g.kind == "angle" ? g.th[0] * PI / 180 : std::fabs(g.phi) * PI / 180);
    double got = g.kind == "dihedral" ? std::fabs(e.v) : e.v;
    R.checks++;
    if (std::fabs(got - expect) > 1e-9) R.fail(K + "-value", "EvaluateVar=" + fmt(e.v) + " for constructed " + fmt(expect));
  }
  // (2) analytic gradient vs numerical gradient, bead by bead
  for (int b = 0; b < nb; b++) {
    V3 num, err;
    for (int c = 0; c < 3; c++) {
      ND d = d1([&](double dx) { std::vector<V3> q = p; q[b][c] += dx; return rig.value(q); }, 1.0 / 1024);
      num[c] = d.val; err[c] = d.err;
    }
    double worst = 0, tolw = 0; bool bad = false;
    for (int c = 0; c < 3; c++) {
      double tol = 8 * err[c] + 1e-9 * (1 + std::fabs(num[c]));
      R.maxtol = std::max(R.maxtol, tol);
      R.checks++;
      double diff = std::fabs(e.g[b][c] - num[c]);
      if (!(diff <= tol)) { bad = true; if (diff > worst) { worst = diff; tolw = tol; } }
    }
    if (bad) {
      std::string key = K + "-grad-bead" + std::to_string(b);
      if (g.kind == "angle" && b == 0) key += g.l[0] != g.l[1] ? "-unequal-bond-lengths" : "-equal-bond-lengths";
      if (g.kind == "angle" && b == 2) key += g.th[0] != 90 ? "-angle-not-90" : "-angle-90";
      R.fail(key, "Grad(bead " + std::to_string(b) + ")=" + v3s(e.g[b]) + " but numerical gradient of EvaluateVar=" + v3s(num) +
                      " (|diff| " + dstr(worst) + " > tol " + dstr(tolw) + ")");
    }
  }
  // (3) the gradients of one interaction sum to zero
  {
    V3 s = V3::Zero(); for (auto &gv : e.g) s += gv;
    R.checks++;
    if (s.cwiseAbs().maxCoeff() > 1e-10 * (1 + gmax)) {
      std::string key = K + "-gradsum";
      if (g.kind == "angle") key += (g.l[0] != g.l[1] || g.th[0] != 90) ? "-unequal-lengths-or-not-90" : "-equal-lengths-90";
      R.fail(key, "sum of bead gradients = " + v3s(s));
    }
  }
  // (4) rigid motion: value invariant, gradient co-rotates (reference: identity motion, same box, same image shift)
  if (mot != 0) {
    Eigen::Matrix3d Rm; V3 t; motion(mot, Rm, t);
    std::vector<V3> p0 = moved(0);
    if (sb >= 0) p0[sb] += shiftv;
    BEval e0 = rig.eval(p0);
    R.checks += 2;
    if (std::fabs(e.v - e0.v) > 1e-11 * (1 + std::fabs(e0.v)))
      R.fail(K + "-rigid-motion-value", "value " + fmt(e.v) + " after motion " + std::to_string(mot) + " vs " + fmt(e0.v));
    for (int b = 0; b < nb; b++) {
      V3 d = e.g[b] - Rm * e0.g[b];
      if (d.cwiseAbs().maxCoeff() > 1e-9 * (1 + gmax)) {
        R.fail(K + "-rigid-motion-grad", "Grad(bead " + std::to_string(b) + ")=" + v3s(e.g[b]) + " but rotated reference gradient " + v3s(Rm * e0.g[b]));
        break;
      }
    }
  }
  // (5) periodic image shift of one bead: value and gradient unchanged
  if (sb >= 0) {
    BEval eu = rig.eval(unshifted);
    R.checks += 2;
    if (std::fabs(e.v - eu.v) > 1e-11 * (1 + std::fabs(eu.v)))
      R.fail(K + "-image-shift-value-" + boxkey, "value " + fmt(e.v) + " with bead " + std::to_string(sb) + " shifted by a box vector vs " + fmt(eu.v));
    for (int b = 0; b < nb; b++) {
      V3 d = e.g[b] - eu.g[b];
      if (d.cwiseAbs().maxCoeff() > 1e-9 * (1 + gmax)) {
        R.fail(K + "-image-shift-grad-" + boxkey, "Grad(bead " + std::to_string(b) + ")=" + v3s(e.g[b]) + " vs unshifted " + v3s(eu.g[b]));
        break;
      }
    }
  }
  char buf[64]; snprintf(buf, sizeof buf, "%.6f", e.v);
  R.classes.push_back(K + ":" + buf);
  R.sample = "value=" + dstr(e.v) + " Grad(bead0)=" + v3s(e.g[0]);
}

// ------------------------------------------------------------------ p,t: potential functions
struct PF {
  std::unique_ptr<PotentialFunction> f;
  std::string form;
  double mn, cut;
  int nopt = 0;
  std::vector<double> lam;
};
static PF makepf(std::map<std::string, std::string> &m) {
  PF P; P.form = m["f"]; P.mn = strtod(m["min"].c_str(), nullptr); P.cut = strtod(m["cut"].c_str(), nullptr);
  P.lam = nums(m["lam"]);
  if (P.form == "lj126") P.f = std::make_unique<PotentialFunctionLJ126>("x", P.mn, P.cut);
  else if (P.form == "ljg") P.f = std::make_unique<PotentialFunctionLJG>("x", P.mn, P.cut);
  else {
    int nk = atoi(m["nk"].c_str());
    P.f = std::make_unique<PotentialFunctionCBSPL>("x", nk, P.mn, P.cut);
  }
  P.nopt = (int)P.f->getOptParamSize();
  if (m["lam"] == "default") {  // the freshly constructed object, no parameter ever set
    P.lam.clear();
    for (int i = 0; i < P.nopt; i++) P.lam.push_back(P.f->getOptParam(i));
    return P;
  }
  if ((int)P.lam.size() != P.nopt) throw std::runtime_error("parameter count does not match getOptParamSize");
  if (P.form == "cbspl") {  // excluded / cut-off coefficients get fixed values, the optimised ones the alphabet
    Eigen::VectorXd full = Eigen::VectorXd::Zero(P.f->getParamSize());
    int nexcl = (int)P.f->getParamSize() - 4 - P.nopt;
    for (int i = 0; i < nexcl; i++) full(i) = 3.0 - 0.5 * i;
    P.f->setParam(full);
  }
  for (int i = 0; i < P.nopt; i++) P.f->setOptParam(i, P.lam[i]);
  return P;
}
static void run_potfun(std::map<std::string, std::string> &m, Res &R) {
  PF P = makepf(m);
  PotentialFunction &f = *P.f;
  std::string K = P.form;
  std::vector<double> rs;
  int nr = m.count("nr") ? atoi(m["nr"].c_str()) : 9;
  for (int k = 0; k < nr; k++) rs.push_back(k == nr - 1 ? P.cut : P.mn + k * (P.cut - P.mn) / (nr - 1));
  if (P.form == "cbspl") {  // spline breaks, and their floating-point neighbours
    int nbreak = (int)f.getParamSize() - 2;
    for (int k = 1; k < nbreak - 1; k++) {
      double rk = double(k) * (P.cut / double(nbreak - 1));
      if (rk < P.mn) continue;
      rs.push_back(rk); rs.push_back(std::nextafter(rk, 0.0)); rs.push_back(std::nextafter(rk, 10.0));
    }
  }
  std::string sig;
  for (double r : rs) {
    double F0 = f.CalculateF(r);
    if (!std::isfinite(F0)) { R.fail(K + "-nonfinite", "CalculateF(" + fmt(r) + ") not finite"); return; }
    char buf[48]; snprintf(buf, sizeof buf, "%.6g;", F0); sig += buf;
    for (int i = 0; i < P.nopt; i++) {
      double li = f.getOptParam(i);
      ND n1 = d1([&](double d) { f.setOptParam(i, li + d); double v = f.CalculateF(r); f.setOptParam(i, li); return v; }, 1.0 / 64);
      double a = f.CalculateDF(i, r);
      double tol = 8 * n1.err + 1e-10 * (1 + std::fabs(n1.val));
      R.maxtol = std::max(R.maxtol, tol / (1 + std::fabs(F0)));
      R.checks++;
      if (!(std::fabs(a - n1.val) <= tol))
        R.fail(K + "-DF-param" + std::to_string(i), "CalculateDF(" + std::to_string(i) + ", r=" + dstr(r) + ")=" + fmt(a) +
                                                          " but numerical dF/dlambda=" + fmt(n1.val) + " (tol " + dstr(tol) + ")");
      for (int j = 0; j < P.nopt; j++) {
        double lj = f.getOptParam(j);
        ND n2;
        if (i == j)
          n2 = d2diag([&](double d) { f.setOptParam(i, li + d); double v = f.CalculateF(r); f.setOptParam(i, li); return v; }, 1.0 / 16);
        else
          n2 = d2mixed([&](double d, double e2) {
            f.setOptParam(i, li + d); f.setOptParam(j, lj + e2);
            double v = f.CalculateF(r);
            f.setOptParam(i, li); f.setOptParam(j, lj);
            return v; }, 1.0 / 16);
        double a2 = f.CalculateD2F(i, j, r), a2t = f.CalculateD2F(j, i, r);
        {  // D2F(i,j) is also the derivative of the reported DF(i) w.r.t. parameter j
          ND n3 = d1([&](double d) { f.setOptParam(j, lj + d); double v = f.CalculateDF(i, r); f.setOptParam(j, lj); return v; }, 1.0 / 64);
          double tol3 = 8 * n3.err + 1e-9 * (1 + std::fabs(n3.val));
          R.checks++;
          if (!(std::fabs(a2 - n3.val) <= tol3))
            R.fail(K + "-D2F-vs-dDF-param" + std::to_string(i) + "-" + std::to_string(j),
                   "CalculateD2F(" + std::to_string(i) + "," + std::to_string(j) + ", r=" + dstr(r) + ")=" + fmt(a2) + " but numerical d(CalculateDF(" +
                       std::to_string(i) + "))/dlambda_" + std::to_string(j) + "=" + fmt(n3.val) + " (tol " + dstr(tol3) + ")");
        }
        double tol2 = 8 * n2.err + 1e-9 * (1 + std::fabs(n2.val));
        R.checks += 2;
        if (!(std::fabs(a2 - n2.val) <= tol2))
          R.fail(K + "-D2F-param" + std::to_string(i) + "-" + std::to_string(j),
                 "CalculateD2F(" + std::to_string(i) + "," + std::to_string(j) + ", r=" + dstr(r) + ")=" + fmt(a2) +
                     " but numerical d2F=" + fmt(n2.val) + " (tol " + dstr(tol2) + ")");
        if (!(std::fabs(a2 - a2t) <= 1e-13 * (1 + std::fabs(a2))))
          R.fail(K + "-D2F-asymmetric", "D2F(" + std::to_string(i) + "," + std::to_string(j) + ")=" + fmt(a2) + " != D2F(j,i)=" + fmt(a2t) + " at r=" + dstr(r));
      }
    }
  }
  R.classes.push_back(K + ":" + sig);
  R.sample = "F on r-grid: " + sig;
}
static void run_pottab(std::map<std::string, std::string> &m, Res &R) {
  PF P = makepf(m);
  PotentialFunction &f = *P.f;
  std::string K = P.form;
  double step = strtod(m["step"].c_str(), nullptr);
  int ov = atoi(m["ov"].c_str());
  double rmin = ov == 1 ? P.mn : strtod(m["rmin"].c_str(), nullptr);
  double rcut = ov == 1 ? P.cut : strtod(m["rcut"].c_str(), nullptr);
  std::string fn = "c07_pot.tab";
  if (ov == 1) f.SavePotTab(fn, step); else f.SavePotTab(fn, step, rmin, rcut);
  votca::tools::Table t; t.Load(fn);
  long n = std::lround((rcut - rmin) / step) + 1;
  if (std::fabs((rcut - rmin) / step - double(n - 1)) > 1e-6) { R.fail("bad-case", "harness: range is not a multiple of the step"); return; }
  R.checks++;
  if ((long)t.size() != n) { R.fail(K + "-pottab-rows", "table has " + std::to_string(t.size()) + " rows, requested grid has " + std::to_string(n)); return; }
  std::string sig;
  for (long i = 0; i < n; i++) {
    double r = i == n - 1 ? rcut : rmin + double(i) * step;
    R.checks += 2;
    if (std::fabs(t.x(i) - r) > 1e-9 * std::max(1.0, std::fabs(r)))
      R.fail(K + "-pottab-grid", "row " + std::to_string(i) + " r=" + fmt(t.x(i)) + " requested " + fmt(r));
    // the function as reported after the table was written; tolerance = 10 printed digits of y and of r
    double F = f.CalculateF(r), Fa = f.CalculateF(r * (1 + 2e-9)), Fb = f.CalculateF(r * (1 - 2e-9));
    bool edge = i == 0 || i == n - 1;  // r*(1+-2e-9) leaves [min,cut] there
    double tol = 2e-9 * std::fabs(F) + (edge ? 5e-8 * std::fabs(F) : std::fabs(Fa - Fb)) + 1e-12;
    if (!(std::fabs(t.y(i) - F) <= tol))
      R.fail(K + "-pottab-value", "row " + std::to_string(i) + " r=" + dstr(r) + " tabulated " + fmt(t.y(i)) + " but CalculateF=" + fmt(F));
    char buf[48]; snprintf(buf, sizeof buf, "%.6g;", t.y(i)); sig += buf;
  }
  R.classes.push_back(K + "-tab:" + sig);
  R.sample = std::to_string(n) + " rows: " + sig.substr(0, 120);
}

// ------------------------------------------------------------------ s: splines
static void run_spline(std::map<std::string, std::string> &m, Res &R) {
  std::string type = m["t"], mode = m["mode"];
  bool per = m["bc"] == "per";
  c12::Vec x = c12::parsevec(m["x"]), y = c12::parsevec(m["y"]);
  auto sp = c12::make(type, per);
  std::string K = "spline-" + type + (per ? "-periodic-" : "-natural-") + mode;
  if (mode == "fit") {
    auto g = nums(m["fg"]);
    sp->GenerateGrid(g[0], g[2], g[1]);
    sp->Fit(c12::eig(x), c12::eig(y));
  } else
    sp->Interpolate(c12::eig(x), c12::eig(y));
  const Eigen::VectorXd &kn = sp->getX();
  std::string sig;
  for (Index j = 0; j + 1 < kn.size(); j++) {
    double h = kn[j + 1] - kn[j];
    for (double fr : {0.125, 0.5, 0.875}) {
      double r = kn[j] + fr * h;
      double a = sp->CalculateDerivative(r), v = sp->Calculate(r);
      if (!std::isfinite(a) || !std::isfinite(v)) { R.fail(K + "-nonfinite", "spline value/derivative not finite at " + fmt(r)); return; }
      ND n = d1([&](double d) { return sp->Calculate(r + d); }, h / 16);
      double tol = 8 * n.err + 1e-10 * (1 + std::fabs(n.val));
      R.maxtol = std::max(R.maxtol, tol);
      R.checks++;
      if (!(std::fabs(a - n.val) <= tol))
        R.fail(K + "-derivative", "CalculateDerivative(" + fmt(r) + ")=" + fmt(a) + " but d/dx Calculate=" + fmt(n.val) + " (interval " +
                                      std::to_string(j) + ", tol " + dstr(tol) + ")");
      char buf[48]; snprintf(buf, sizeof buf, "%.5g;", a); sig += buf;
    }
  }
  R.classes.push_back(type + ":" + sig);
  R.sample = "S' at interval points: " + sig.substr(0, 100);
}

// ------------------------------------------------------------------ h: operation histories on one spline object
static void run_hist(std::map<std::string, std::string> &m, Res &R) {
  std::string type = m["t"];
  bool every = m["mode"] == "A";
  auto ops = bsx::split(m["ops"], ',');
  auto sp = c12::make(type, false);
  oph::Model mod;
  std::string done, sig;
  for (size_t s = 0; s < ops.size(); s++) {
    if (!oph::apply(ops[s], type, *sp, mod)) { R.fail("bad-case", "harness: operation " + ops[s] + " not applicable after [" + done + "]"); return; }
    done += (done.empty() ? "" : ",") + ops[s];
    if (!(every || s + 1 == ops.size())) continue;
    std::string K = "ophist-" + type + "-after-" + mod.last + "-";
    std::string where = " (after " + done + ")";
    std::set<std::string> seen;
    auto fail = [&](const std::string &k, const std::string &w) { if (seen.insert(k).second) R.fail(K + k, w + where); };
    sig = oph::compare_with_fresh(type, *sp, mod, R.checks, fail);
    if (mod.kind == oph::Model::NONE) continue;
    // the reported derivative is the derivative of the reported value, on the object as it is now
    const Eigen::VectorXd &kn = sp->getX();
    for (Index j = 0; j + 1 < kn.size(); j++) {
      double h = kn[j + 1] - kn[j];
      for (double fr : {0.125, 0.5, 0.875}) {
        double r = kn[j] + fr * h, a = sp->CalculateDerivative(r);
        ND n = d1([&](double d) { return sp->Calculate(r + d); }, h / 16);
        double tol = 8 * n.err + 1e-10 * (1 + std::fabs(n.val));
        R.checks++;
        if (!(std::fabs(a - n.val) <= tol))
          fail("derivative-fd", "CalculateDerivative(" + fmt(r) + ")=" + fmt(a) + " but d/dx Calculate=" + fmt(n.val) + " (tol " + dstr(tol) + ")");
      }
    }
  }
  R.classes.push_back("h:" + type + ":" + mod.last + ":" + sig);
  R.sample = "final state after " + mod.last + ": S,S' at mid points " + sig.substr(0, 80);
}

static Res run_case(const std::string &cas) {
  Res R;
  auto m = bsx::kvs(cas);
  try {
    if (cas[0] == 'b') run_bonded(m, R);
    else if (cas[0] == 'p') run_potfun(m, R);
    else if (cas[0] == 't') run_pottab(m, R);
    else if (cas[0] == 's') run_spline(m, R);
    else if (cas[0] == 'h') run_hist(m, R);
    else R.fail("bad-case", "unknown case kind");
  } catch (const std::exception &e) {
    std::string fam = cas[0] == 'h' ? "ophist-" + m["t"] : cas[0] == 'b' ? m["kind"] : (cas[0] == 's' ? "spline-" + m["t"] + "-" + m["bc"] + "-" + m["mode"] : m["f"]);
    R.fail("exception-" + fam, std::string("exception: ") + e.what());
  }
  return R;
}

// ------------------------------------------------------------------ enumeration
static std::string join(const std::vector<std::string> &v) {
  std::string s; for (size_t i = 0; i < v.size(); i++) s += (i ? "," : "") + v[i]; return s;
}
// Cases are streamed: index i belongs to this shard iff a.mine(i); the enumeration order is the
// same in every shard.
struct CaseList {
  const bsx::Args &a;
  long long n = 0;
  std::function<void(const std::string &)> sink;
  explicit CaseList(const bsx::Args &aa) : a(aa) {}
  void push_back(const std::string &s) { if (a.mine(n)) sink(s); n++; }
};
static void all_cases(bool thorough, CaseList &C) {
  const std::vector<std::string> L = {"1", "0.5", "2"};
  std::vector<std::string> ANG; for (int a = 15; a <= 165; a += 15) ANG.push_back(std::to_string(a));
  // 90 first (simplest), then the rest
  std::stable_sort(ANG.begin(), ANG.end(), [](const std::string &a, const std::string &b) { return (a == "90") > (b == "90"); });
  std::vector<std::string> PHI; for (int a = -165; a <= 165; a += 30) PHI.push_back(std::to_string(a));
  std::vector<int> MOT = {0, 1, 2, 3, 4, 5};
  std::vector<std::string> SH = {"1:0:0", "0:-1:0", "0:0:1", "-1:1:-1"};
  auto variants = [&](const std::string &kind, int nb, const std::string &geo, bool full) {
    for (int mot : MOT) {
      C.push_back("b;kind=" + kind + ";" + geo + ";box=open;mot=" + std::to_string(mot) + ";sh=none");
      for (std::string box : {"cubic", "ortho", "tric"}) {
        C.push_back("b;kind=" + kind + ";" + geo + ";box=" + box + ";mot=" + std::to_string(mot) + ";sh=none");
        for (int b = 0; b < nb; b++)
          for (size_t s = 0; s < SH.size(); s++) {
            if (!full && (s + b) % 4 != 0) continue;  // reduced: one shift per bead, rotating through the four
            C.push_back("b;kind=" + kind + ";" + geo + ";box=" + box + ";mot=" + std::to_string(mot) + ";sh=" + std::to_string(b) + ":" + SH[s]);
          }
      }
    }
  };
  if (!thorough) {
  for (auto &l1 : L) variants("bond", 2, "l=" + l1, true);
  for (auto &l1 : L) for (auto &l2 : L) for (auto &a : ANG) variants("angle", 3, "l=" + l1 + "," + l2 + ";th=" + a, true);
  {
    std::vector<std::pair<std::string, std::string>> TH = {{"90", "90"}, {"60", "120"}, {"45", "135"}};
    for (auto &l1 : L) for (auto &l2 : L) for (auto &l3 : L) for (auto &t : TH) for (auto &ph : PHI)
      variants("dihedral", 4, "l=" + l1 + "," + l2 + "," + l3 + ";th=" + t.first + "," + t.second + ";phi=" + ph, true);
  }
  } else {
    // thorough lattice: bond lengths {0.5,0.8,1,1.5,2}, angles 10..170 step 2.5, dihedrals -165..165 step 15 (without 0),
    // dihedral bond angles {45,60,90,120,135,150}^2, 10 rigid motions, 5 boxes, 8 box-vector combinations per bead
    const std::vector<std::string> LB = {"1", "0.5", "2", "0.8", "1.5"}, LD = {"1", "0.5", "2", "0.8", "1.5"};
    std::vector<std::string> ANG2{"90"};
    for (int a2 = 20; a2 <= 340; a2 += 5) if (a2 != 180) ANG2.push_back(std::to_string(a2 / 2) + (a2 % 2 ? ".5" : ""));  // 10..170 step 2.5
    std::vector<std::string> PHI2; for (int a = -165; a <= 165; a += 15) if (a != 0) PHI2.push_back(std::to_string(a));
    const std::vector<std::string> BA = {"90", "60", "120", "45", "135", "150"};
    const std::vector<std::string> SH2 = {"1:0:0", "0:-1:0", "0:0:1", "-1:1:-1", "2:0:0", "0:0:-2", "1:1:0", "1:-1:1"};
    const std::vector<std::string> BOX2 = {"cubic", "ortho", "tric", "tric2", "big"};
    const std::vector<int> MALL = {0, 1, 2, 3, 4, 5, 6, 7, 8, 9}, MSUB = {0, 2, 4, 7, 8};
    auto deep = [&](const std::string &kind, int nb, const std::string &geo, const std::vector<int> &boxmot) {
      std::string head = "b;kind=" + kind + ";" + geo;
      for (int mot : MALL) C.push_back(head + ";box=open;mot=" + std::to_string(mot) + ";sh=none");
      for (int mot : boxmot)
        for (auto &box : BOX2) {
          std::string hb = head + ";box=" + box + ";mot=" + std::to_string(mot) + ";sh=";
          C.push_back(hb + "none");
          for (int b = 0; b < nb; b++) for (auto &sh : SH2) C.push_back(hb + std::to_string(b) + ":" + sh);
        }
    };
    for (auto &l1 : LB) deep("bond", 2, "l=" + l1, MALL);
    for (auto &l1 : LB) for (auto &l2 : LB) for (auto &a : ANG2) deep("angle", 3, "l=" + l1 + "," + l2 + ";th=" + a, MALL);
    for (auto &l1 : LD) for (auto &l2 : LD) for (auto &l3 : LD) for (auto &t1 : BA) for (auto &t2 : BA) for (auto &ph : PHI2)
      deep("dihedral", 4, "l=" + l1 + "," + l2 + "," + l3 + ";th=" + t1 + "," + t2 + ";phi=" + ph, MSUB);
  }
  // both tiers: image shifts along c (+-c, +-2c, and combinations with a and b) of every bead in triclinic boxes with c_y != 0 of
  // either sign, where (r_y + n_c c_y)/b_y rounds differently before and after the c reduction for a large part of the geometries
  {
    const std::vector<std::string> SHC = {"0:0:1", "0:0:-1", "0:0:2", "0:0:-2", "1:0:1", "0:1:-1", "-1:-1:2", "1:-1:-2"};
    auto cfam = [&](const std::string &kind, int nb, const std::string &geo, const std::vector<int> &mots, const std::vector<std::string> &boxes) {
      for (int mot : mots)
        for (auto &box : boxes) {
          std::string hb = "b;kind=" + kind + ";" + geo + ";box=" + box + ";mot=" + std::to_string(mot) + ";sh=";
          C.push_back(hb + "none");
          for (int b = 0; b < nb; b++) for (auto &sh : SHC) C.push_back(hb + std::to_string(b) + ":" + sh);
        }
    };
    const std::vector<int> M6 = {0, 1, 2, 3, 4, 5}, M2 = {0, 4};
    const std::vector<std::string> B6 = {"tricP", "tricN"}, B4 = {"tric4", "tric4n"}, LS = {"1", "0.5"};
    std::vector<std::pair<std::string, std::string>> TH = {{"90", "90"}, {"60", "120"}, {"45", "135"}};
    for (auto &l1 : L) cfam("bond", 2, "l=" + l1, M6, B6);
    for (auto &l1 : LS) cfam("bond", 2, "l=" + l1, M6, B4);
    for (auto &l1 : L) for (auto &l2 : L) for (auto &a : ANG) cfam("angle", 3, "l=" + l1 + "," + l2 + ";th=" + a, M6, B6);
    for (auto &l1 : LS) for (auto &l2 : LS) for (auto &a : ANG) cfam("angle", 3, "l=" + l1 + "," + l2 + ";th=" + a, M6, B4);
    for (auto &l1 : L) for (auto &l2 : L) for (auto &l3 : L) for (auto &t : TH) for (auto &ph : PHI)
      cfam("dihedral", 4, "l=" + l1 + "," + l2 + "," + l3 + ";th=" + t.first + "," + t.second + ";phi=" + ph, M2, B6);
    for (auto &l1 : LS) for (auto &l2 : LS) for (auto &l3 : LS) for (auto &t : TH) for (auto &ph : PHI)
      cfam("dihedral", 4, "l=" + l1 + "," + l2 + "," + l3 + ";th=" + t.first + "," + t.second + ";phi=" + ph, M2, B4);
  }
  // both tiers: the off-diagonal PATTERN of the box as a dimension. Every zero / + / - combination of the three GROMACS-reduced off-diagonal
  // elements (b_x, c_x, c_y): 3^3 = 27 sign vectors = the 2^3 = 8 zero/non-zero patterns with every sign combination (incl. all-zero =
  // orthorhombic), on two edge triples (6,6,6) and (5,6,7), box type left at auto AND given explicitly (orthorhombic and triclinic for the
  // all-zero pattern, triclinic for the sheared ones): 110 box configurations; unshifted and EVERY bead shifted by EVERY lattice vector
  // n_a a + n_b b + n_c c, n in {-2..2}^3 \ 0 (124). Bond lengths <= 2 keep every bond-vector component below half the box.
  {
    struct ET { std::string e; std::string mag[3]; };  // edges a_x,b_y,c_z and magnitudes of b_x, c_x, c_y (|b_x|,|c_x| <= a_x/2, |c_y| <= b_y/2)
    const std::vector<ET> ETS = {{"6,6,6", {"1.5", "1", "2.5"}}, {"5,6,7", {"1.25", "0.75", "2.75"}}};
    std::vector<std::string> ODB;
    for (int npat = 0; npat <= 3; npat++)  // simplest first: number of non-zero off-diagonal elements
      for (auto &et : ETS)
        for (int code = 0; code < 27; code++) {
          int d[3] = {code % 3, (code / 3) % 3, code / 9}, nz = 0;  // 0 zero, 1 +, 2 -
          std::string od;
          for (int k = 0; k < 3; k++) { nz += d[k] != 0; od += (k ? "," : "") + (d[k] == 0 ? std::string("0") : (d[k] == 1 ? "" : "-") + et.mag[k]); }
          if (nz != npat) continue;
          std::string b = "od:" + et.e + ":" + od + ":";
          ODB.push_back(b + "auto");
          if (nz == 0) ODB.push_back(b + "ortho");
          ODB.push_back(b + "tric");
        }
    std::vector<std::string> SHALL;
    for (int r = 1; r <= 2; r++)  // simplest first: max |n| = 1, then 2
      for (int na = -2; na <= 2; na++) for (int nb2 = -2; nb2 <= 2; nb2++) for (int nc = -2; nc <= 2; nc++)
        if (std::max({std::abs(na), std::abs(nb2), std::abs(nc)}) == r) SHALL.push_back(std::to_string(na) + ":" + std::to_string(nb2) + ":" + std::to_string(nc));
    auto odfam = [&](const std::string &kind, int nb, const std::string &geo, const std::vector<int> &mots) {
      for (int mot : mots)
        for (auto &box : ODB) {
          std::string hb = "b;kind=" + kind + ";" + geo + ";box=" + box + ";mot=" + std::to_string(mot) + ";sh=";
          C.push_back(hb + "none");
          for (int b = 0; b < nb; b++) for (auto &sh : SHALL) C.push_back(hb + std::to_string(b) + ":" + sh);
        }
    };
    const std::vector<int> M2 = {0, 4};
    if (!thorough) {
      for (auto &l1 : L) odfam("bond", 2, "l=" + l1, M2);
      for (std::string geo : {"l=1,1;th=90", "l=0.5,2;th=60", "l=2,1;th=135", "l=1,0.5;th=30"}) odfam("angle", 3, geo, M2);
      for (std::string geo : {"l=1,1,1;th=90,90;phi=75", "l=0.5,1,2;th=60,120;phi=-135", "l=2,0.5,1;th=45,135;phi=15", "l=1,2,0.5;th=60,120;phi=165"})
        odfam("dihedral", 4, geo, M2);
    } else {
      const std::vector<int> M6 = {0, 1, 2, 3, 4, 5};
      std::vector<std::pair<std::string, std::string>> TH = {{"90", "90"}, {"60", "120"}, {"45", "135"}};
      for (auto &l1 : L) odfam("bond", 2, "l=" + l1, M6);
      for (auto &l1 : L) for (auto &l2 : L) for (auto &a : ANG) odfam("angle", 3, "l=" + l1 + "," + l2 + ";th=" + a, M2);
      for (std::string ls : {"1,1,1", "0.5,1,2", "2,0.5,1"}) for (auto &t : TH) for (auto &ph : PHI)
        odfam("dihedral", 4, "l=" + ls + ";th=" + t.first + "," + t.second + ";phi=" + ph, M2);
    }
  }
  // potential functions
  {
    std::vector<std::pair<std::string, std::string>> RNG = {{"0.5", "1.5"}, {"0.3", "1.2"}};
    std::vector<std::string> LC12 = {"1", "0.5", "2"}, LC6 = {"1", "0.5", "2"};
    std::vector<std::string> C12 = {"1", "0.5", "2"}, C6 = {"1", "0.5", "2"}, A = {"0.5", "-1", "2"}, W = {"2", "0.5", "8"}, R0 = {"0.8", "0.4", "1.1"};
    std::string nr = "";
    if (thorough) {
      RNG.push_back({"0.8", "2.5"});
      LC12 = {"1", "0.5", "2", "0.1", "10"}; LC6 = LC12;
      A.push_back("-0.25"); W.push_back("4"); R0.push_back("1.6");
      nr = ";nr=17";
    }
    // SavePotTab configurations per range: (step, overload, rmin, rcut); every range is a multiple of the step
    struct TC { std::string step; int ov; std::string rmin, rcut; };
    auto tabs = [&](const std::string &mn, bool lj) {
      std::vector<TC> v;
      if (mn == "0.5") {
        if (lj) v = {{"0.1", 1, "", ""}, {"0.1", 2, "0.25", "1.75"}, {"0.25", 1, "", ""}, {"0.25", 2, "0.25", "1.75"}};
        else v = {{"0.1", 1, "", ""}, {"0.05", 2, "0.5", "1.5"}};
        if (thorough) { v.push_back({"0.05", 1, "", ""}); v.push_back({"0.02", 1, "", ""}); v.push_back({"0.125", 2, "0.25", "1.75"}); }
      } else if (mn == "0.3") {
        if (lj) v = {{"0.1", 1, "", ""}, {"0.1", 2, "0.2", "1.2"}, {"0.15", 1, "", ""}, {"0.15", 2, "0.15", "1.2"}};
        else v = {{"0.1", 1, "", ""}, {"0.05", 2, "0.3", "1.2"}};
        if (thorough) { v.push_back({"0.05", 1, "", ""}); v.push_back({"0.03", 1, "", ""}); }
      } else {
        v = {{"0.1", 1, "", ""}, {"0.05", 1, "", ""}, {"0.25", 2, "0.5", "2.5"}, {"0.1", 2, "0.8", "2.5"}};
      }
      return v;
    };
    auto tabstr = [&](const std::string &base, const TC &t) {
      return "t;" + base + ";step=" + t.step + ";ov=" + std::to_string(t.ov) + (t.ov == 2 ? ";rmin=" + t.rmin + ";rcut=" + t.rcut : "");
    };
    std::vector<std::string> tabcases;
    for (auto &rg : RNG) {
      for (auto &a : LC12) for (auto &b : LC6) {
        std::string base = "f=lj126;min=" + rg.first + ";cut=" + rg.second + ";lam=" + a + "," + b;
        C.push_back("p;" + base + nr);
        for (auto &t : tabs(rg.first, true)) tabcases.push_back(tabstr(base, t));
      }
      for (auto &a : C12) for (auto &b : C6) for (auto &c : A) for (auto &d : W) for (auto &e : R0) {
        std::string base = "f=ljg;min=" + rg.first + ";cut=" + rg.second + ";lam=" + a + "," + b + "," + c + "," + d + "," + e;
        C.push_back("p;" + base + nr);
        if (a == "1" && b == "1") for (auto &t : tabs(rg.first, false)) tabcases.push_back(tabstr(base, t));
      }
    }
    // cubic B-spline: (knots, min, cut) -> number of optimised coefficients 5, 6 and 7
    struct CB { std::string nk, mn, cut; int nopt; };
    std::vector<CB> CBS = {{"10", "0", "1", 5}, {"12", "0.24", "1.2", 6}, {"12", "0", "1.2", 7}};
    const std::vector<std::string> CA = {"0.5", "-1", "2"};
    for (auto &cb : CBS) {
      if (cb.nopt >= 6 && !thorough) continue;
      std::vector<int> idx(cb.nopt, 0), radix(cb.nopt, 3);
      do {
        std::vector<std::string> lam; for (int k = 0; k < cb.nopt; k++) lam.push_back(CA[idx[k]]);
        std::string base = "f=cbspl;nk=" + cb.nk + ";min=" + cb.mn + ";cut=" + cb.cut + ";lam=" + join(lam);
        C.push_back("p;" + base + nr);
        int s = 0; for (int k : idx) s += k;
        if (s <= (thorough ? 4 : 2)) {
          tabcases.push_back("t;" + base + ";step=" + (cb.cut == "1" ? "0.1" : "0.08") + ";ov=1");
          tabcases.push_back("t;" + base + ";step=0.05;ov=2;rmin=" + (cb.mn == "0" ? "0.1" : "0.2") + ";rcut=" + cb.cut);
          if (thorough) tabcases.push_back("t;" + base + ";step=0.025;ov=2;rmin=0;rcut=" + cb.cut);
        }
      } while (bsx::next(idx, radix));
    }
    // exactly-zero parameters (both tiers): each single parameter 0 with the others at base values, all parameters 0, and the
    // freshly constructed object (lam=default); every form is defined there (LJG with width 0 is a constant, amplitude 0 switches the Gaussian off)
    {
      auto zeros = [&](const std::string &head, const std::vector<std::string> &base) {
        for (size_t z = 0; z <= base.size(); z++) {
          std::vector<std::string> lam = base;
          if (z < base.size()) lam[z] = "0"; else for (auto &v : lam) v = "0";
          C.push_back("p;" + head + ";lam=" + join(lam) + nr);
        }
        C.push_back("p;" + head + ";lam=default" + nr);
      };
      for (auto &rg : RNG) {
        zeros("f=lj126;min=" + rg.first + ";cut=" + rg.second, {"1", "2"});
        zeros("f=ljg;min=" + rg.first + ";cut=" + rg.second, {"1", "0.5", "-1", "2", "0.8"});
        zeros("f=ljg;min=" + rg.first + ";cut=" + rg.second, {"2", "1", "0.5", "8", "1.1"});
      }
      for (auto &cb : CBS) {
        if (cb.nopt >= 6 && !thorough) continue;
        std::vector<std::string> base;
        for (int k = 0; k < cb.nopt; k++) base.push_back(CA[k % 3]);
        zeros("f=cbspl;nk=" + cb.nk + ";min=" + cb.mn + ";cut=" + cb.cut, base);
      }
    }
    for (auto &t : tabcases) C.push_back(t);
  }
  // splines: the C12 data sets
  {
    auto interp_cases = [&](const std::vector<c12::Vec> &G, int n, const c12::Vec &alphabet) {
      for (auto &g : G)
        for (std::string type : {"linear", "cubic", "akima"}) {
          if (n < c12::minknots(type)) continue;
          for (int per = 0; per < 2; per++)
            for (auto &y : c12::ordinates(n, per == 1, alphabet))
              C.push_back("s;t=" + type + ";bc=" + (per ? "per" : "nat") + ";mode=interp;x=" + c12::vecstr(g) + ";y=" + c12::vecstr(y));
        }
    };
    const c12::Vec A0 = {0.0, 1.0, -1.0, 2.0};
    int maxn = thorough ? 5 : 4;
    for (int n = 2; n <= maxn; n++)
      for (double x0 : {0.0, -1.5}) interp_cases(c12::grids(n, x0), n, A0);
    if (thorough) {
      // 6 knots on spacings {0.5,2}; other spacing alphabets (incl. decimal, not binary-exact); larger / badly scaled ordinate alphabets
      for (double x0 : {0.0, -1.5}) interp_cases(c12::grids(6, x0, {0.5, 2.0}), 6, A0);
      for (int n = 2; n <= 4; n++)
        for (double x0 : {0.0, -1.5}) {
          interp_cases(c12::grids(n, x0, {0.75, 0.25, 1.5, 3.0}), n, A0);
          interp_cases(c12::grids(n, x0, {0.1, 0.3, 0.7}), n, A0);
          interp_cases(c12::grids(n, x0), n, {0.0, 1.0, -1.0, 3.0, 0.5, -2.0});
          interp_cases(c12::grids(n, x0), n, {0.0, 1.0, -1000.0, 0.001});
        }
      for (int n : {12, 40, 200})
        for (int uni = 0; uni < 2; uni++) {
          static const double S[3] = {1.0, 0.5, 2.0};
          c12::Vec g{-1.5};
          for (int k = 0; k + 1 < n; k++) g.push_back(g.back() + (uni ? 0.5 : S[(k * 7 + k / 5) % 3]));
          for (std::string type : {"linear", "cubic", "akima"})
            for (int per = 0; per < 2; per++)
              for (int pat = 0; pat < 3; pat++) {
                c12::Vec y(n);
                for (int k = 0; k < n; k++) y[k] = pat == 0 ? A0[(3 * k + k / 4) % 4] : (pat == 1 ? (k == n / 2 ? 1.0 : 0.0) : std::sin(0.37 * g[k]));
                if (per) y[n - 1] = y[0];
                C.push_back("s;t=" + type + ";bc=" + (per ? "per" : "nat") + ";mode=interp;x=" + c12::vecstr(g) + ";y=" + c12::vecstr(y));
              }
        }
    }
    // fits: grids coarser than the data (data step 1/8), ordinate patterns over the alphabet
    struct FG { std::string fg; double lo, hi; };
    std::vector<FG> FGS = {FG{"0,0.5,2", 0, 2}, FG{"0,1,3", 0, 3}, FG{"-1.5,0.5,0.5", -1.5, 0.5}, FG{"0,0.3,1", 0, 1}};
    if (thorough) { FGS.push_back(FG{"0,0.25,1", 0, 1}); FGS.push_back(FG{"-2,1,3", -2, 3}); FGS.push_back(FG{"0,0.4,2.2", 0, 2.125}); FGS.push_back(FG{"0,0.5,20", 0, 20}); }
    for (FG fg : FGS) {
      c12::Vec x; for (double r = fg.lo; r <= fg.hi + 1e-12; r += 0.125) x.push_back(r);
      const double A[4] = {0.0, 1.0, -1.0, 2.0};
      for (int pat = 0; pat < (thorough ? 64 : 8); pat++) {
        c12::Vec y;
        for (size_t i = 0; i < x.size(); i++)
          y.push_back(pat == 0 ? 1.0 + 0.5 * x[i] : (pat == 1 ? x[i] * x[i] : A[(i * (size_t)(pat / 4 + 1) + (size_t)pat) % 4]));
        for (std::string type : {"linear", "cubic"})
          for (int per = 0; per < (type == "cubic" ? 2 : 1); per++)
            C.push_back("s;t=" + type + ";bc=" + (per ? "per" : "nat") + ";mode=fit;fg=" + fg.fg + ";x=" + c12::vecstr(x) + ";y=" + c12::vecstr(y));
      }
    }
  }
  // operation histories on ONE spline object (see C12_ophist.h): all valid sequences of 1..3 (thorough: ..4) operations
  for (std::string type : {"cubic", "akima", "linear"})
    for (int len = 1; len <= (thorough ? 4 : 3); len++)
      oph::histories(type, len, [&](const std::string &ops) {
        C.push_back("h;t=" + type + ";mode=A;ops=" + ops);
        if (len > 1) C.push_back("h;t=" + type + ";mode=B;ops=" + ops);
      });
}

int main(int argc, char **argv) {
  bsx::Args a = bsx::parse(argc, argv);
  if (a.has_case) {
    Res r = run_case(a.cas);
    if (r.fails.empty()) { printf("case holds (%lld comparisons) %s\n", r.checks, r.sample.c_str()); return 0; }
    for (auto &f : r.fails) printf("case FAILS: key=%s %s\n", f.first.c_str(), f.second.c_str());
    return 3;
  }
  bsx::Report R;
  R.property = "C07"; R.part = "deriv"; R.tier = a.tier;
  bool thorough = a.tier == "thorough";
  R.max_samples = 9;
  R.rule =
      "b: IBond/IAngle/IDihedral built from bond lengths {0.5,1,2}, angles 15..165 step 15 deg, dihedrals -165..165 step 30 deg (bond angles of the "
      "dihedral from a fixed list), each under rigid motions (identity, translation, 2-3 rotations+translations) in an open box and in cubic/"
      "orthorhombic/triclinic boxes, unshifted and with single beads shifted by box-vector combinations {a,-b,c,-a+b-c}; additionally (both tiers) triclinic boxes "
      "with a large c_y of either sign, a=(6,0,0) b=(+-1.5,6,0) c=(+-1,+-2.5,6) for all geometries and a=(4,0,0) b=(+-1,4,0) c=(+-0.5,+-1.5,4) for bond lengths <= 1, every "
      "bead shifted by {c,-c,2c,-2c,a+c,b-c,-a-b+2c,a-b-2c} (6 motions for bond/angle, motions {0,4} for the dihedral): Grad vs central "
      "differences of EvaluateVar (h=2^-10,2^-11,2^-12, two Richardson levels, tolerance 8*(|R2-R1|+8 eps|f|/h)+1e-9), sum of gradients, "
      "invariance/covariance vs identity motion, invariance vs unshifted; additionally (both tiers) the off-diagonal PATTERN of the box as a dimension: every zero/+/- "
      "combination of (b_x,c_x,c_y) (27 = all 8 zero/non-zero patterns x all signs) on edges (6,6,6) [|b_x|,|c_x|,|c_y| = 1.5,1,2.5] and (5,6,7) [1.25,0.75,2.75], box type "
      "auto-detected and given explicitly (110 box configurations), unshifted and every bead shifted by every n_a a+n_b b+n_c c, n in {-2..2}^3 without 0 (124), motions {0,4}, "
      "for 3 bonds, 4 angles, 4 dihedrals (thorough: 6 motions for bonds, all 99 angle geometries, 108 dihedral geometries), same five checks, keys "
      "<kind>-image-shift-{value,grad}-shear-<non-zero elements>-{auto,explicit-ortho,explicit-tric}. p: LJ126 (9 parameter vectors), LJG (243), CBSPL (3^5, thorough also 3^6) x 2 "
      "(min,cut) ranges x 9 r in [min,cut] incl. both ends (CBSPL: also every break and its two floating-point neighbours): DF and D2F vs first/second/mixed "
      "differences of CalculateF and vs first differences of CalculateDF, D2F symmetry; plus vectors with each single parameter exactly 0, all parameters 0 and the freshly "
      "constructed object. t: SavePotTab (both overloads) read back and compared with CalculateF on the requested grid. "
      "s: linear/cubic/Akima Interpolate on all grids of spacings {0.5,1,2} with 2..4 (thorough 5) knots x shifts {0,-1.5} x all ordinate vectors over "
      "{-1,0,1,2} x natural/periodic, cubic/linear Fit on 4 grids: CalculateDerivative vs Richardson difference of Calculate at 3 points inside every "
      "interval. h: operation histories on ONE spline object: all valid sequences of 1..3 (thorough 4) operations over every public mutator and evaluation entry point "
      "(setBC, setBCInt, Interpolate, GenerateGrid+Fit, Fit, setSplineData, getX() write, Calculate/CalculateDerivative scalar+vector, Print, AddToFitMatrix); after every step "
      "(mode A) or the last step (mode B): derivative vs Richardson difference of the value, and value+derivative bit-identical to a fresh object given only the last data "
      "operation. distinct_nontrivial = distinct (interaction, value) + distinct potential value signatures + distinct spline derivative signatures";
  if (thorough)
    R.rule += " || THOROUGH lattice: bond lengths {0.5,0.8,1,1.5,2}, angles 10..170 step 2.5 deg, dihedrals -165..165 step 15 deg "
              "(without 0), dihedral bond angles {45,60,90,120,135,150}^2, 10 rigid motions in the open box, boxes cubic/ortho/2 triclinic/large ortho x "
              "(unshifted + every bead x 8 box-vector combinations) under all 10 motions (bond, angle) or motions {0,2,4,7,8} (dihedral); LJ126 5x5 vectors, "
              "LJG 3x3x4x4x4, CBSPL 3^5+3^6+3^7, 3 (min,cut) ranges, 17 r; SavePotTab with 3-7 step/range combinations each; splines additionally: 5 knots, "
              "6 knots on spacings {0.5,2}, spacing alphabets {0.25,0.75,1.5,3} and {0.1,0.3,0.7}, ordinate alphabets {-2,-1,0,0.5,1,3} and {-1000,0,0.001,1}, "
              "grids of 12/40/200 knots, Fit on 8 grids x 64 data patterns";
  CaseList CL(a);
  std::map<char, int> sampled;
  double maxtol = 0;
  long long i = 0;
  CL.sink = [&](const std::string &cas) {
    Res r = run_case(cas);
    R.eval();
    R.counters["comparisons"] += r.checks;
    R.counters[std::string("cases_") + cas[0]]++;
    if (cas[0] == 'b' && cas.find(";box=od:") != std::string::npos) R.counters["cases_b_offdiag_pattern"]++;
    maxtol = std::max(maxtol, r.maxtol);
    for (auto &f : r.fails) R.fail(f.first, f.second + "  [" + cas + "]", cas);
    for (auto &c : r.classes) R.cls(c);
    if (r.fails.empty() && sampled[cas[0]] < 2 && i % 37 == 5) { sampled[cas[0]]++; R.sample(cas + " -> " + r.sample); }
    i++;
  };
  all_cases(thorough, CL);
  R.counters["cases_in_all_shards"] = a.shard == 0 ? CL.n : 0;
  fprintf(stderr, "largest tolerance granted in this shard: %g\n", maxtol);
  R.assumptions = {std::string("geometries within ") + (thorough ? "10 (angles) / 15 (dihedrals)" : "15") + " degrees of the singular ones (angle 0/180, dihedral 0/180, collinear dihedral arms) are not on the lattice",
                   "every component of every bond vector stays below half the box (bond lengths <= 2 in boxes with edges >= 5, <= 1 in the 4-boxes), so the minimum image is unambiguous (C02 covers the convention itself)",
                   "finite-difference tolerance = 8 x (difference of two Richardson levels + rounding bound) + 1e-9..1e-10 relative",
                   "CBSPL derivatives are taken w.r.t. the optimised coefficients (setOptParam/getOptParam), as CalculateDF documents",
                   "SavePotTab is compared with the function as reported after the call (CBSPL extrapolates its excluded coefficients while saving)",
                   "the sign convention of the dihedral value is left open (|value| is compared with the constructed angle)"};
  if (!R.write(a.out)) { fprintf(stderr, "cannot write %s\n", a.out.c_str()); return 2; }
  return 0;
}
