#!/usr/bin/env python3
"""C19 part 'tables'/'direct': the csg table post-processing Perl scripts against closed-form oracles.

Every case = (script, documented options, input table(s) from a stated finite family).  The real,
unmodified script is read from $VERIF_REPO/csg/share/scripts/inverse and executed
  * mode batch  : by a persistent perl interpreter (`do FILE` with @ARGV set; PERL5LIB = script dir),
                  one perl process per chunk of cases  (bulk enumeration)
  * mode direct : `perl <script> <args>` one process per case (used for --case replays, for the part
                  'direct', and as fallback whenever the batch driver did not deliver a result)
Outputs are parsed and compared with the expectation derived from the script's help text.

Case string (replayable):  script|k=v,k=v|grid|tab|tab|...   with tab = y,y,..;flags[;e,e,..]
"""
import sys, os, math, itertools, subprocess, shutil, time

sys.path.insert(0, os.path.join(os.environ.get("VERIF_ROOT", os.path.join(os.path.dirname(os.path.abspath(__file__)), "..")), "lib"))
import pybsx

SDIR = os.path.join(pybsx.REPO, "csg/share/scripts/inverse")
PERL = shutil.which("perl") or "/usr/bin/perl"
FILES = dict(linearop="table_linearop.pl", scale="table_scale.pl", integrate="table_integrate.pl",
             shift="potential_shift.pl", smooth="table_smooth.pl", extrapolate="table_extrapolate.pl",
             boltzmann="dist_boltzmann_invert.pl", ibi="update_ibi_pot.pl", combine="table_combine.pl")

Y = ["0", "1e-11", "0.5", "1", "2"]          # value alphabet (strings as written into the files)
FL = "iou"                                   # flag alphabet
GRIDS = {"a": (0.25, 0.25), "z": (0.0, 0.5)}  # x_k = x0 + k*dx ; grid z contains r = 0
TOL = 1e-12                                  # perl prints %.15g: 5e-15 relative + a few ulps of the operands


def grid(g, n):
    x0, dx = GRIDS[g]
    return [repr(x0 + k * dx) for k in range(n)]


# ----------------------------------------------------------------------------- cases
def mkcase(script, opts, g, tabs):
    o = ",".join("%s=%s" % (k, opts[k]) for k in sorted(opts))
    t = "|".join(";".join([",".join(tb[0]), tb[1]] + ([",".join(tb[2])] if len(tb) > 2 else [])) for tb in tabs)
    return "%s|%s|%s|%s" % (script, o, g, t)


def parsecase(s):
    parts = s.split("|")
    script, o, g = parts[0], parts[1], parts[2]
    opts = {}
    if o:
        for kv in o.split(","):
            k, v = kv.split("=", 1)
            opts[k] = v
    tabs = []
    for t in parts[3:]:
        q = t.split(";")
        tb = [q[0].split(","), q[1]]
        if len(q) > 2:
            tb.append(q[2].split(","))
        tabs.append(tb)
    return script, opts, g, tabs


def tabtext(g, tb, sloppy=False, hdr=False):
    ys, fl = tb[0], tb[1]
    xs = grid(g, len(ys))
    out = []
    if hdr:
        out += ["# C19 generated table", "@ xaxis label \"r\"", ""]
    for k in range(len(ys)):
        row = [xs[k], ys[k]]
        if len(tb) > 2:
            row.append(tb[2][k])
        if not sloppy:
            row.append(fl[k])
        out.append((" " if hdr else "") + " ".join(row))
    return "\n".join(out) + "\n"


# ----------------------------------------------------------------------------- running
DRIVER = r'''
use strict; $|=1;
# job file:  JOB \t script \t env \t nfiles \t args...   then per input file:  FILE \t name \t nlines  + the lines
open(my $J,"<",$ARGV[0]) or die "no job file\n";
while (my $l=<$J>){
  chomp $l;
  my ($tag,$s,$envv,$nf,@a)=split(/\t/,$l,-1);
  die "bad job line $l\n" unless $tag eq "JOB";
  for (my $k=0;$k<$nf;$k++){
    my $h=<$J>; chomp $h; my (undef,$name,$nl)=split(/\t/,$h);
    open(my $F,">",$name) or die "cannot write $name\n";
    for (my $i=0;$i<$nl;$i++){ my $t=<$J>; print $F $t; }
    close($F);
  }
  unlink("c19_out.tab");
  my $e="";
  {
    local @ARGV=@a; local $0=$s;
    local $ENV{VOTCA_TABLES_WITHOUT_FLAG}=$envv if ($envv ne "-");
    if (! -r $s) { $e="cannot read $s"; }
    else { $@=""; do $s; $e=$@; }
  }
  $e =~ s/[\r\n]+/ /g;
  my $have=0; my $content="";
  if (open(my $O,"<","c19_out.tab")) { $have=1; local $/=undef; $content=<$O>; close($O); $content="" unless defined $content; }
  print "\n\x01OUT\t$have\n$content\n\x01END\t".($e eq "" ? 0 : 1)."\t$e\n";
}
'''


class Res:
    __slots__ = ("ok", "stdout", "err", "out", "hang")

    def __init__(self, ok, stdout, err, out, hang=False):
        self.ok, self.stdout, self.err, self.out, self.hang = ok, stdout, err, out, hang


STATS = {"timeouts_retried": 0, "spawn_retried": 0}
T_DIRECT, T_BATCH = float(os.environ.get("C19_T_DIRECT", 120)), float(os.environ.get("C19_T_BATCH", 300))        # seconds; a process that exceeds its limit is re-run ALONE with 10x the limit


def spawn(cmd, env, limit, stderr=subprocess.PIPE):
    """run one process; no exception escapes.  -> (rc | None if it did not end within the limit, stdout, stderr)
    A fork/exec failure of an overloaded machine (EAGAIN, ENOMEM) is not a result: wait and try again."""
    for attempt in range(10):
        try:
            p = subprocess.run(cmd, env=env, stdout=subprocess.PIPE, stderr=stderr, timeout=limit)
            return p.returncode, p.stdout or b"", p.stderr or b""
        except subprocess.TimeoutExpired as e:
            return None, e.stdout or b"", e.stderr or b""
        except OSError as e:
            STATS["spawn_retried"] += 1
            last = e
            time.sleep(3)
    return -999, b"", ("could not start %s: %s" % (cmd[0], last)).encode()


def spawn_patient(cmd, env, limit, stderr=subprocess.PIPE):
    """spawn; a time-out is repeated once, alone, with a 10x longer limit.  rc None = timed out twice (hang)"""
    rc, out, err = spawn(cmd, env, limit, stderr)
    if rc is None:
        STATS["timeouts_retried"] += 1
        rc, out, err = spawn(cmd, env, 10 * limit, stderr)
    return rc, out, err


def plan(case):
    """-> (input file texts, argv builder, env value, has output file)"""
    script, opts, g, tabs = parsecase(case)
    sloppy = opts.get("sloppy") == "1"
    hdr = opts.get("hdr") == "1"
    texts = [tabtext(g, tb, sloppy or opts.get("bare") == "1", hdr) for tb in tabs]
    a = []
    o = opts
    outfile = True
    if script == "linearop":
        if "wf" in o:
            a += ["--withflag", o["wf"]]
        if o.get("err") == "1":
            a += ["--with-errors"]
        if o.get("onx") == "1":
            a += ["--on-x"]
        a += ["@0", "@out", o["a"], o["b"]]
    elif script == "scale":
        a += ["@0", "@out", o["p1"], o["p2"]]
    elif script == "integrate":
        if o.get("err") == "1":
            a += ["--with-errors"]
        if o.get("S") == "1":
            a += ["--with-S", "--kbT", o["kbT"]]
        if o.get("sphere") == "1":
            a += ["--sphere"]
        if "from" in o:
            a += ["--from", o["from"]]
        a += ["@0", "@out"]
    elif script == "shift":
        if "type" in o:
            a += ["--type", o["type"]]
        a += ["@0", "@out"]
    elif script == "smooth":
        a += ["@0", "@out"]
    elif script == "extrapolate":
        if "A" in o:
            a += ["--avgpoints", o["A"]]
        if "fn" in o:
            a += ["--function", o["fn"]]
        if "region" in o:
            a += ["--region", o["region"]]
        if "curv" in o:
            a += ["--curvature", o["curv"]]
        if o.get("nfu") == "1":
            a += ["--no-flagupdate"]
        a += ["@0", "@out"]
    elif script == "boltzmann":
        a += ["--kbT", o["kbT"]]
        if "type" in o:
            a += ["--type", o["type"]]
        if "min" in o:
            a += ["--min", o["min"]]
        a += ["@0", "@out"]
    elif script == "ibi":
        a += ["@0", "@1", "@2", "@out", o["kbT"]]
    elif script == "combine":
        a += ["--op", o["op"]]
        if "eps" in o:
            a += ["--error", o["eps"]]
        if "scale" in o:
            a += ["--scale", o["scale"]]
        if "wf" in o:
            a += ["--withflag", o["wf"]]
        if o.get("nf") == "1":
            a += ["--no-flags"]
        if o.get("sum") == "1":
            a += ["--sum"]
            outfile = False
        if o.get("die") == "1":
            a += ["--die"]
            outfile = False
        a += ["@0", "@1"] + (["@out"] if outfile else [])
    else:
        raise ValueError("unknown script " + script)
    envv = "yes" if sloppy else (TWVAL[opts["tw"]] if "tw" in opts else "-")      # "-" = variable not set
    return script, texts, a, envv, outfile


# process environment as a dimension: VOTCA_TABLES_WITHOUT_FLAG (the only variable CsgFunctions.pm / the table scripts read).
# Only exactly 'yes' means sloppy tables (csg_call --sloppy-tables exports that); every other value must act like unset.
TWVAL = {"yes": "yes", "no": "no", "off": "off", "false": "false", "0": "0", "empty": "", "YES": "YES"}


def twin_of(case):
    """for a case run with a non-'yes' value on a flagged table: the same call with the variable unset"""
    script, opts, g, tabs = parsecase(case)
    if "tw" not in opts or opts["tw"] == "yes" or opts.get("bare") == "1":
        return None
    del opts["tw"]
    return mkcase(script, opts, g, tabs)


def perl_env():
    env = {"PERL5LIB": SDIR, "PATH": os.environ.get("PATH", "/usr/bin:/bin"), "LC_ALL": "C"}
    return env


HUNG = set()      # scripts found not to terminate (alone, 10x limit): their remaining cases are not started


def run_direct(case, tag="d", alone=False):
    script, texts, a, envv, outfile = plan(case)
    names = []
    for k, t in enumerate(texts):
        nm = "%s_in%d.tab" % (tag, k)
        open(nm, "w").write(t)
        names.append(nm)
    outn = "%s_out.tab" % tag
    if os.path.exists(outn):
        os.remove(outn)
    argv = [outn if x == "@out" else (names[int(x[1:])] if x.startswith("@") else x) for x in a]
    env = perl_env()
    if envv != "-":
        env["VOTCA_TABLES_WITHOUT_FLAG"] = envv
    if alone:       # --case replay: nothing else runs in this harness, the long limit applies at once
        rc, so, se = spawn([PERL, os.path.join(SDIR, FILES[script])] + argv, env, 10 * T_DIRECT)
    else:
        rc, so, se = spawn_patient([PERL, os.path.join(SDIR, FILES[script])] + argv, env, T_DIRECT)
    if rc is None:
        HUNG.add(script)
        return Res(False, so.decode(errors="replace"), "did not terminate within %d s and, re-run alone, within %d s" % (T_DIRECT, 10 * T_DIRECT), None, True)
    out = open(outn).read() if (outfile and os.path.exists(outn)) else None
    return Res(rc == 0, so.decode(errors="replace"), se.decode(errors="replace").strip(), out)


def batch_once(cases, limit):
    """one perl interpreter over the cases -> results of the leading cases it delivered (possibly fewer than asked)"""
    if not os.path.exists("c19_driver.pl"):
        open("c19_driver.pl", "w").write(DRIVER)
    lines, plans = [], []
    for case in cases:
        script, texts, a, envv, outfile = plan(case)
        argv = ["c19_out.tab" if x == "@out" else ("c19_in%s.tab" % x[1:] if x.startswith("@") else x) for x in a]
        lines.append("\t".join(["JOB", os.path.join(SDIR, FILES[script]), envv, str(len(texts))] + argv))
        for k, t in enumerate(texts):
            lines.append("FILE\tc19_in%d.tab\t%d" % (k, t.count("\n")))
            lines.append(t[:-1])
        plans.append(outfile)
    open("c19_jobs", "w").write("\n".join(lines) + "\n")
    rc, so, se = spawn([PERL, "c19_driver.pl", "c19_jobs"], perl_env(), limit, subprocess.DEVNULL)
    text = so.decode(errors="replace")
    blocks = text.split("\n\x01END\t")
    res = []
    for k in range(len(cases)):
        # a block counts only if its END line is complete (the process may have been killed in the middle of a print)
        if not (k + 1 < len(blocks) and "\n\x01OUT\t" in blocks[k] and "\n" in blocks[k + 1]):
            break
        body = blocks[k]
        if k > 0:
            body = body.split("\n", 1)[1]
        stdout, rest = body.split("\n\x01OUT\t", 1)
        have, content = rest[0] == "1", rest[2:]
        st = blocks[k + 1].split("\n", 1)[0].split("\t", 1)
        res.append(Res(st[0] == "0", stdout, st[1] if len(st) > 1 else "", content if (have and plans[k]) else None))
    return res, rc is None


def run_batch(cases):
    """run a chunk through perl interpreters.  Where a batch stops early (time limit under load, a script that
    ends or hangs the interpreter) the first undelivered case is run ALONE in a fresh perl (with the patient
    time limits of run_direct) and the batch resumes behind it; nothing is dropped, no exception escapes."""
    res, limit = [], T_BATCH
    while len(res) < len(cases):
        if HUNG:     # a script was found not to terminate: its remaining cases are not started (reported as a cap)
            while len(res) < len(cases) and cases[len(res)].split("|", 1)[0] in HUNG:
                res.append(Res(False, "", "not started", None, "skipped"))
            todo = []
            for cs in cases[len(res):]:
                if cs.split("|", 1)[0] in HUNG:
                    break
                todo.append(cs)
            if not todo:
                continue
        else:
            todo = cases[len(res):]
        part, timed_out = batch_once(todo, limit)
        res += part
        if timed_out:
            STATS["timeouts_retried"] += 1
            limit = 10 * T_BATCH            # the machine is slow: give the following batches the long limit
        if len(part) < len(todo):
            res.append(run_direct(cases[len(res)], "fb"))
    return res


# ----------------------------------------------------------------------------- oracle helpers
def fl(x):
    try:
        return float(x)
    except ValueError:
        return float("nan")


def finite(v):
    return not (math.isnan(v) or math.isinf(v))


def close(got, exp, mag=0.0, rel=TOL):
    """exp None / non-finite = undefined by the help text: no demand"""
    if exp is None or not finite(exp):
        return True
    if not finite(got):
        return False
    return abs(got - exp) <= rel * (abs(exp) + mag)


def anyclose(got, exps, mag=0.0, rel=TOL):
    return any(close(got, e, mag, rel) for e in exps)


def rows_of(text):
    rows = []
    for line in text.split("\n"):
        s = line.strip()
        if not s or s[0] in "#@":
            continue
        rows.append(s.split())
    return rows


class Chk:
    """collects failures of one case"""

    def __init__(self, script):
        self.script, self.fails = script, []

    def fail(self, key, what):
        self.fails.append((self.script + "-" + key, what))

    def table(self, res, n, xs, ncol=3):
        """well-formed output on the same grid; returns rows or None"""
        if not res.ok:
            self.fail("script-died", "script ended with an error: " + res.err[:200])
            return None
        if res.out is None:
            self.fail("no-output", "no output table written")
            return None
        rows = rows_of(res.out)
        if len(rows) != n:
            self.fail("row-count", "output has %d rows, input %d" % (len(rows), n))
            return None
        bad = [k for k, r in enumerate(rows) if len(r) != ncol]
        if bad:
            self.fail("malformed-row", "row %d has %d columns %r (expected %d)" % (bad[0], len(rows[bad[0]]), rows[bad[0]], ncol))
            return None
        if xs is not None:
            for k, r in enumerate(rows):
                if not close(fl(r[0]), xs[k], 0, TOL):
                    self.fail("grid-changed", "row %d: x=%s, input grid %r" % (k, r[0], xs[k]))
                    return None
        return rows

    def flags(self, rows, exp, key="flag-column"):
        got = "".join(r[-1] for r in rows)
        if got != exp:
            self.fail(key, "flags %s, expected %s" % (got, exp))

    def values(self, rows, exp, mags=None, col=1, key="value", rel=TOL):
        """exp[k]: float | None | list of allowed floats"""
        for k, r in enumerate(rows):
            e = exp[k]
            if e is None:
                continue
            es = e if isinstance(e, (list, tuple)) else [e]
            if not anyclose(fl(r[col]), es, mags[k] if mags else 0.0, rel):
                self.fail(key, "row %d: got %s expected %s" % (k, r[col], "|".join("%.15g" % v if v is not None else "any" for v in es)))
                return


# ----------------------------------------------------------------------------- oracles (one per script)
def o_linearop(c, opts, g, tabs, res):
    tb = tabs[0]
    n = len(tb[0])
    xs = [float(v) for v in grid(g, n)]
    ys = [float(v) for v in tb[0]]
    flg = tb[1] if opts.get("sloppy") != "1" else "i" * n
    werr = opts.get("err") == "1"
    a, b = float(opts["a"]), float(opts["b"])
    wf = opts.get("wf")
    onx = opts.get("onx") == "1"
    ex, ey, ee = [], [], []
    for k in range(n):
        sel = wf is None or flg[k] in wf
        ex.append(a * xs[k] + b if (sel and onx) else xs[k])
        ey.append(a * ys[k] + b if (sel and not onx) else ys[k])
        if werr:
            e = float(tb[2][k])
            ee.append([a * e, -a * e] if (sel and not onx) else e)   # sign of the propagated error is not specified
    rows = c.table(res, n, None, 4 if werr else 3)
    if rows is None:
        return "died"
    c.values(rows, ex, [abs(b)] * n, 0, "x-column")
    c.values(rows, ey, [abs(b)] * n, 1, "y-formula")
    if werr:
        c.values(rows, ee, None, 2, "error-column")
    c.flags(rows, flg)
    return "sel:" + "".join("1" if (wf is None or f in wf) else "0" for f in flg) + flg


def o_scale(c, opts, g, tabs, res):
    tb = tabs[0]
    n = len(tb[0])
    xs = [float(v) for v in grid(g, n)]
    ys = [float(v) for v in tb[0]]
    p1, p2 = float(opts["p1"]), float(opts["p2"])
    ey = [ys[k] * (p1 * (1 - k / (n - 1)) + p2 * k / (n - 1)) for k in range(n)]
    rows = c.table(res, n, xs)
    if rows is None:
        return "died"
    c.values(rows, ey, [abs(ys[k]) * (abs(p1) + abs(p2)) for k in range(n)], 1, "interpolated-prefactor")
    c.flags(rows, tb[1])
    return "nz:" + "".join("1" if v else "0" for v in ey)


def o_integrate(c, opts, g, tabs, res):
    tb = tabs[0]
    n = len(tb[0])
    xs = [float(v) for v in grid(g, n)]
    f = [float(v) for v in tb[0]]
    flg = tb[1] if opts.get("sloppy") != "1" else "i" * n
    werr = opts.get("err") == "1"
    if opts.get("S") == "1":
        kbt = float(opts["kbT"])
        f = [f[k] + (2 * kbt / xs[k] if xs[k] > 0 else 0.0) for k in range(n)]
    if opts.get("sphere") == "1":
        f = [f[k] * xs[k] ** 2 for k in range(n)]
    left = opts.get("from", "right") == "left"
    F = [0.0] * n
    if left:
        for k in range(1, n):
            F[k] = F[k - 1] + 0.5 * (xs[k] - xs[k - 1]) * (f[k] + f[k - 1])
    else:
        for k in range(n - 2, -1, -1):
            F[k] = F[k + 1] - 0.5 * (xs[k + 1] - xs[k]) * (f[k + 1] + f[k])
    mag = sum(abs(v) for v in f)
    rows = c.table(res, n, xs, 4 if werr else 3)
    if rows is None:
        return "died"
    c.values(rows, F, [mag] * n, 1, "trapezoid-" + ("left" if left else "right"))
    c.flags(rows, flg)
    if werr:
        # independent errors through the trapezoid sum: U_j = sum_i w_i f_i  =>  var = sum_i w_i^2 e_i^2
        e = [float(v) for v in tb[2]]
        ee = [None] * n          # the error of the zero point itself is a convention: not demanded
        zero = 0 if left else n - 1
        for j in range(n):
            if j == zero:
                continue
            lo, hi = (zero, j) if left else (j, zero)
            var = 0.0
            for i in range(lo, hi + 1):
                w = 0.0
                if i > lo:
                    w += 0.5 * (xs[i] - xs[i - 1])
                if i < hi:
                    w += 0.5 * (xs[i + 1] - xs[i])
                var += (w * e[i]) ** 2
            ee[j] = math.sqrt(var)
        c.values(rows, ee, None, 2, "errors-" + ("left" if left else "right"), 1e-11)
    return "sgn:" + "".join("+" if v > 0 else ("-" if v < 0 else "0") for v in F)


BONDED = ("bond", "angle", "dihedral", "bonded")


def o_shift(c, opts, g, tabs, res):
    tb = tabs[0]
    n = len(tb[0])
    xs = [float(v) for v in grid(g, n)]
    ys = [float(v) for v in tb[0]]
    flg = tb[1]
    typ = opts.get("type", "non-bonded")
    if typ == "non-bonded":
        zeros = [ys[-1]]
    else:
        ival = [ys[k] for k in range(n) if flg[k] == "i"]
        if not ival:
            # minimum over nothing: undefined, refusing is fine
            if not res.ok:
                return "refused-no-valid-point"
            zeros = [min(ys)]
        else:
            zeros = sorted({min(ival), min(ys)})   # 'minimum': of the in-range points or of the whole column
    rows = c.table(res, n, xs)
    if rows is None:
        return "died"
    got = [fl(r[1]) for r in rows]
    okz = [z for z in zeros if all(close(got[k], ys[k] - z, abs(ys[k]) + abs(z)) for k in range(n))]
    if not okz:
        c.fail("shift-" + ("last-value" if typ == "non-bonded" else "minimum"),
               "output %s is not input - %s" % ([r[1] for r in rows], " or ".join(repr(z) for z in zeros)))
    c.flags(rows, flg)
    return "z:%r" % (zeros[0] != 0) + flg


def o_smooth(c, opts, g, tabs, res):
    tb = tabs[0]
    n = len(tb[0])
    xs = [float(v) for v in grid(g, n)]
    ys = [float(v) for v in tb[0]]
    flg = tb[1]
    ey = list(ys)
    for k in range(n):
        if flg[k] != "i":
            continue
        if k == 0:
            ey[k] = (2 * ys[0] + ys[1]) / 3
        elif k == n - 1:
            ey[k] = (2 * ys[-1] + ys[-2]) / 3
        else:
            ey[k] = 0.25 * ys[k - 1] + 0.5 * ys[k] + 0.25 * ys[k + 1]
    rows = c.table(res, n, xs)
    if rows is None:
        return "died"
    c.values(rows, ey, [4.0] * n, 1, "triangular-kernel")
    c.flags(rows, flg)
    return "ch:" + "".join("1" if ey[k] != ys[k] else "0" for k in range(n))


def sexp(v):
    try:
        return math.exp(v)
    except OverflowError:
        return float("inf")


def extrap_fn(fn, x0, y0, m, x, curv):
    """help-text formulas; None = undefined (division by zero / non-finite)"""
    try:
        if fn == "constant":
            v = y0
        elif fn in ("linear", "periodic"):
            v = m * (x - x0) + y0
        elif fn == "quadratic":
            a = 0.5 * m / curv - x0
            b = y0 - 0.25 * m * m / curv
            v = curv * (x + a) ** 2 + b
        elif fn == "exponential":
            a = y0 * sexp(-m * x0 / y0)
            b = m / y0
            v = a * sexp(b * x)
        elif fn == "sasha":
            a = (m ** 2) / (4 * y0)
            b = x0 - 2 * y0 / m
            v = a * (x - b) ** 2
        else:
            raise ValueError(fn)
    except ZeroDivisionError:
        return None
    except OverflowError:
        return None
    return v if finite(v) else None


def o_extrapolate(c, opts, g, tabs, res):
    tb = tabs[0]
    n = len(tb[0])
    xs = [float(v) for v in grid(g, n)]
    ys = [float(v) for v in tb[0]]
    flg = tb[1]
    fn = opts.get("fn", "quadratic")
    region = opts.get("region", "leftright")
    A = int(opts.get("A", "3"))
    nfu = opts.get("nfu") == "1"
    curv = float(opts.get("curv", "10000.0"))
    if "i" not in flg:
        return "no-valid-point"          # nothing to extrapolate from: undefined, no demand
    first = flg.index("i")
    last = n - 1 - flg[::-1].index("i")
    do_left, do_right = region in ("leftright", "left"), region in ("leftright", "right")
    exp = [[v] for v in ys]      # allowed values per row; None entry = no demand
    ef = list(flg)
    undefined = False
    magx = 0.0
    # 'always m = (y[i+A]-y[i])/(x[i+A]-x[i])': with the A-th neighbour off the table the slope (and what the
    # script does with it, including refusing) is undefined even if no row needs extrapolation on that side
    if fn != "constant" and ((do_left and first + A > n - 1) or (do_right and fn != "periodic" and last - A < 0)):
        undefined = True
    if do_left and first > 0:
        if fn == "constant":
            ms = [0.0]
        elif first + A > n - 1:
            ms = [None]
        else:
            ms = [(ys[first + A] - ys[first]) / (xs[first + A] - xs[first])]
        for k in range(first):
            vs = [extrap_fn(fn, xs[first], ys[first], m, xs[k], curv) if m is not None else None for m in ms]
            if any(v is None for v in vs):
                undefined = True
                exp[k] = None
            else:
                exp[k] = vs
                magx = max(magx, max(abs(v) for v in vs))
            if not nfu:
                ef[k] = "i"
    if do_right and last < n - 1:
        if fn == "constant":
            ms = [0.0]
        elif fn == "periodic":
            if exp[0] is None:
                ms = [None]
            else:
                ms = [(y0 - ys[last]) / (xs[n - 1] - xs[last]) for y0 in exp[0]]
        elif last - A < 0:
            ms = [None]
        else:
            lows = [ys[last - A]]
            if do_left and last - A < first:      # that point was just re-written by the left extrapolation:
                if exp[last - A] is None:         # the help text does not say which value enters the slope
                    lows = [None]
                else:
                    lows = lows + list(exp[last - A])
            ms = [((ys[last] - lo) / (xs[last] - xs[last - A]) if lo is not None else None) for lo in lows]
        for k in range(last + 1, n):
            vs = [extrap_fn(fn, xs[last], ys[last], m, xs[k], curv) if m is not None else None for m in ms]
            if any(v is None for v in vs):
                undefined = True
                exp[k] = None
            else:
                exp[k] = vs
                magx = max(magx, max(abs(v) for v in vs))
            if not nfu:
                ef[k] = "i"
    sig = "%d-%d/%d%s" % (first, last, n, "U" if undefined else "")
    if undefined and not res.ok:
        return "undef-refused:" + sig     # formula undefined (slope point off the table, 0 denominators): refusing is fine
    rows = c.table(res, n, xs)
    if rows is None:
        return "died"
    rel = 1e-9 if fn == "exponential" else (1e-10 if fn in ("sasha", "quadratic") else TOL)
    c.values(rows, exp, [magx + 4.0 + (curv if fn == "quadratic" else 0.0)] * n, 1, "formula-" + fn, rel)
    c.flags(rows, "".join(ef))
    return sig + "".join(ef)


def o_boltzmann(c, opts, g, tabs, res):
    tb = tabs[0]
    n = len(tb[0])
    xs = [float(v) for v in grid(g, n)]
    ps = [float(v) for v in tb[0]]
    flg = tb[1]
    kbt = float(opts["kbT"])
    typ = opts.get("type", "non-bonded")
    pmin = float(opts.get("min", "1e-10"))
    valid = [ps[k] > pmin for k in range(n)]
    defined = [valid[k] and flg[k] != "u" for k in range(n)]
    anchors = [k for k in range(n) if defined[k] and flg[k] == "i"]
    must = False
    if anchors:
        k0 = anchors[0]
        lo = k0
        while lo > 0 and defined[lo - 1]:
            lo -= 1
        hi = k0
        while hi < n - 1 and defined[hi + 1]:
            hi += 1
        must = hi - lo + 1 >= 10      # at least 10 consecutive usable points around the first valid one
    if not res.ok:
        if must:
            c.fail("refused-valid-distribution", "script died on a distribution with >= 10 consecutive valid points: " + res.err[:160])
        return "refused"
    rows = c.table(res, n, xs)
    if rows is None:
        return "died"
    consts = []
    for k in range(n):
        v = fl(rows[k][1])
        if defined[k]:
            norm = xs[k] ** 2 if typ == "bond" else (math.sin(xs[k]) if typ == "angle" else 1.0)
            if norm <= 0:
                continue
            consts.append((k, v + kbt * math.log(ps[k] / norm)))
            if rows[k][2] != flg[k]:
                c.fail("flag-of-valid-point", "row %d: flag %s, input %s" % (k, rows[k][2], flg[k]))
                break
        else:
            if rows[k][2] == "i":
                c.fail("undefined-point-flagged-valid", "row %d (P=%s, flag %s) written with flag i" % (k, tb[0][k], flg[k]))
                break
            if not finite(v):
                c.fail("undefined-point-not-a-number", "row %d written as %s" % (k, rows[k][1]))
                break
    if consts:
        c0 = consts[0][1]
        for k, cc in consts:
            if abs(cc - c0) > 1e-11 * (1 + kbt * 30):
                c.fail("minus-kT-lnP", "row %d: U+kT ln(P/norm)=%.15g but %.15g at row %d (not a constant)" % (k, cc, c0, consts[0][0]))
                break
    return "ok:" + "".join("d" if d else "-" for d in defined)


def o_ibi(c, opts, g, tabs, res):
    tgt, cur, pot = tabs
    n = len(tgt[0])
    xs = [float(v) for v in grid(g, n)]
    gt = [float(v) for v in tgt[0]]
    gc = [float(v) for v in cur[0]]
    pf = pot[1]
    kbt = float(opts["kbT"])
    valid = [gt[k] > 1e-10 and gc[k] > 1e-10 and pf[k] != "u" for k in range(n)]
    du = [kbt * math.log(gc[k] / gt[k]) if valid[k] else None for k in range(n)]
    rows = c.table(res, n, xs)
    if rows is None:
        return "died"
    ef = "".join("i" if v else "o" for v in valid)
    c.flags(rows, ef, "flag-i-where-both-positive-else-o")
    for k in range(n):
        v = fl(rows[k][1])
        if valid[k]:
            if tgt[0][k] == cur[0][k]:
                if v != 0.0:
                    c.fail("equal-rdfs-nonzero", "row %d: g_cur = g_tgt = %s but dU = %s" % (k, cur[0][k], rows[k][1]))
                    break
            elif not close(v, du[k], 0, TOL):
                c.fail("kT-ln-ratio", "row %d: dU=%s expected %.15g" % (k, rows[k][1], du[k]))
                break
        else:
            # 'continues the last valid value': the walking direction is not specified -> nearest valid
            # value on either side; where one side has no valid point at all, 0 stands for it
            lefts = [j for j in range(k) if valid[j]]
            rights = [j for j in range(k + 1, n) if valid[j]]
            allowed = [du[lefts[-1]] if lefts else 0.0, du[rights[0]] if rights else 0.0]
            if not anyclose(v, allowed, 0, TOL):
                # narrow class: the script restarts from 0 on each side of the maximum of g_cur
                # (ties of the maximum: any of the tied rows may be the script's starting point)
                gmax = max(gc)
                starts = [j for j in range(n) if gc[j] == gmax] if gmax > 0 else [0]
                imax = starts[0]
                explained = False
                for st in starts:
                    between = range(k + 1, st) if k < st else range(st, k)
                    if not any(valid[j] for j in between):
                        explained, imax = True, st
                        break
                if v == 0.0 and explained:
                    c.fail("undefined-run-next-to-rdf-maximum-gets-zero",
                           "row %d is undefined, valid neighbours give %s, script wrote 0 (walk restarted at the maximum of g_cur, row %d)"
                           % (k, "|".join("%.6g" % a for a in allowed), imax))
                else:
                    c.fail("continue-last-valid-value", "row %d: got %s, allowed %s" % (k, rows[k][1], "|".join("%.15g" % a for a in allowed)))
                break
    return ef


def o_combine(c, opts, g, tabs, res):
    t1, t2 = tabs
    n = len(t1[0])
    xs = [float(v) for v in grid(g, n)]
    y1 = [float(v) for v in t1[0]]
    y2 = [float(v) for v in t2[0]]
    f1, f2 = t1[1], t2[1]
    op = opts["op"]
    eps = float(opts.get("eps", "1e-5"))
    scale = float(opts.get("scale", "1.0"))
    wf = opts.get("wf")
    nf = opts.get("nf") == "1"
    dosum, dodie = opts.get("sum") == "1", opts.get("die") == "1"
    if not nf and f1 != f2:
        if res.ok:
            c.fail("flag-mismatch-accepted", "tables with flags %s / %s combined without --no-flags" % (f1, f2))
        return "flag-mismatch-refused"
    sel = [(wf is None or nf or f1[k] in wf) for k in range(n)]
    vals, undefined, differs, maybe = [], False, False, False
    for k in range(n):
        a, b = y1[k], y2[k]
        if not sel[k]:
            vals.append([a])          # 'only operate on entries with specific flag in src': the others stay as in src
            continue
        if op == "+":
            v = [a + b]
        elif op == "-":
            v = [a - b]
        elif op in ("*", "x"):
            v = [a * b]
        elif op == "/":
            if b == 0:
                undefined = True
                v = None
            else:
                v = [a / b]
        elif op == "d":
            v = [abs(a - b)]
        elif op == "d2":
            v = [(a - b) ** 2]
        elif op == "=":
            d = abs(a - b)
            r = d / max(abs(a), abs(b)) if d else 0.0
            if a == b or r <= eps * (1 - 1e-9):
                v = [0.0]
            elif d >= eps and r > eps * (1 + 1e-9):
                v = [1.0]
                differs = True
            else:
                v = [0.0, 1.0]        # 'relative error' for values that are absolutely closer than ERR: either reading
                maybe = True
        else:
            raise ValueError(op)
        vals.append([x * scale for x in v] if v is not None else None)
    sig = op + ("U" if undefined else "") + "".join("1" if s else "0" for s in sel)
    if undefined and not res.ok:
        return "division-by-zero-refused"
    if dodie:
        if op == "=":
            if differs and res.ok:
                c.fail("die-did-not-die", "tables differ beyond the relative error but --die --op = succeeded")
            if not differs and not maybe and not res.ok:
                c.fail("die-on-equal-tables", "tables agree within the relative error but --die --op = died: " + res.err[:120])
        elif not res.ok:
            c.fail("script-died", res.err[:200])
        return sig + ("D" if not res.ok else "S")
    if dosum:
        if not res.ok:
            c.fail("script-died", res.err[:200])
            return "died"
        toks = res.stdout.split()
        got = fl(toks[-1]) if toks else float("nan")
        if undefined:
            return sig + "sumU"
        cands = [0.0]
        for k in range(n):
            if sel[k]:
                cands = [s + v for s in cands for v in vals[k]]
        if not anyclose(got, cands, sum(abs(v) for v in y1 + y2) * abs(scale)):
            c.fail("sum", "printed sum %r, expected %s" % (res.stdout.strip()[-40:], "|".join("%.15g" % v for v in cands[:4])))
        return sig + "sum%s" % (got != 0)
    if not res.ok:
        c.fail("script-died", res.err[:200])
        return "died"
    if res.out is None:
        c.fail("no-output", "no output table written")
        return "died"
    rows = rows_of(res.out)
    if len(rows) != n:
        c.fail("row-count", "output has %d rows, input %d" % (len(rows), n))
        return "died"
    for k, r in enumerate(rows):
        if len(r) != 3:
            if not sel[k] and len(r) == 2:
                c.fail("withflag-skipped-row-has-no-value", "--withflag %s: row %d (flag %s) written as %r: y column missing, table unreadable"
                       % (wf, k, f1[k], " ".join(r)))
            else:
                c.fail("malformed-row", "row %d: %r" % (k, r))
            return sig + "malformed"
    for k, r in enumerate(rows):
        if not close(fl(r[0]), xs[k]):
            c.fail("grid-changed", "row %d: x=%s" % (k, r[0]))
            return sig
    c.values(rows, vals, [abs(scale) * (abs(y1[k]) + abs(y2[k])) for k in range(n)], 1, "op-" + {"+": "plus", "-": "minus", "*": "times", "x": "times", "/": "div", "=": "equal", "d": "absdiff", "d2": "sqdiff"}[op])
    c.flags(rows, f1)
    return sig + "".join("%d" % (fl(r[1]) != 0) for r in rows)


ORACLE = dict(linearop=o_linearop, scale=o_scale, integrate=o_integrate, shift=o_shift, smooth=o_smooth,
              extrapolate=o_extrapolate, boltzmann=o_boltzmann, ibi=o_ibi, combine=o_combine)


def evaluate(case, res, twin=None):
    script, opts, g, tabs = parsecase(case)
    if res.hang:        # a script that does not terminate even alone with the 10x limit: a real violation
        return [(script + "-hang", "perl %s %s" % (FILES[script], res.err))], (script, "", "hang")
    c = Chk(script)
    if opts.get("bare") == "1" and opts.get("tw", "unset") != "yes":
        # a table without flag column is only allowed in sloppy mode (VOTCA_TABLES_WITHOUT_FLAG=yes)
        if res.ok or res.out is not None:
            c.fail("flagless-table-accepted-without-sloppy-mode", "VOTCA_TABLES_WITHOUT_FLAG=%s: table without flag column was read (all rows as flag i)"
                   % (repr(TWVAL[opts["tw"]]) if "tw" in opts else "unset"))
        return c.fails, (script, "", "bare-refused:" + opts.get("tw", "unset"))
    sig = ORACLE[script](c, opts, g, tabs, res)
    if twin is not None and not twin.hang:
        # any value other than 'yes' must be irrelevant: byte-identical to the call with the variable unset
        if (res.ok, res.stdout, res.out) != (twin.ok, twin.stdout, twin.out):
            c.fail("VOTCA_TABLES_WITHOUT_FLAG-other-than-yes-changes-result",
                   "VOTCA_TABLES_WITHOUT_FLAG=%r: output %r, with the variable unset %r"
                   % (TWVAL[opts["tw"]], (res.out if res.out is not None else res.stdout + res.err)[:120], (twin.out if twin.out is not None else twin.stdout + twin.err)[:120]))
        sig = "env:%s:%s" % (opts["tw"], sig)
    return c.fails, (script, ",".join("%s=%s" % kv for kv in sorted(opts.items()) if kv[0] in ("op", "fn", "type", "from", "region")), sig)


# ----------------------------------------------------------------------------- table families
def full(n, ys=Y, fls=FL):
    """all n-row tables over ys x fls, simplest first"""
    for f in itertools.product(fls, repeat=n):
        fs = "".join(f)
        for y in itertools.product(ys, repeat=n):
            yield [list(y), fs]


def values(n, ys=Y, flags=None):
    for y in itertools.product(ys, repeat=n):
        yield [list(y), flags or "i" * n]


CELLS = [(y, f) for f in FL for y in Y]


def dev(base_y, base_f, kmax, cells=CELLS):
    """all tables that differ from the base table in at most kmax cells (cell = value and flag)"""
    n = len(base_y)
    yield [list(base_y), base_f]
    for k in range(1, kmax + 1):
        for pos in itertools.combinations(range(n), k):
            alts = [[cf for cf in cells if cf != (base_y[p], base_f[p])] for p in pos]
            for repl in itertools.product(*alts):
                y, f = list(base_y), list(base_f)
                for p, (yy, ff) in zip(pos, repl):
                    y[p], f[p] = yy, ff
                yield [y, "".join(f)]


B7 = [(["0.5", "1", "2", "2", "1", "0.5", "1"], "iiiiiii"),
      (["0", "0", "0.5", "2", "1", "1", "0"], "ooiiiio")]
B10 = (["2", "1", "0.5", "1", "2", "2", "1", "0.5", "1", "2"], "i" * 10)
B13 = (["0", "0.5", "1", "2", "1", "0.5", "1", "2", "2", "1", "0.5", "1", "0"], "i" * 13)


def d7(k):
    for by, bf in B7:
        for t in dev(by, bf, k):
            yield t


class Sel:
    """case index i (position in the full enumeration) -> is it mine?  blocks of 8 consecutive cases stay together"""

    def __init__(self, mine):
        self.i, self.mine = 0, mine

    def __call__(self):
        self.i += 1
        return self.mine((self.i - 1) // 8)


def gen(tier, mode, take):
    """the enumerated space, simplest first.  yields the case strings for which take() is true"""
    T = tier == "thorough"
    real_mkcase = globals()["mkcase"]

    def mkcase(*a):           # the case string is only built for the cases of this shard
        return real_mkcase(*a) if take() else None

    def one(script, opts, fam, g="a"):
        for t in fam:
            yield mkcase(script, opts, g, [t])

    if mode == "direct":
        # every script x every option below on all 3-row tables over y in {0,2}, flags {i,u}, one perl process per case
        small = lambda n=3: full(n, ["0", "2"], "iu")
        for a, b in (("2", "0.5"), ("-1", "0")):
            for wf in (None, "i", "u", "io"):
                for onx in ("0", "1"):
                    o = dict(a=a, b=b, onx=onx)
                    if wf:
                        o["wf"] = wf
                    yield from one("linearop", o, small())
        yield from one("linearop", dict(a="2", b="0.5", sloppy="1"), values(3, ["0", "2"]))
        yield from one("linearop", dict(a="2", b="0.5", hdr="1"), small())
        for p in (("1", "0"), ("2", "-1")):
            yield from one("scale", dict(p1=p[0], p2=p[1]), small())
        for o in (dict(), {"from": "left"}, dict(sphere="1"), dict(S="1", kbT="2.49")):
            yield from one("integrate", o, small(), "z" if "S" in o else "a")
        for ty in (None, "bond", "angle", "dihedral", "bonded", "non-bonded"):
            yield from one("shift", dict(type=ty) if ty else {}, small())
        yield from one("smooth", {}, small())
        yield from one("smooth", {}, small(4))
        for fn in ("constant", "linear", "quadratic", "exponential", "sasha", "periodic"):
            for region in ("leftright", "left", "right"):
                yield from one("extrapolate", dict(fn=fn, region=region, A="1"), full(3, ["0.5", "2"], "iu"))
        yield from one("extrapolate", dict(A="1", nfu="1"), full(3, ["0.5", "2"], "iu"))
        for ty in ("non-bonded", "bond", "angle", "dihedral"):
            yield from one("boltzmann", dict(kbT="2.49", type=ty), dev(B10[0], B10[1], 1, [("0", "i"), ("2", "u")]))
        for tg in values(3, ["0", "2"]):
            for cu in values(3, ["0", "1"]):
                for pf in ("iii", "uii", "iiu"):
                    yield mkcase("ibi", dict(kbT="2.49"), "a", [tg, cu, [["0"] * 3, pf]])
        for op in ("=", "+", "-", "*", "/", "d", "d2", "x"):
            for t1 in values(3, ["0", "2"]):
                for t2 in values(3, ["1", "2"] if op == "/" else ["0", "2"]):
                    yield mkcase("combine", dict(op=op), "a", [t1, t2])
        yield from gen_env(tier, mode, mkcase)
        return

    # ---------------- linearop
    dq = lambda: d7(2 if T else 1)
    for wf in (None, "i", "o", "u", "io"):
        for onx in ("0", "1"):
            if onx == "1" and not T and wf not in (None, "o"):
                continue
            o = dict(a="2", b="0.5", onx=onx)
            if wf:
                o["wf"] = wf
            yield from one("linearop", o, full(3))
            if T and (onx == "0" or wf == "o"):
                yield from one("linearop", o, full(4))
    for a, b in (("-1", "0"), ("0", "1"), ("-0.5", "-2")) + ((("1", "0"),) if T else ()):
        yield from one("linearop", dict(a=a, b=b), full(3))
    for wf in (None, "i"):
        o = dict(a="-1", b="0.5", err="1")
        if wf:
            o["wf"] = wf
        for t in full(3):
            yield mkcase("linearop", o, "a", [t + [["0.5", "1", "0"]]])
    yield from one("linearop", dict(a="2", b="0.5", sloppy="1"), values(3))
    yield from one("linearop", dict(a="2", b="0.5", hdr="1"), full(3, ["0", "1e-11", "2"]))
    yield from one("linearop", dict(a="2", b="0.5", wf="i"), dq())
    # ---------------- scale
    for p1, p2 in (("1", "1"), ("1", "0"), ("0", "1"), ("2", "-1"), ("0.5", "2")):
        yield from one("scale", dict(p1=p1, p2=p2), full(3))
        if T and p1 in ("1", "2") and p2 != "1":
            yield from one("scale", dict(p1=p1, p2=p2), full(4))
    yield from one("scale", dict(p1="2", p2="-1"), dq())
    # ---------------- integrate
    IO = (dict(), {"from": "left"}, dict(sphere="1"), {"sphere": "1", "from": "left"}, dict(S="1", kbT="2.49"),
          {"S": "1", "kbT": "1", "from": "left"})
    for o in IO:
        gg = "z" if "S" in o else "a"
        yield from one("integrate", o, full(3), gg)
        if T and o.get("kbT") != "1" and not ("sphere" in o and "from" in o):
            yield from one("integrate", o, full(4), gg)
    for fr in ("right", "left"):
        for t in values(3):
            for e in itertools.product(["0", "0.5", "1"], repeat=3):
                yield mkcase("integrate", {"err": "1", "from": fr}, "a", [t + [list(e)]])
        if T:
            for t in values(4, ["0", "1", "2"]):
                for e in itertools.product(["0", "0.5", "1"], repeat=4):
                    yield mkcase("integrate", {"err": "1", "from": fr}, "a", [t + [list(e)]])
    yield from one("integrate", dict(sloppy="1"), values(3))
    for o in (dict(), {"from": "left"}):
        yield from one("integrate", o, dq())
    # ---------------- potential_shift
    for ty in (None, "non-bonded", "bond", "angle", "dihedral", "bonded"):
        o = dict(type=ty) if ty else {}
        yield from one("shift", o, full(3))
        if T and ty in (None, "bond", "bonded"):
            yield from one("shift", o, full(4))
    for ty in ("non-bonded", "bond"):
        yield from one("shift", dict(type=ty), dq())
    # ---------------- smooth
    yield from one("smooth", {}, full(3))
    yield from one("smooth", {}, full(4) if T else full(4, ["0", "1", "2"]))
    yield from one("smooth", {}, d7(3 if T else 2))
    # ---------------- extrapolate
    FN = ("constant", "linear", "quadratic", "exponential", "sasha", "periodic")
    for fn in FN:
        yield from one("extrapolate", dict(fn=fn, A="1"), full(3))
        if T:
            for A in ("1", "2"):
                yield from one("extrapolate", dict(fn=fn, A=A), full(4))
    for fn in ("linear", "periodic") + (("quadratic", "sasha", "exponential", "constant") if T else ()):
        for region in ("left", "right"):
            yield from one("extrapolate", dict(fn=fn, A="1", region=region), full(3))
            if T and fn == "linear":
                yield from one("extrapolate", dict(fn=fn, A="1", region=region), full(4))
    yield from one("extrapolate", dict(fn="linear", A="2", nfu="1"), full(3))
    yield from one("extrapolate", dict(fn="quadratic", A="1", curv="2"), full(3))
    yield from one("extrapolate", dict(A="1"), full(3))                     # default function
    for fn in FN:
        yield from one("extrapolate", dict(fn=fn), d7(2) if (T or fn in ("linear", "quadratic")) else d7(1))   # default avgpoints 3
    if T:
        for fn in ("linear", "quadratic"):
            yield from one("extrapolate", dict(fn=fn, A="2", region="right"), d7(2))
            yield from one("extrapolate", dict(fn=fn, A="2", region="left", nfu="1"), d7(2))
    # ---------------- dist_boltzmann_invert  (the script refuses fewer than 10 valid points: sizes 10 and 13)
    BO = [dict(kbT="2.49"), dict(kbT="1", type="bond"), dict(kbT="2.49", type="angle"), dict(kbT="2.49", min="0.75"),
          dict(kbT="1", type="dihedral", min="0")]
    for k, o in enumerate(BO):
        yield from one("boltzmann", o, dev(B10[0], B10[1], 2 if (T or k in (0, 1, 3)) else 1))
    for o in ((BO[:2] + BO[3:]) if T else BO[4:]):   # no angle type: the 13-row grid ends beyond pi
        yield from one("boltzmann", o, dev(B13[0], B13[1], 2 if T else 1))
    if T:
        yield from one("boltzmann", dict(kbT="2.49", type="non-bonded", min="1e-12"), dev(B13[0], B13[1], 2))
    # ---------------- update_ibi_pot : (target rdf, current rdf, flags of the current potential)
    def ibi(n, ytg, ycu, pfs, kbt):
        for pf in pfs:
            for tg in values(n, ytg):
                for cu in values(n, ycu):
                    yield mkcase("ibi", dict(kbT=kbt), "a", [tg, cu, [["0"] * n, pf]])
    IU3 = ["".join(p) for p in itertools.product("iu", repeat=3)]
    if T:
        yield from ibi(3, Y, Y, ["".join(p) for p in itertools.product(FL, repeat=3)], "2.49")
        yield from ibi(3, Y, Y, IU3[:4], "1")
        yield from ibi(4, ["0", "1", "2"], Y, ["iiii", "uiii", "iiiu", "iuii", "iiui", "uiiu"], "2.49")
    else:
        yield from ibi(3, ["0", "1", "2"], Y, IU3, "2.49")
        yield from ibi(3, ["0", "1e-11", "0.5", "2"], Y, ["iii"], "2.49")
        yield from ibi(3, ["0", "1", "2"], Y, ["ooo", "oiu"], "2.49")
        yield from ibi(3, ["0", "1", "2"], Y, ["iii"], "1")
    # 7 rows: at most kmax rows deviate from a base (tgt, cur, potflag) triple, full triple alphabet
    b_t = ["0", "0.5", "2", "1", "1", "0.5", "1"]
    b_c = ["0", "1", "2", "0.5", "1", "1", "1"]
    b_p = "iiiiiiu"
    trip = [(a, b, p) for p in FL for a in Y for b in Y]
    for k in range(0, (2 if T else 1) + 1):
        for pos in itertools.combinations(range(7), k):
            alts = [[t for t in trip if t != (b_t[p], b_c[p], b_p[p])] for p in pos]
            for repl in itertools.product(*alts):
                t, cu, p = list(b_t), list(b_c), list(b_p)
                for q, (a, b, pp) in zip(pos, repl):
                    t[q], cu[q], p[q] = a, b, pp
                yield mkcase("ibi", dict(kbT="2.49"), "a", [[t, "i" * 7], [cu, "i" * 7], [["0"] * 7, "".join(p)]])
    # ---------------- table_combine
    OPS = ("=", "+", "-", "*", "/", "d", "d2", "x")
    Yc = Y if T else ["0", "1e-11", "1", "2"]
    for op in OPS:
        for t1 in values(3, Yc):
            for t2 in values(3, Yc):
                yield mkcase("combine", dict(op=op), "a", [t1, t2])
    Ye = ["0", "1e-11", "1", "1.000005", "2"]
    for eps in (None, "1e-7"):
        for t1 in values(3, Ye if T else (Ye[1:] if eps is None else Ye[2:])):
            for t2 in values(3, Ye if T else (Ye[1:] if eps is None else Ye[2:])):
                o = dict(op="=")
                if eps:
                    o["eps"] = eps
                yield mkcase("combine", o, "a", [t1, t2])
        for t1 in values(3, Ye[2:]):
            for t2 in values(3, Ye[2:]):
                o = dict(op="=", die="1")
                if eps:
                    o["eps"] = eps
                yield mkcase("combine", o, "a", [t1, t2])
    for op in ("+", "d", "="):
        for wf in (None, "i", "io"):
            for sm in ("0", "1"):
                for f in itertools.product(FL, repeat=3):
                    for t1 in values(3, ["0", "1", "2"], "".join(f)):
                        o = dict(op=op, sum=sm)
                        if wf:
                            o["wf"] = wf
                        yield mkcase("combine", o, "a", [t1, [["1", "2", "0.5"], "".join(f)]])
    for nf in ("0", "1"):
        for fa in itertools.product(FL, repeat=3):
            for fb in itertools.product(FL, repeat=3):
                yield mkcase("combine", dict(op="+", nf=nf), "a", [[["1", "2", "0.5"], "".join(fa)], [["2", "0", "1"], "".join(fb)]])
    for sc in ("2", "-0.5"):
        for op in ("+", "d2", "=") if T else ("+", "="):
            for sm in ("0", "1"):
                if not T and op == "=" and (sc, sm) != ("2", "1"):
                    continue
                for t1 in values(3, ["0", "1", "2"]):
                    for t2 in values(3, ["0", "1", "2"]):
                        yield mkcase("combine", dict(op=op, scale=sc, sum=sm), "a", [t1, t2])
    for op in ("+", "/", "d"):
        for t in d7(1):
            yield mkcase("combine", dict(op=op), "a", [t, [["1", "2", "0.5", "1", "2", "0.5", "1"], t[1]]])
    yield from gen_env(tier, mode, mkcase)



def gen_env(tier, mode, mk):
    """VOTCA_TABLES_WITHOUT_FLAG x every tool on tables that carry o/u rows, and flag-less tables"""
    T = tier == "thorough"
    if mode == "direct":
        vals, small = ("no", "YES"), True
    else:
        vals, small = (("no", "off", "false", "0", "empty", "YES") if T else ("no", "off", "empty", "YES")), False
    tabs3 = lambda: full(3, ["0.5", "2"], FL)
    tools = [("linearop", dict(a="2", b="0.5", wf="i")), ("smooth", {}), ("shift", dict(type="bonded")),
             ("extrapolate", dict(fn="linear", A="1")), ("integrate", {"from": "left"}), ("scale", dict(p1="2", p2="-1"))]
    big = ("linearop", "smooth", "shift", "extrapolate")
    for v in vals:
        for script, o in tools:
            oo = dict(o, tw=v)
            fam = full(3) if (T and script in big and not small) else (full(3, ["2"], FL) if small else tabs3())
            for t in fam:
                yield mk(script, oo, "a", [t])
        # readin_table_err path
        for t in (full(3, ["2"], FL) if small else tabs3()):
            yield mk("linearop", dict(a="-1", b="0.5", err="1", wf="i", tw=v), "a", [t + [["0.5", "1", "0"]]])
            yield mk("integrate", dict(err="1", tw=v), "a", [t + [["0.5", "1", "0"]]])
        for t in dev(B10[0], B10[1], 1, [("0", "i"), ("2", "u"), ("1", "o"), ("0", "o")]):
            yield mk("boltzmann", dict(kbT="2.49", tw=v), "a", [t])
        for pf in itertools.product(FL, repeat=3):
            for tg in values(3, ["1", "2"] if not small else ["2"], "iou"):
                yield mk("ibi", dict(kbT="2.49", tw=v), "a", [tg, [["1", "2", "1"], "uoi"], [["0"] * 3, "".join(pf)]])
            for t1 in values(3, ["0", "2"] if not small else ["2"], "".join(pf)):
                yield mk("combine", dict(op="+", wf="i", tw=v), "a", [t1, [["1", "2", "0.5"], "".join(pf)]])
                yield mk("combine", dict(op="d", wf="io", sum="1", tw=v), "a", [t1, [["1", "2", "0.5"], "".join(pf)]])
    # tables without flag column: refused unless the variable is exactly 'yes' (then every row has flag i)
    for v in (None, "yes") + tuple(vals):
        e = dict(bare="1")
        if v:
            e["tw"] = v
        for t in values(3, ["0.5", "2"]):
            for script, o in tools:
                yield mk(script, dict(o, **e), "a", [t])
            yield mk("linearop", dict(a="-1", b="0.5", err="1", **e), "a", [t + [["0.5", "1", "0"]]])
            yield mk("integrate", dict(err="1", **e), "a", [t + [["0.5", "1", "0"]]])
            yield mk("ibi", dict(kbT="2.49", **e), "a", [t, [["1", "2", "1"], "iii"], [["0"] * 3, "iii"]])
            yield mk("combine", dict(op="+", **e), "a", [t, [["1", "2", "0.5"], "iii"]])
        for t in dev(B10[0], B10[1], 1, [("0", "i")]):
            yield mk("boltzmann", dict(kbT="2.49", **e), "a", [t])


RULE = ("Perl table scripts read from the source tree, executed unmodified (batch: `do FILE` in one perl per chunk; "
        "direct: one perl process per case; PERL5LIB=script dir; VOTCA_TABLES_WITHOUT_FLAG for the sloppy cases). "
        "Alphabet: y in {0,1e-11,0.5,1,2}, flag in {i,o,u}, uniform grids x=0.25+0.25k (and 0+0.5k where r=0 matters). "
        "Bound: ALL 3-row tables (3375) for every enumerated option combination of table_linearop(a,b,--withflag,--on-x,"
        "--with-errors), table_scale, table_integrate(--from,--sphere,--with-S/--kbT,--with-errors), potential_shift(all types), "
        "table_smooth, table_extrapolate(6 functions, 3 regions, --avgpoints, --no-flagupdate, --curvature); thorough: ALL 4-row tables (50625) "
        "for table_smooth and the main options of the others (quick: 4-row tables over {0,1,2} for table_smooth); 7-row tables = all tables within 2 cells "
        "(3 for smooth/thorough) of two base tables; dist_boltzmann_invert (needs >=10 valid points) on all 10- and 13-row tables "
        "within 2 cells of a base, kT in {1,2.49}, 4 types, --min; update_ibi_pot on all (target,current,potential-flag) triples of "
        "3 rows (quick: reduced target alphabets / potential flags {i,u}^3+2) and 7-row triples within 1 (thorough 2) rows of a base; "
        "table_combine on all pairs of 3-row value vectors for the 8 operations plus --withflag/--sum/--die/--error/--scale/--no-flags grids. "
        "Oracle: closed-form Python from each help text (allowed sets where the text leaves a choice), 1e-12 relative tolerance "
        "(perl prints 15 digits). Process environment: VOTCA_TABLES_WITHOUT_FLAG (the only variable the scripts read) in "
        "{no,off,false,0,'',YES} (quick: no,off,'',YES) x every tool (both readin_table and readin_table_err) on 3-row tables over all 27 flag "
        "strings (thorough: all 3375 for the flag-sensitive tools), 10-row dist tables, ibi/combine over all 27 flag strings: result byte-identical "
        "to the run with the variable unset AND equal to the closed form; tables without flag column under {unset, each value}: refused, under 'yes': "
        "read with flag i. Distinct = (script, main option, branch/flag signature of the result).")


def main():
    a = pybsx.parse()
    mode = "batch"
    if "--mode" in a.rest:
        mode = a.rest[a.rest.index("--mode") + 1]
    if a.case is not None:
        tw = twin_of(a.case)
        twres = run_direct(tw, "case", alone=True) if tw else None
        res = run_direct(a.case, "case", alone=True)
        fails, sig = evaluate(a.case, res, twres)
        script, texts, argv, envv, outfile = plan(a.case)
        print("case:", a.case)
        print("command: perl %s %s   (VOTCA_TABLES_WITHOUT_FLAG=%s)" % (FILES[script], " ".join(argv), envv))
        for k, t in enumerate(texts):
            print("--- input @%d\n%s" % (k, t), end="")
        print("--- exit ok=%s err=%s\n--- stdout: %s" % (res.ok, res.err[:300], res.stdout.strip()[-300:]))
        print("--- output\n%s" % (res.out if res.out is not None else "(none)"))
        for key, what in fails:
            print("FAIL %s: %s" % (key, what))
        print("signature:", sig)
        sys.exit(3 if fails else 0)

    R = pybsx.Report("C19", "tables" if mode == "batch" else "direct", a.tier)
    R.rule = RULE
    R.max_samples = 12
    chunk, CH = [], 1000 if mode == "batch" else 50
    nsample = {}

    def flush():
        if HUNG:
            skipped = [cs for cs in chunk if cs.split("|", 1)[0] in HUNG]
            if skipped:
                R.cap("script(s) %s do not terminate: their remaining cases were not started (counter not_started_after_hang)" % ",".join(sorted(HUNG)))
                R.count("not_started_after_hang", len(skipped))
                chunk[:] = [cs for cs in chunk if cs.split("|", 1)[0] not in HUNG]
        if not chunk:
            return
        twins = {}
        for cs in chunk:
            if "tw=" in cs:
                t = twin_of(cs)
                if t is not None:
                    twins.setdefault(t, None)
        todo = chunk + list(twins)
        results = run_batch(todo) if mode == "batch" else [(run_direct(cs, "d") if cs.split("|", 1)[0] not in HUNG else Res(False, "", "not started", None, "skipped")) for cs in todo]
        for t, r in zip(todo[len(chunk):], results[len(chunk):]):
            twins[t] = r
        R.count("unset_twin_runs", len(twins))
        for cs, res in zip(chunk, results):
            if res.hang == "skipped":
                R.cap("script(s) %s do not terminate: their remaining cases were not started (counter not_started_after_hang)" % ",".join(sorted(HUNG)))
                R.count("not_started_after_hang")
                continue
            tw = twins.get(twin_of(cs)) if "tw=" in cs else None
            if tw is not None and tw.hang == "skipped":
                tw = None
            fails, sig = evaluate(cs, res, tw)
            R.eval()
            R.count(sig[0])
            R.cls(sig)
            for key, what in fails:
                R.fail(key, what, cs)
            if not fails and nsample.get(sig[0], 0) < 1 and res.out and sig[2] not in ("died", "refused") and "1e-11" in cs and "2" in cs and "o" in cs:
                nsample[sig[0]] = 1
                R.sample("%s -> %s" % (cs, " / ".join(" ".join(r) for r in rows_of(res.out))))
        del chunk[:]

    for cs in gen(a.tier, mode, Sel(a.mine)):
        if cs is None:
            continue
        chunk.append(cs)
        if len(chunk) >= CH:
            flush()
    flush()
    for k, v in STATS.items():
        R.count(k, v)
    if STATS["timeouts_retried"] or STATS["spawn_retried"]:
        R.assumptions.append("%d process time-outs were repeated alone with a 10x limit, %d process starts repeated (overloaded machine)"
                             % (STATS["timeouts_retried"], STATS["spawn_retried"]))
    R.write(a.out)


if __name__ == "__main__":
    main()
