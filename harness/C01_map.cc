// C01 — coarse-grained mapping is the weighted, periodic-image-aware linear map.
// Library path: generated mapping xml -> CGEngine::LoadMoleculeType -> CreateCGTopology ->
// TopologyMap::Apply on an in-memory atomistic topology, for EVERY frame of a stated finite
// lattice of (mapping definition x presence mask x box x placement x image shifts), compared
// with a long-double recomputation (independent brute-force image search) and with the
// metamorphic relations of the statement (whole-box shifts of non-first parents, rigid
// translation, convex hull, over-sized beads rejected).
// map.cc / topologymap.cc / cgmoleculedef.cc / cgengine.cc are compiled INTO this harness
// (with _GLIBCXX_ASSERTIONS), everything else comes from libvotca_csg / libvotca_tools.
#include <array>
#include <fstream>
#include <iostream>
#include <memory>

#include "bsx.h"
#include "votca/csg/cgengine.h"
#include "votca/csg/topology.h"
#include "votca/csg/topologymap.h"

using namespace votca::csg;
using bsx::hexd;
using bsx::unhex;
typedef long double LD;
typedef std::array<LD, 3> V3;

// ------------------------------------------------------------------ fixed per-atom data
static const double MASS[4] = {12.011, 1.008, 15.9994, 0.0};
static const double VEL[4][3] = {{1.5, -0.25, 0.125}, {-2.0, 0.7, 3.1}, {0.01, 40.0, -7.5}, {-0.3, -0.9, 1e-3}};
static const double FRC[4][3] = {{100.5, -20.25, 3.0}, {-7.0, 11.0, 13.0}, {0.5, 0.25, -1000.0}, {17.0, -19.0, 23.0}};
static const double TR[3] = {0.37, -1.21, 2.6};  // rigid translation of molecule 2
static const double EPS = 2.220446049250313e-16;

// ------------------------------------------------------------------ case description
struct Def {
  int k = 1;      // atoms per molecule = parents of CG bead C1
  int sym = 1;    // 1 sphere, 3 ellipsoid
  bool rev = false;  // C1 lists the atoms in reverse order (first parent = last atom)
  std::vector<std::string> w;  // weight tokens, mapping order
  std::vector<std::string> d;  // d tokens (empty = no <d>)
  int dmode = 0;               // 0 absent 1 =w 2 one-hot 3 generic   (label only)
};
struct Par { double off[3]; int n[3]; };
struct Frame {
  double box[9];  // a(3) b(3) c(3): box vectors = columns of the votca box matrix
  double r0[3];
  std::vector<Par> par;  // k-1 non-first parents, mapping order
};
struct Case {
  Def def;
  int pres = 7;  // bit0 positions, bit1 velocities, bit2 forces
  Frame cur;
  bool has_prev = false;
  Frame prev;  // frame mapped with the same TopologyMap immediately before
};

static std::string join(const std::vector<std::string> &v) {
  std::string s;
  for (size_t i = 0; i < v.size(); i++) s += (i ? "," : "") + v[i];
  return s;
}
static std::string framestr(const Frame &f, const std::string &p) {
  std::string s = ";" + p + "box=";
  for (int i = 0; i < 9; i++) s += (i ? "," : "") + hexd(f.box[i]);
  s += ";" + p + "r0=";
  for (int i = 0; i < 3; i++) s += (i ? "," : "") + hexd(f.r0[i]);
  s += ";" + p + "par=";
  for (size_t j = 0; j < f.par.size(); j++) {
    if (j) s += "/";
    for (int i = 0; i < 3; i++) s += hexd(f.par[j].off[i]) + ",";
    for (int i = 0; i < 3; i++) s += std::to_string(f.par[j].n[i]) + (i < 2 ? "," : "");
  }
  return s;
}
static std::string casestr(const Case &c) {
  std::string s = "lib;k=" + std::to_string(c.def.k) + ";sym=" + std::to_string(c.def.sym) + ";rev=" + (c.def.rev ? "1" : "0") +
                  ";w=" + join(c.def.w) + ";d=" + (c.def.d.empty() ? std::string("-") : join(c.def.d)) +
                  ";dmode=" + std::to_string(c.def.dmode) + ";pres=" + std::to_string(c.pres);
  s += framestr(c.cur, "");
  if (c.has_prev) s += framestr(c.prev, "p");
  return s;
}
static Frame parseframe(std::map<std::string, std::string> &m, const std::string &p) {
  Frame f;
  auto b = bsx::split(m[p + "box"], ',');
  for (int i = 0; i < 9; i++) f.box[i] = unhex(b.at(i));
  auto r = bsx::split(m[p + "r0"], ',');
  for (int i = 0; i < 3; i++) f.r0[i] = unhex(r.at(i));
  if (!m[p + "par"].empty())
    for (auto &ps : bsx::split(m[p + "par"], '/')) {
      auto t = bsx::split(ps, ',');
      Par q;
      for (int i = 0; i < 3; i++) q.off[i] = unhex(t.at(i));
      for (int i = 0; i < 3; i++) q.n[i] = atoi(t.at(3 + i).c_str());
      f.par.push_back(q);
    }
  return f;
}
static Case parsecase(const std::string &s) {
  auto m = bsx::kvs(s);
  Case c;
  c.def.k = atoi(m["k"].c_str());
  c.def.sym = atoi(m["sym"].c_str());
  c.def.rev = m["rev"] == "1";
  c.def.w = bsx::split(m["w"], ',');
  if (m["d"] != "-") c.def.d = bsx::split(m["d"], ',');
  c.def.dmode = atoi(m["dmode"].c_str());
  c.pres = atoi(m["pres"].c_str());
  c.cur = parseframe(m, "");
  if (m.count("pbox")) { c.has_prev = true; c.prev = parseframe(m, "p"); }
  return c;
}

// ------------------------------------------------------------------ the real system
static int atom_of(const Def &d, int j) { return d.rev ? d.k - 1 - j : j; }  // mapping position -> atom index

static void write_xml(const Def &d, const std::string &path) {
  std::ofstream o(path);
  o << "<cg_molecule>\n <name>MC</name>\n <ident>M</ident>\n <topology>\n  <cg_beads>\n";
  o << "   <cg_bead><name>C1</name><type>T1</type><symmetry>" << d.sym << "</symmetry><mapping>m1</mapping>\n    <beads>";
  for (int j = 0; j < d.k; j++) o << " 1:M:A" << atom_of(d, j) + 1;
  o << " </beads></cg_bead>\n";
  if (d.k >= 2)
    o << "   <cg_bead><name>C2</name><type>T2</type><mapping>m2</mapping><beads>1:M:A" << atom_of(d, d.k - 1) + 1
      << "</beads></cg_bead>\n";
  o << "  </cg_beads>\n </topology>\n <maps>\n  <map><name>m1</name><weights>";
  for (auto &t : d.w) o << " " << t;
  o << " </weights>";
  if (!d.d.empty()) {
    o << "<d>";
    for (auto &t : d.d) o << " " << t;
    o << " </d>";
  }
  o << "</map>\n";
  if (d.k >= 2) o << "  <map><name>m2</name><weights>1</weights></map>\n";
  o << " </maps>\n</cg_molecule>\n";
}

struct Sys {
  Def def;
  int pres;
  CGEngine eng;
  Topology top, cg;
  std::unique_ptr<TopologyMap> map;
  std::vector<Bead *> atom;  // [mol*k + atom index], 3 molecules
  int ncg;                   // CG beads per molecule
  Sys(const Def &d, int p) : def(d), pres(p) {
    write_xml(d, "c01_map.xml");
    eng.LoadMoleculeType("c01_map.xml");
    for (int mol = 0; mol < 3; mol++) {
      top.CreateResidue("M");
      Molecule *mi = top.CreateMolecule("M");
      for (int i = 0; i < d.k; i++) {
        std::string ty = "Y" + std::to_string(i + 1);
        if (!top.BeadTypeExist(ty)) top.RegisterBeadType(ty);
        Bead *b = top.CreateBead(Bead::spherical, "A" + std::to_string(i + 1), ty, mol, MASS[i], 0.0);
        mi->AddBead(b, "1:M:A" + std::to_string(i + 1));
        if (p & 2) b->setVel(Eigen::Vector3d(VEL[i][0], VEL[i][1], VEL[i][2]));
        if (p & 4) b->setF(Eigen::Vector3d(FRC[i][0], FRC[i][1], FRC[i][2]));
        atom.push_back(b);
      }
    }
    map = eng.CreateCGTopology(top, cg);
    ncg = d.k >= 2 ? 2 : 1;
    if (cg.BeadCount() != 3 * ncg) throw std::logic_error("harness: unexpected CG bead count");
  }
};

// positions of the three molecules (mapping order): X[mol][j][c]
struct Pos { double x[3][4][3]; };
static void realise(const Def &d, const Frame &f, Pos &P) {
  const double *a = f.box, *b = f.box + 3, *c = f.box + 6;
  for (int j = 0; j < d.k; j++)
    for (int q = 0; q < 3; q++) {
      double base = f.r0[q], full = f.r0[q];
      if (j > 0) {
        const Par &p = f.par[j - 1];
        base = f.r0[q] + p.off[q];
        full = base + (a[q] * p.n[0] + b[q] * p.n[1] + c[q] * p.n[2]);
      }
      P.x[0][j][q] = full;
      P.x[1][j][q] = base;
      P.x[2][j][q] = full + TR[q];
    }
}
// set box + positions, run TopologyMap::Apply; returns true when it threw
static bool apply_frame(Sys &S, const Frame &f, const Pos &P) {
  Eigen::Matrix3d M;
  for (int col = 0; col < 3; col++)
    for (int row = 0; row < 3; row++) M(row, col) = f.box[3 * col + row];
  S.top.setBox(M);
  if (S.pres & 1)
    for (int mol = 0; mol < 3; mol++)
      for (int j = 0; j < S.def.k; j++)
        S.atom[mol * S.def.k + atom_of(S.def, j)]->setPos(Eigen::Vector3d(P.x[mol][j][0], P.x[mol][j][1], P.x[mol][j][2]));
  try {
    S.map->Apply();
  } catch (const std::exception &) {
    return true;
  }
  return false;
}

// ------------------------------------------------------------------ reference model
static V3 cross(const V3 &a, const V3 &b) { return {a[1] * b[2] - a[2] * b[1], a[2] * b[0] - a[0] * b[2], a[0] * b[1] - a[1] * b[0]}; }
static LD dot(const V3 &a, const V3 &b) { return a[0] * b[0] + a[1] * b[1] + a[2] * b[2]; }
static LD norm(const V3 &a) { return sqrtl(dot(a, a)); }
static V3 sub(const V3 &a, const V3 &b) { return {a[0] - b[0], a[1] - b[1], a[2] - b[2]}; }

static const char *boxtype(const Frame &f) {
  bool zero = true, diag = true;
  for (int i = 0; i < 9; i++) {
    if (f.box[i] != 0) zero = false;
    if (i != 0 && i != 4 && i != 8 && f.box[i] != 0) diag = false;
  }
  return zero ? "open" : (diag ? "orthorhombic" : "triclinic");
}
static LD shortest_height(const Frame &f) {
  V3 a{f.box[0], f.box[1], f.box[2]}, b{f.box[3], f.box[4], f.box[5]}, c{f.box[6], f.box[7], f.box[8]};
  LD vol = fabsl(dot(a, cross(b, c)));
  LD ha = vol / norm(cross(b, c)), hb = vol / norm(cross(c, a)), hc = vol / norm(cross(a, b));
  return std::min(ha, std::min(hb, hc));
}

struct Res {
  bool ok = true;
  std::string key, what;
  std::string cls;  // outcome class label
  std::string obs;  // observed values (for samples)
};
static std::string v3s(const Eigen::Vector3d &v) { return "(" + bsx::fmt(v[0]) + "," + bsx::fmt(v[1]) + "," + bsx::fmt(v[2]) + ")"; }
static std::string v3s(const V3 &v) { return "(" + bsx::fmt((double)v[0]) + "," + bsx::fmt((double)v[1]) + "," + bsx::fmt((double)v[2]) + ")"; }

// support-function test of q in conv(P): for a direction family that contains all face normals of a
// (possibly degenerate) simplex of <= 4 points
static bool in_hull(const std::vector<V3> &P, const V3 &q, LD scale, std::string &why) {
  std::vector<V3> E, U{{1, 0, 0}, {0, 1, 0}, {0, 0, 1}};
  for (size_t i = 0; i < P.size(); i++)
    for (size_t j = i + 1; j < P.size(); j++) E.push_back(sub(P[j], P[i]));
  if (E.size() > 6) E.resize(6);  // ties enlarge P; the first simplex edges suffice for an outer test
  for (auto &e : E) U.push_back(e);
  std::vector<V3> C;
  for (size_t i = 0; i < E.size(); i++)
    for (size_t j = i + 1; j < E.size(); j++) C.push_back(cross(E[i], E[j]));
  for (auto &c : C) U.push_back(c);
  for (auto &c : C)
    for (auto &e : E) U.push_back(cross(c, e));
  for (auto &u : U) {
    LD nu = norm(u);
    if (nu == 0) continue;
    LD lo = INFINITY, hi = -INFINITY;
    for (auto &p : P) { LD s = dot(u, p); lo = std::min(lo, s); hi = std::max(hi, s); }
    LD s = dot(u, q), tau = 1e-12L * nu * scale;
    if (s < lo - tau || s > hi + tau) {
      why = "direction " + v3s(u) + ": bead projects to " + bsx::fmt((double)s) + " outside [" + bsx::fmt((double)lo) + "," + bsx::fmt((double)hi) + "]";
      return false;
    }
  }
  return true;
}

static bool close3(const Eigen::Vector3d &got, const V3 &exp, LD tol) {
  for (int q = 0; q < 3; q++)
    if (!(fabsl((LD)got[q] - exp[q]) <= tol)) return false;
  return true;
}

// Evaluate ONE frame on S (which may have mapped other frames before).
static Res eval_frame(Sys &S, const Frame &f) {
  Res R;
  const Def &D = S.def;
  const int k = D.k;
  const std::string bt = boxtype(f), sy = D.sym == 3 ? "ellipsoid" : "sphere";
  const bool periodic = bt != "open", haspos = S.pres & 1;
  Pos P;
  realise(D, f, P);
  bool threw = apply_frame(S, f, P);

  // ---- weights
  std::vector<LD> w(k), wn(k), coef(k, 1.0L);
  LD W = 0;
  bool anyzero = false, allnonneg = true;
  for (int j = 0; j < k; j++) { w[j] = (LD)strtod(D.w[j].c_str(), nullptr); W += w[j]; if (w[j] == 0) anyzero = true; if (w[j] < 0) allnonneg = false; }
  for (int j = 0; j < k; j++) wn[j] = w[j] / W;
  if (!D.d.empty()) {
    LD Dsum = 0;
    std::vector<LD> dv(k);
    for (int j = 0; j < k; j++) { dv[j] = (LD)strtod(D.d[j].c_str(), nullptr); Dsum += dv[j]; }
    for (int j = 0; j < k; j++) coef[j] = w[j] != 0 ? (dv[j] / Dsum) / wn[j] : 0.0L;
  }

  // ---- geometry of molecule 0: candidate nearest images of every non-first parent
  std::vector<std::vector<V3>> cand(k);
  V3 a{f.box[0], f.box[1], f.box[2]}, b{f.box[3], f.box[4], f.box[5]}, c{f.box[6], f.box[7], f.box[8]};
  V3 x0{P.x[0][0][0], P.x[0][0][1], P.x[0][0][2]};
  bool tie = false, crossing = false;
  LD dmax = 0, scale = 0;
  cand[0].push_back({0, 0, 0});
  for (int j = 1; j < k && haspos; j++) {
    V3 xj{P.x[0][j][0], P.x[0][j][1], P.x[0][j][2]};
    V3 dv = sub(xj, x0);
    if (!periodic) { cand[j].push_back(dv); continue; }
    // brute force over 7^3 images on squared lengths (two passes: minimum, then everything within the tie band)
    LD best2 = INFINITY;
    for (int pass = 0; pass < 2; pass++) {
      LD lim2 = best2 * (1 + 2e-9L) + 1e-30L;
      for (int m0 = -3; m0 <= 3; m0++)
        for (int m1 = -3; m1 <= 3; m1++)
          for (int m2 = -3; m2 <= 3; m2++) {
            V3 u{dv[0] + a[0] * m0 + b[0] * m1 + c[0] * m2, dv[1] + a[1] * m0 + b[1] * m1 + c[1] * m2, dv[2] + a[2] * m0 + b[2] * m1 + c[2] * m2};
            LD n2 = dot(u, u);
            if (pass == 0) { if (n2 < best2) best2 = n2; }
            else if (n2 <= lim2) {
              cand[j].push_back(u);
              if (m0 || m1 || m2) crossing = true;
            }
          }
    }
    LD best = sqrtl(best2);
    if (cand[j].size() > 1) tie = true;
    dmax = std::max(dmax, best);
  }
  LD boxsum = 0;
  for (int i = 0; i < 9; i++) boxsum += fabsl((LD)f.box[i]);
  LD x0n = fabsl(x0[0]) + fabsl(x0[1]) + fabsl(x0[2]) + fabsl((LD)TR[0]) + fabsl((LD)TR[1]) + fabsl((LD)TR[2]);
  for (int j = 0; j < k; j++) {
    LD xn = 0;
    for (int q = 0; q < 3; q++) xn += fabsl((LD)P.x[0][j][q]);
    scale += fabsl(wn[j]) * (2 * x0n + xn + boxsum + 1);
  }
  const LD tolp = 256 * EPS * scale;

  // ---- over-size rule
  int status = 0;  // 0 must map, 1 must throw, 2 either (tie at half the shortest height)
  if (periodic && haspos && k > 1) {
    LD half = 0.5L * shortest_height(f);
    if (dmax > half * (1 + 1e-9L)) status = 1;
    else if (dmax >= half * (1 - 1e-9L)) status = 2;
  }
  R.cls = bt + "|k" + std::to_string(k) + "|" + sy + "|pres" + std::to_string(S.pres) + "|" +
          (threw ? "rejected" : (haspos ? (crossing ? "mapped-unwrapped" : "mapped-compact") : "mapped-nopos")) +
          (tie ? "|imgtie" : "") + (status == 2 ? "|halftie" : "") + (anyzero ? "|zerow" : "") + (allnonneg ? "" : "|negw") +
          "|d" + std::to_string(D.dmode) + (D.rev ? "|rev" : "");
  auto fail = [&](const std::string &key, const std::string &what) {
    R.ok = false; R.key = key; R.what = what;
    return R;
  };
  if (status == 1 && !threw)
    return fail("oversized-bead-mapped-" + sy + "-" + bt, "a parent is " + bsx::fmt((double)dmax) + " from the first parent (nearest image) > half the shortest box height " +
                                                        bsx::fmt((double)(0.5L * shortest_height(f))) + " but TopologyMap::Apply mapped it, C1 pos " +
                                                        v3s(S.cg.getBead(0)->getPos()));
  if (status == 0 && threw && D.sym == 3 && k < 3) {  // clean rejection of an ellipsoid without enough parents for its axes: allowed
    R.cls = "ellipsoid-with-fewer-than-3-parents-rejected-by-Apply";
    return R;
  }
  if (status == 0 && threw)
    return fail("valid-bead-rejected-" + sy + "-" + bt + (haspos ? "" : "-nopos"), "Apply threw although the largest parent distance is " + bsx::fmt((double)dmax));
  if (threw) return R;

  // ---- expected values of C1 (molecule 0)
  Bead *c1 = S.cg.getBead(0);
  LD msum = 0;
  V3 ve{0, 0, 0};
  for (int j = 0; j < k; j++) {
    int at = atom_of(D, j);
    msum += (LD)MASS[at];
    for (int q = 0; q < 3; q++) ve[q] += wn[j] * (LD)VEL[at][q];
  }
  // a wrong mass is reported only if nothing else is wrong with this frame (so that a known mass finding cannot mask the other clauses)
  std::string masskey, masswhat;
  if (!(fabsl((LD)c1->getMass() - msum) <= 64 * EPS * (msum + 1))) {
    masskey = "mass-" + sy;
    masswhat = "C1 mass " + bsx::fmt(c1->getMass()) + " expected sum of parent masses " + bsx::fmt((double)msum);
  }
  V3 pexp{0, 0, 0};
  if (haspos) {
    if (!c1->HasPos()) return fail("pos-missing-" + sy, "parents have positions but the CG bead has none");
    // try every combination of tied candidate images
    std::vector<size_t> idx(k, 0);
    bool found = false;
    V3 first{0, 0, 0};
    for (bool more = true; more;) {
      V3 e{0, 0, 0};
      for (int j = 0; j < k; j++)
        for (int q = 0; q < 3; q++) e[q] += wn[j] * (x0[q] + cand[j][idx[j]][q]);
      if (idx == std::vector<size_t>(k, 0)) first = e;
      if (close3(c1->getPos(), e, tolp)) { found = true; pexp = e; break; }
      more = false;
      for (int j = 1; j < k; j++) {
        if (++idx[j] < cand[j].size()) { more = true; break; }
        idx[j] = 0;
      }
    }
    if (!found)
      return fail("pos-" + sy + "-" + bt + (crossing ? "-crossing" : "-compact"),
                  "C1 pos " + v3s(c1->getPos()) + " expected " + v3s(first) + " (weight-normalised sum over nearest images, tol " + bsx::fmt((double)tolp) + ")");
    if (allnonneg) {
      std::vector<V3> pts;
      for (int j = 0; j < k; j++)
        for (auto &u : cand[j]) pts.push_back({x0[0] + u[0], x0[1] + u[1], x0[2] + u[2]});
      V3 q{c1->getPos()[0], c1->getPos()[1], c1->getPos()[2]};
      std::string why;
      if (!in_hull(pts, q, scale + 1, why)) return fail("hull-" + sy + "-" + bt, "C1 outside the convex hull of its unwrapped parents: " + why);
    }
  }
  if (S.pres & 2) {
    LD tv = 0;
    for (int j = 0; j < k; j++) tv += fabsl(wn[j]) * 50;
    if (!c1->HasVel()) return fail("vel-missing-" + sy, "parents have velocities but the CG bead has none");
    if (!close3(c1->getVel(), ve, 256 * EPS * tv))
      return fail("vel-" + sy, "C1 vel " + v3s(c1->getVel()) + " expected " + v3s(ve));
  }
  if (S.pres & 4) {
    if (!c1->HasF()) return fail("force-missing-" + sy, "parents have forces but the CG bead has none");
    bool okf = false;
    V3 fe0{0, 0, 0};
    // zero-weight parents: the statement is silent on 0/0; coefficient 0 (all of them) or 1 (plain sum) both accepted
    for (int z = 0; z < (anyzero ? 2 : 1) && !okf; z++) {
      V3 fe{0, 0, 0};
      LD tf = 0;
      for (int j = 0; j < k; j++) {
        int at = atom_of(D, j);
        LD cj = w[j] != 0 ? coef[j] : (LD)z;
        tf += fabsl(cj) * 1100;
        for (int q = 0; q < 3; q++) fe[q] += cj * (LD)FRC[at][q];
      }
      if (z == 0) fe0 = fe;
      if (close3(c1->getF(), fe, 256 * EPS * (tf + 1))) okf = true;
    }
    if (!okf)
      return fail("force-" + sy + "-d" + std::to_string(D.dmode) + (anyzero ? "-zerow" : ""),
                  "C1 force " + v3s(c1->getF()) + " expected " + v3s(fe0) + " ((d/w)-weighted sum; plain sum without d)");
  }
  // ---- C2: single parent = last parent of C1, must stay exactly where that atom is
  if (k >= 2) {
    Bead *c2 = S.cg.getBead(1);
    int at = atom_of(D, k - 1);
    if (!(fabsl((LD)c2->getMass() - (LD)MASS[at]) <= 64 * EPS * (MASS[at] + 1))) return fail("mass-single-parent", "C2 mass " + bsx::fmt(c2->getMass()));
    if (haspos) {
      V3 e{P.x[0][k - 1][0], P.x[0][k - 1][1], P.x[0][k - 1][2]};
      if (!c2->HasPos() || !close3(c2->getPos(), e, tolp))
        return fail(std::string("single-parent-pos-") + bt, "C2 (one parent) at " + (c2->HasPos() ? v3s(c2->getPos()) : std::string("<none>")) + " but its only parent is at " + v3s(e));
    }
    if ((S.pres & 2) && (!c2->HasVel() || !close3(c2->getVel(), V3{VEL[at][0], VEL[at][1], VEL[at][2]}, 256 * EPS * 50)))
      return fail("single-parent-vel", "C2 velocity differs from its only parent");
    if ((S.pres & 4) && (!c2->HasF() || !close3(c2->getF(), V3{FRC[at][0], FRC[at][1], FRC[at][2]}, 256 * EPS * 1100)))
      return fail("single-parent-force", "C2 force differs from its only parent");
  }
  // ---- metamorphic relations (molecule 1: image shifts removed; molecule 2: rigid translation)
  if (haspos && !tie && status == 0) {
    Bead *b1 = S.cg.getBead(S.ncg), *b2 = S.cg.getBead(2 * S.ncg);
    if (periodic) {
      V3 e{c1->getPos()[0], c1->getPos()[1], c1->getPos()[2]};
      if (!b1->HasPos() || !close3(b1->getPos(), e, 2 * tolp))
        return fail(std::string("shift-invariance-") + sy + "-" + bt, "mapped bead moved from " + v3s(b1->getPos()) + " to " + v3s(c1->getPos()) + " when non-first parents were displaced by whole box vectors");
    }
    V3 e2{c1->getPos()[0] + (LD)TR[0], c1->getPos()[1] + (LD)TR[1], c1->getPos()[2] + (LD)TR[2]};
    if (!b2->HasPos() || !close3(b2->getPos(), e2, 2 * tolp))
      return fail(std::string("translation-") + sy + "-" + bt, "rigidly translated molecule maps to " + v3s(b2->getPos()) + " expected " + v3s(e2));
  }
  if (!tie && status == 0) {
    Bead *b2 = S.cg.getBead(2 * S.ncg);
    if ((S.pres & 2) && !close3(b2->getVel(), ve, 256 * EPS * 200)) return fail("translation-vel", "velocity of the translated molecule differs");
    if ((S.pres & 4) && (b2->getF() - c1->getF()).norm() > 1e-9 * (1 + c1->getF().norm())) return fail("translation-force", "force of the translated molecule differs");
    if (!(fabsl((LD)b2->getMass() - (LD)c1->getMass()) <= 1e-12)) return fail("translation-mass", "mass of the translated molecule differs");
  }
  if (!masskey.empty()) return fail(masskey, masswhat);
  R.obs = std::string("C1 mass ") + bsx::fmt(c1->getMass()) + (haspos ? " pos " + v3s(c1->getPos()) : "") + ((S.pres & 2) ? " vel " + v3s(c1->getVel()) : "") +
          ((S.pres & 4) ? " F " + v3s(c1->getF()) : "");
  return R;
}

// evaluate a full case on a FRESH system (the --case path and the confirmation of in-sequence failures)
static Res eval_case_fresh(const Case &c) {
  std::unique_ptr<Sys> SP;
  try {
    SP = std::make_unique<Sys>(c.def, c.pres);
  } catch (const std::exception &e) {
    Res r;
    if (c.def.sym == 3 && c.def.k < 3) {  // an ellipsoid needs three parents for its axes: a clean rejection is allowed
      r.cls = "ellipsoid-with-fewer-than-3-parents-rejected-at-setup";
      return r;
    }
    r.ok = false; r.key = "definition-rejected"; r.what = std::string("LoadMoleculeType/CreateCGTopology threw: ") + e.what();
    return r;
  }
  Sys &S = *SP;
  if (c.has_prev) {
    Pos P;
    realise(c.def, c.prev, P);
    apply_frame(S, c.prev, P);
  }
  return eval_frame(S, c.cur);
}

// ------------------------------------------------------------------ alphabets
static const double BOXES[8][9] = {{0, 0, 0, 0, 0, 0, 0, 0, 0},
                                   {3.1, 0, 0, 0, 3.1, 0, 0, 0, 3.1},
                                   {2.7, 0, 0, 0, 3.9, 0, 0, 0, 5.3},
                                   {6.0, 0, 0, 0, 2.5, 0, 0, 0, 3.5},
                                   {3, 0, 0, 1, 3, 0, 0, 0, 3},
                                   {3, 0, 0, 1.5, 3, 0, 1.5, 1.5, 3},
                                   {4, 0, 0, -1.3, 3.2, 0, 1.1, -1.6, 3.5},
                                   {3.3, 0, 0, 0, 3.3, 0, 0.9, 0.7, 2.9}};
static const int NBOX = 8;
static double hmin_d(int bi) {
  if (bi == 0) return 3.0;
  Frame f;
  for (int i = 0; i < 9; i++) f.box[i] = BOXES[bi][i];
  return (double)shortest_height(f);
}
static const double DIRS[12][3] = {{1, 0, 0}, {0, -1, 0}, {0, 0, 1}, {0.7071067811865476, 0.7071067811865476, 0},
                                   {-0.5773502691896258, 0.5773502691896258, 0.5773502691896258},
                                   {0.30304576336566325, -0.5050762722761054, 0.8081220356417687},
                                   // additional directions of the over-size space
                                   {0, 1, 0}, {0, 0.7071067811865476, 0.7071067811865476}, {0.7071067811865476, 0, 0.7071067811865476},
                                   {0.5773502691896258, 0.5773502691896258, 0.5773502691896258}, {-1, 0, 0}, {0, 0, -1}};
typedef std::array<int, 3> I3;
static std::vector<I3> shifts(int kind) {  // 69: {-2..2}^3 with <=2 non-zero + {+-1}^3; 13: one axis +-1,+-2; 7: one axis +-1
  std::vector<I3> r;
  if (kind == 69) {
    for (int s = 0; s <= 6; s++)  // simplest first: by 1-norm
      for (int x = -2; x <= 2; x++) for (int y = -2; y <= 2; y++) for (int z = -2; z <= 2; z++) {
        int nz = (x != 0) + (y != 0) + (z != 0);
        bool ok = nz <= 2 || (abs(x) == 1 && abs(y) == 1 && abs(z) == 1);
        if (ok && abs(x) + abs(y) + abs(z) == s) r.push_back({x, y, z});
      }
  } else {
    r.push_back({0, 0, 0});
    int m = kind == 13 ? 2 : 1;
    for (int ax = 0; ax < 3; ax++) for (int v = -m; v <= m; v++) if (v) { I3 n{0, 0, 0}; n[ax] = v; r.push_back(n); }
  }
  return r;
}
static Frame mkframe(int bi, const double fr[3]) {
  Frame f;
  for (int i = 0; i < 9; i++) f.box[i] = BOXES[bi][i];
  const double *B = bi == 0 ? BOXES[1] : BOXES[bi];  // open box: positions on the cubic lattice
  double sc = bi == 0 ? 3.0 / 3.1 : 1.0;
  for (int q = 0; q < 3; q++) f.r0[q] = sc * (B[q] * fr[0] + B[3 + q] * fr[1] + B[6 + q] * fr[2]);
  return f;
}
static Par mkpar(int bi, int dir, double mag, const I3 &n) {
  Par p;
  double h = hmin_d(bi);
  for (int q = 0; q < 3; q++) { p.off[q] = DIRS[dir][q] * mag * h; p.n[q] = bi == 0 ? 0 : n[q]; }
  return p;
}

struct Unit { int space; Def def; int pres; int chunk, nchunks; };

static Def mkdef(int k, int sym, bool rev, std::vector<std::string> w, int dmode) {
  Def d;
  d.k = k; d.sym = sym; d.rev = rev; d.w = w; d.dmode = dmode;
  static const char *GEN[4] = {"3", "1", "0.5", "2"};
  if (dmode == 1) d.d = w;
  if (dmode == 2) {
    int first = 0;
    while (strtod(w[first].c_str(), nullptr) == 0) first++;
    for (int j = 0; j < k; j++) d.d.push_back(j == first ? "1" : "0");
  }
  if (dmode == 3)
    for (int j = 0; j < k; j++) d.d.push_back(strtod(w[j].c_str(), nullptr) == 0 ? "0" : GEN[j]);
  return d;
}

// frames of a unit (only those of its chunk); consecutive frames use DIFFERENT boxes
static std::vector<Frame> gen_frames(const Unit &u, bool thorough) {
  std::vector<Frame> F;
  const int k = u.def.k;
  long long g = 0;
  auto emit = [&](const std::function<Frame(int)> &mk, bool needs_shift) {
    if ((g++ % u.nchunks) != u.chunk) return;
    for (int bi = 0; bi < NBOX; bi++) {
      if (bi == 0 && needs_shift) continue;  // open box: image shifts are meaningless
      F.push_back(mk(bi));
    }
  };
  if (u.space == 1) {
    std::vector<double> fv3 = {0, 0.6, 1}, fv4 = {0, 0.25, 0.6, 1}, fv2 = {0, 0.6};
    std::vector<std::array<double, 3>> R0;
    auto cube = [&](const std::vector<double> &v) { R0.clear(); for (double x : v) for (double y : v) for (double z : v) R0.push_back({x, y, z}); };
    if (k <= 2) cube(thorough ? fv4 : fv3);
    else if (k == 3) cube(thorough ? fv3 : fv2);
    else { if (thorough) cube(fv2); else R0 = {{0, 0, 0}, {0.6, 1, 0.25}}; }
    if (k == 1) for (auto &r : R0) emit([&](int bi) { return mkframe(bi, r.data()); }, false);
    if (k == 2) {
      std::vector<double> mags = thorough ? std::vector<double>{0.15, 0.35} : std::vector<double>{0.15};
      for (auto &r : R0) for (int dir = 0; dir < 6; dir++) for (double mag : mags) for (auto &n : shifts(69))
        emit([&](int bi) { Frame f = mkframe(bi, r.data()); f.par.push_back(mkpar(bi, dir, mag, n)); return f; }, n != I3{0, 0, 0});
    }
    if (k == 3) {
      const int d1[3] = {0, 4, 5}, d2[3] = {1, 3, 2};
      auto sh = shifts(13);
      for (auto &r : R0) for (int a = 0; a < 3; a++) for (auto &n1 : sh) for (int b = 0; b < 3; b++) for (auto &n2 : sh)
        emit([&](int bi) { Frame f = mkframe(bi, r.data()); f.par.push_back(mkpar(bi, d1[a], 0.2, n1)); f.par.push_back(mkpar(bi, d2[b], 0.2, n2)); return f; },
             n1 != I3{0, 0, 0} || n2 != I3{0, 0, 0});
    }
    if (k == 4) {
      const int d1[2] = {0, 4}, d2[2] = {1, 5}, d3[2] = {2, 3};
      auto sh = shifts(7);
      for (auto &r : R0) for (int a = 0; a < 2; a++) for (auto &n1 : sh) for (int b = 0; b < 2; b++) for (auto &n2 : sh) for (int c = 0; c < 2; c++) for (auto &n3 : sh)
        emit([&](int bi) { Frame f = mkframe(bi, r.data()); f.par.push_back(mkpar(bi, d1[a], 0.2, n1)); f.par.push_back(mkpar(bi, d2[b], 0.2, n2));
                           f.par.push_back(mkpar(bi, d3[c], 0.2, n3)); return f; },
             n1 != I3{0, 0, 0} || n2 != I3{0, 0, 0} || n3 != I3{0, 0, 0});
    }
  } else if (u.space == 2) {
    // three placements per box: compact, cut by faces, far images
    const double ra[3] = {0.4, 0.5, 0.45}, rb[3] = {0.98, 0.01, 0.99};
    const int dd[3] = {3, 4, 5};
    const I3 nb[3] = {{-1, 0, 0}, {0, 0, -1}, {0, 1, -1}}, nc[3] = {{2, -1, 0}, {-2, 0, 1}, {0, 2, -2}};
    emit([&](int bi) { Frame f = mkframe(bi, ra); for (int j = 1; j < k; j++) f.par.push_back(mkpar(bi, j - 1, 0.2, {0, 0, 0})); return f; }, false);
    emit([&](int bi) { Frame f = mkframe(bi, rb); for (int j = 1; j < k; j++) f.par.push_back(mkpar(bi, dd[j - 1], 0.2, nb[j - 1])); return f; }, false);
    emit([&](int bi) { Frame f = mkframe(bi, ra); for (int j = 1; j < k; j++) f.par.push_back(mkpar(bi, dd[j - 1], 0.25, nc[j - 1])); return f; }, false);
  } else if (u.space == 3) {
    // over-sized beads: the LAST parent is put at mag*h_min in direction dir (+ image shift), earlier parents stay close
    const double R0[3][3] = {{0.5, 0.5, 0.5}, {0, 0, 0}, {1, 0.25, 0.6}};
    const int dirs[9] = {0, 6, 2, 3, 7, 8, 9, 4, 5};
    const double mags[10] = {0.3, 0.49, 0.5 - 1e-6, 0.5, 0.5 + 1e-6, 0.51, 0.6, 0.75, 1.0, 1.25};
    const I3 sh[3] = {{0, 0, 0}, {1, 0, 0}, {0, -2, 1}};
    for (auto &r : R0) for (int di : dirs) for (double mag : mags) for (auto &n : sh)
      emit([&](int bi) {
        Frame f = mkframe(bi, r);
        // earlier parents: sphere definitions put them 0.3 h on the OPPOSITE side of the first parent (so that unwrapping relative to
        // any parent but the first gives another result), the ellipsoid definition keeps them close
        for (int j = 1; j < k - 1; j++) {
          Par q = u.def.sym == 3 ? mkpar(bi, 1, 0.1, {0, 0, 0}) : mkpar(bi, di, -0.3, {0, 0, 0});
          f.par.push_back(q);
        }
        f.par.push_back(mkpar(bi, di, mag, n));
        if (u.def.sym == 3 && k == 3) std::swap(f.par[0], f.par[1]);  // ellipsoid definition: far parent second
        return f; }, false);
  } else if (u.space == 5) {
    const double ra[3] = {0.4, 0.5, 0.45};
    emit([&](int bi) { Frame f = mkframe(bi, ra); for (int j = 1; j < k; j++) f.par.push_back(mkpar(bi, j - 1, 0.2, {0, 0, 0})); return f; }, false);
  }
  return F;
}

static std::vector<std::vector<std::string>> weight_vectors(int k, const std::vector<std::string> &alpha) {
  std::vector<std::vector<std::string>> out;
  std::vector<int> idx(k, 0), radix(k, (int)alpha.size());
  do {
    std::vector<std::string> w;
    double s = 0;
    for (int j = 0; j < k; j++) { w.push_back(alpha[idx[j]]); s += strtod(alpha[idx[j]].c_str(), nullptr); }
    if (s != 0) out.push_back(w);
  } while (bsx::next(idx, radix));
  return out;
}

static std::vector<Unit> all_units(bool thorough) {
  std::vector<Unit> U;
  // S5 first (tiny): ellipsoidal beads with fewer than 3 parents
  for (int k = 1; k <= 2; k++)
    for (int pres : {1, 7, 6}) U.push_back({5, mkdef(k, 3, false, std::vector<std::string>(k, "1"), 0), pres, 0, 1});
  // S1 placement sweep
  std::vector<Def> d1 = {mkdef(1, 1, false, {"1"}, 0), mkdef(1, 1, false, {"0.5"}, 1),
                         mkdef(2, 1, false, {"1", "1"}, 0), mkdef(2, 1, false, {"16", "1"}, 0), mkdef(2, 1, true, {"16", "1"}, 3),
                         mkdef(2, 1, false, {"1", "0"}, 0), mkdef(2, 1, false, {"0", "1"}, 0), mkdef(2, 1, false, {"2", "-1"}, 0),
                         mkdef(3, 1, false, {"16", "1", "1"}, 0), mkdef(3, 3, false, {"16", "1", "1"}, 2), mkdef(3, 1, true, {"1", "0.5", "0"}, 3),
                         mkdef(3, 1, false, {"1", "-0.5", "1"}, 0),
                         mkdef(4, 1, false, {"1", "1", "1", "1"}, 0), mkdef(4, 3, false, {"16", "1", "0.5", "0"}, 0), mkdef(4, 1, true, {"12", "1", "1", "1"}, 3)};
  for (auto &d : d1) {
    int nch = d.k == 1 ? 1 : 16;
    for (int c = 0; c < nch; c++) U.push_back({1, d, 7, c, nch});
  }
  // S3 over-sized beads
  std::vector<Def> d3 = {mkdef(2, 1, false, {"1", "1"}, 0), mkdef(3, 1, false, {"16", "1", "1"}, 0), mkdef(3, 3, false, {"1", "1", "1"}, 0), mkdef(2, 1, false, {"1", "0"}, 0)};
  for (auto &d : d3) for (int pres : {1, 7, 6}) U.push_back({3, d, pres, 0, 1});
  // S2 definition sweep
  const std::vector<std::string> A4 = {"1", "16", "0.5", "0"}, A3 = {"1", "16", "0"};
  for (int k = 1; k <= 4; k++) {
    bool reduced = (k == 4 && !thorough);
    for (auto &w : weight_vectors(k, reduced ? A3 : A4))
      for (int dm = 0; dm < 4; dm++)
        for (int sym : {1, 3}) {
          if (sym == 3 && k < 3) continue;
          for (int rev = 0; rev < (k >= 2 && !reduced ? 2 : 1); rev++)
            for (int pres = 0; pres < 8; pres++) {
              if (reduced && pres != 7 && pres != 1) continue;
              U.push_back({2, mkdef(k, sym, rev, w, dm), pres, 0, 1});
            }
        }
  }
  return U;
}

// ------------------------------------------------------------------ unit runner (in a forked child)
static const char SEP1 = '\x1c', SEP2 = '\x1d';
struct Agg {
  long long evals = 0;
  std::set<uint64_t> classes;
  std::map<std::string, long long> failcount, counters;
  std::vector<bsx::Failure> failures;
  std::vector<std::string> samples;
  std::string ser() const {
    std::string s = "E" + std::to_string(evals);
    for (auto h : classes) s += SEP1 + std::string("C") + std::to_string(h);
    for (auto &kv : failcount) s += SEP1 + std::string("N") + kv.first + SEP2 + std::to_string(kv.second);
    for (auto &kv : counters) s += SEP1 + std::string("K") + kv.first + SEP2 + std::to_string(kv.second);
    for (auto &f : failures) s += SEP1 + std::string("F") + f.key + SEP2 + f.what + SEP2 + f.cas;
    for (auto &x : samples) s += SEP1 + std::string("S") + x;
    return s;
  }
};
static void absorb(bsx::Report &R, const std::string &ser) {
  for (auto &rec : bsx::split(ser, SEP1)) {
    if (rec.empty()) continue;
    std::string body = rec.substr(1);
    auto f = bsx::split(body, SEP2);
    switch (rec[0]) {
      case 'E': R.eval(atoll(body.c_str())); break;
      case 'C': R.cls((uint64_t)strtoull(body.c_str(), nullptr, 10)); break;
      case 'N': { long long &n = R.failcount[f[0]]; n += atoll(f[1].c_str()); break; }
      case 'K': R.counters[f[0]] += atoll(f[1].c_str()); break;
      case 'F': {
        size_t have = 0;
        for (auto &x : R.failures) if (x.key == f[0]) have++;
        if (have < R.max_fail_per_key) R.failures.push_back({f[0], f[1], f[2]});
        break;
      }
      case 'S': R.sample(body); break;
    }
  }
}

static std::string spacename(int s) { return s == 1 ? "S1-placement" : s == 2 ? "S2-definition" : s == 3 ? "S3-oversize" : "S5-ellipsoid-few-parents"; }

static void account(Agg &A, const Unit &u, const Case &c, const Res &r, bool want_sample) {
  A.evals++;
  A.counters[spacename(u.space)]++;
  if (!r.ok) {
    long long &n = A.failcount[r.key];
    n++;
    if (n <= 3) A.failures.push_back({r.key, r.what + "  [" + casestr(c) + "]", casestr(c)});
    return;
  }
  A.classes.insert(bsx::fnv(r.cls));
  if (r.cls.find("rejected") != std::string::npos) A.counters["rejected"]++;
  if (r.cls.find("unwrapped") != std::string::npos) A.counters["mapped_with_unwrapping"]++;
  if (want_sample && A.samples.size() < 2) A.samples.push_back(casestr(c) + " -> " + (r.obs.empty() ? r.cls : r.obs));
}

// whole unit on ONE system, frames in sequence (like csg_map maps a trajectory)
static std::string run_unit(const Unit &u, bool thorough) {
  Agg A;
  std::vector<Frame> F = gen_frames(u, thorough);
  if (F.empty()) return A.ser();
  std::unique_ptr<Sys> SP;
  try {
    SP = std::make_unique<Sys>(u.def, u.pres);
  } catch (const std::exception &) {
  }
  for (size_t i = 0; i < F.size(); i++) {
    Case c;
    c.def = u.def; c.pres = u.pres; c.cur = F[i];
    Res r = SP ? eval_frame(*SP, F[i]) : eval_case_fresh(c);
    if (!SP) { account(A, u, c, r, false); continue; }
    if (!r.ok && A.failcount[r.key] < 3) {
      // does the frame fail on its own, or only after the preceding frame?  (decided for the first failures of a key only)
      Res alone = eval_case_fresh(c);
      if (alone.ok && i > 0) {
        c.has_prev = true; c.prev = F[i - 1];
        Res seq = eval_case_fresh(c);
        if (!seq.ok) { r = seq; r.key = "after-previous-frame:" + seq.key; }
        // else: depends on a longer history; reported as is and the driver's determinism gate will flag it
      } else if (!alone.ok) r = alone;
    }
    bool sample = (i % 977) == 13 || (F.size() < 977 && i == F.size() / 2);
    account(A, u, c, r, sample);
  }
  return A.ser();
}

static std::string crashkey(const Def &d) {
  if (d.sym == 3 && d.k < 3) return "crash-ellipsoid-fewer-than-3-parents";
  return std::string("crash-") + (d.sym == 3 ? "ellipsoid" : "sphere");
}

int main(int argc, char **argv) {
  bsx::Args a = bsx::parse(argc, argv);
  std::cout.setstate(std::ios::failbit);  // the library prints diagnostics on std::cout; results go through stdio
  if (a.has_case) {
    Case c = parsecase(a.cas);
    bsx::Outcome o;
    bsx::contained(
        0, 1,
        [&](long long) {
          bsx::Outcome x;
          Res r = eval_case_fresh(c);
          x.ok = r.ok; x.key = r.key; x.what = r.what; x.extra = r.obs.empty() ? r.cls : r.obs;
          return x;
        },
        [&](long long, const bsx::Outcome &r) { o = r; });
    if (o.ok) { printf("case holds: %s\n", o.extra.c_str()); return 0; }
    if (o.key == "fatal") o.key = crashkey(c.def);
    printf("case FAILS: key=%s %s\n", o.key.c_str(), o.what.c_str());
    return 3;
  }
  bsx::Report R;
  R.property = "C01"; R.part = "map"; R.tier = a.tier;
  bool thorough = a.tier == "thorough";
  R.deadline_s = thorough ? 1500 : 300;  // safety net only (the machine may be heavily loaded); never reached on the unchanged tree
  R.rule =
      "library path CGEngine::LoadMoleculeType(generated xml)->CreateCGTopology->TopologyMap::Apply on an in-memory topology of 3 molecules "
      "(the placement, the same with image shifts removed, the same rigidly translated) of k atoms, CG beads C1 (all k parents) and C2 (one parent); one "
      "TopologyMap maps the frames of a unit in sequence with the box changing from frame to frame. "
      "S1 placement sweep: 15 definitions (k=1..4, sphere/ellipsoid, normal/reversed parent order, weights incl. 0 and negative) x 8 boxes {open, cubic 3.1, "
      "2.7x3.9x5.3, 6x2.5x3.5, 4 GROMACS-reduced triclinic incl. limiting and negative tilts} x first parent on a fractional lattice incl. faces "
      "(k<=2: {0,.25,.6,1}^3 thorough/{0,.6,1}^3 quick; k=3: {0,.6,1}^3/{0,.6}^3; k=4: {0,.6}^3/2 points) x every other parent = first + offset (6 directions, "
      "0.15/0.35 (k=2) or 0.2 of the shortest height) + n.box, n in {-2..2}^3 with <=2 non-zero components plus {+-1}^3 (k=2), one axis +-1,+-2 (k=3), one axis +-1 (k=4). "
      "S2 definition sweep: ALL weight vectors over {1,16,0.5,0}^k with non-zero sum, k=1..4 (quick k=4: {1,16,0}) x d in {absent, =w, one-hot, generic} (d=0 where w=0) x "
      "sphere/ellipsoid(k>=3) x parent order x all 8 presence masks of pos/vel/force x 8 boxes x 3 placements (compact, cut by faces, far images). "
      "S3 over-size: (k=3 sphere: second parent 0.3 heights on the opposite side of the first) last parent at {.3,.49,.5-1e-6,.5,.5+1e-6,.51,.6,.75,1,1.25} x shortest height in 9 directions x 3 image shifts x 3 first-parent positions x 8 boxes x 4 definitions x "
      "presence {pos, all, no pos}. S5: ellipsoidal bead with 1 or 2 parents. "
      "Oracle: long-double recomputation, nearest image by brute force over 7^3 images (ties within 1e-9: either image; parent distance within 1e-9 of half the shortest height: "
      "reject or map), mass, velocity, (d/w) force, hull (support functions over all simplex face normals), shift invariance, translation equivariance, single-parent bead identity. "
      "distinct_nontrivial = distinct (box type,k,symmetry,presence,outcome{mapped compact/unwrapped/no-pos/rejected},tie kind,zero/negative weights,d mode,order) classes";
  std::vector<Unit> U = all_units(thorough);
  std::vector<size_t> mine, perframe;
  for (size_t ui = 0; ui < U.size(); ui++) {
    if (!a.mine((long long)ui)) continue;
    if (a.kv.count("only") && atoi(a.kv["only"].c_str()) != U[ui].space) continue;
    (U[ui].space == 5 ? perframe : mine).push_back(ui);
  }
  // all units of this shard in one forked child (a new child continues after a unit that killed its child)
  bsx::contained(
      0, (long long)mine.size(),
      [&](long long i) {
        bsx::Outcome o;
        if (R.out_of_time()) { o.extra = "CAP"; return o; }
        o.extra = run_unit(U[mine[i]], thorough);
        return o;
      },
      [&](long long i, const bsx::Outcome &o) {
        if (!o.ok && o.key == "fatal") perframe.push_back(mine[i]);
        else if (o.extra == "CAP") R.cap("time limit reached: unit " + std::to_string(mine[i]) + " of " + std::to_string(U.size()) + " not run");
        else absorb(R, o.extra);
      }, 900);
  for (size_t ui : perframe) {
    // S5 and units that killed their child: every frame alone, contained, so that the crash is attributed to one case
    const Unit &u = U[ui];
    std::vector<Frame> F = gen_frames(u, thorough);
    bsx::contained(
        0, (long long)F.size(),
        [&](long long i) {
          Case c; c.def = u.def; c.pres = u.pres; c.cur = F[i];
          Res r = eval_case_fresh(c);
          bsx::Outcome o;
          o.ok = r.ok; o.key = r.key; o.what = r.what; o.extra = r.cls + SEP2 + r.obs;
          return o;
        },
        [&](long long i, const bsx::Outcome &o) {
          Case c; c.def = u.def; c.pres = u.pres; c.cur = F[i];
          R.eval(); R.counters[spacename(u.space)]++;
          if (!o.ok) {
            std::string key = o.key == "fatal" ? crashkey(u.def) : o.key;
            R.fail(key, o.what + "  [" + casestr(c) + "]", casestr(c));
            return;
          }
          auto f = bsx::split(o.extra, SEP2);
          R.cls(f[0]);
        });
  }
  if (a.shard == 0) R.counters["units_total"] = (long long)U.size();
  R.assumptions = {"d coefficients are normalised to sum 1 like the weights (manual: sum_i d_Ii = 1), so the force coefficient is (d_i/sum d)/(w_i/sum w)",
                   "zero-weight parents: force coefficient 0 or 1 both accepted (0/0 is not defined by the statement); definitions with d!=0 where w=0 are not enumerated",
                   "presence of positions/velocities/forces is frame-wide (all atoms or none); nothing is asserted about a quantity the atoms do not carry",
                   "exact ties (image at half a box length, parent at half the shortest height, both within 1e-9 relative) accept either outcome",
                   "ellipsoid orientation vectors u,v,w are not part of the statement and are not checked"};
  if (!R.write(a.out)) { fprintf(stderr, "cannot write %s\n", a.out.c_str()); return 2; }
  return 0;
}
