// C12 (library part) — tables and splines interpolate, fit and smooth faithfully.
// Exhaustive enumeration of small grids x ordinate vectors x spline type x boundary condition on
// the REAL LinSpline / CubicSpline / AkimaSpline / Table (sources compiled into this harness with
// Eigen index assertions thrown as exceptions, libstdc++ assertions and ASan/UBSan), checked against
//   * the statement's relations (data reproduced at knots, one-sided limits of value / slope agree
//     at every knot, straight lines reproduced, superposition over the cardinal basis, zero end
//     curvature, periodic ends join with equal value / slope / curvature),
//   * a boring long-double reference (piecewise-linear interpolant, natural cubic spline by the
//     textbook tridiagonal system) for the full result of linear / natural-cubic interpolation,
//   * for fits: reproduction of functions of the spline space (sampled from the reference), the
//     normal equations (residual orthogonal to every cardinal basis function of the reference
//     space) and membership of the result in that space,
//   * Table::Smooth: end points kept, straight-line data unchanged.
// One-sided limits are obtained without any step-size guess: inside one knot interval the spline is
// a polynomial of degree <= 3, so value / slope / curvature at an interval end follow exactly from
// four samples at 1/8..4/8 of the interval (weights from a 4x4 Vandermonde system).
#include <cfloat>
#include <functional>
#include <stdexcept>

#include "C12_sets.h"
#include "C12_ophist.h"
#include "bsx.h"
#include "votca/tools/table.h"

using namespace votca::tools;
using votca::Index;
using bsx::fmt;
using c12::Vec;

struct Res {
  std::vector<std::pair<std::string, std::string>> fails;
  std::vector<std::string> classes;
  long long checks = 0;
  std::string sample;
  std::set<std::string> seen;
  void fail(const std::string &k, const std::string &w) { if (seen.insert(k).second) fails.push_back({k, w}); }
};
static std::string dstr(double v) { char b[40]; snprintf(b, sizeof b, "%.10g", v); return b; }

// ------------------------------------------------------------------ reference models
struct RefLinear {
  Vec x, y;
  long double operator()(double r) const {
    size_t j = 0;
    while (j + 2 < x.size() && r >= x[j + 1]) j++;
    long double h = (long double)x[j + 1] - x[j], t = ((long double)r - x[j]) / h;
    return (1 - t) * y[j] + t * y[j + 1];
  }
};
struct RefNatCubic {
  Vec x, y;
  std::vector<long double> M;
  RefNatCubic(const Vec &xx, const Vec &yy) : x(xx), y(yy), M(xx.size(), 0.0L) {
    size_t n = x.size();
    if (n < 3) return;
    // rows 1..n-2:  h[i-1]/6 M[i-1] + (h[i-1]+h[i])/3 M[i] + h[i]/6 M[i+1] = d[i];  M[0]=M[n-1]=0  (Thomas algorithm)
    std::vector<long double> a(n, 0), b(n, 1), c(n, 0), d(n, 0);
    for (size_t i = 1; i + 1 < n; i++) {
      long double h0 = (long double)x[i] - x[i - 1], h1 = (long double)x[i + 1] - x[i];
      a[i] = h0 / 6; b[i] = (h0 + h1) / 3; c[i] = h1 / 6;
      d[i] = ((long double)y[i + 1] - y[i]) / h1 - ((long double)y[i] - y[i - 1]) / h0;
    }
    for (size_t i = 1; i < n; i++) { long double w = a[i] / b[i - 1]; b[i] -= w * c[i - 1]; d[i] -= w * d[i - 1]; }
    M[n - 1] = d[n - 1] / b[n - 1];
    for (size_t i = n - 1; i-- > 0;) M[i] = (d[i] - c[i] * M[i + 1]) / b[i];
  }
  long double operator()(double r) const {
    size_t j = 0;
    while (j + 2 < x.size() && r >= x[j + 1]) j++;
    long double h = (long double)x[j + 1] - x[j], B = ((long double)r - x[j]) / h, A = 1 - B;
    return A * y[j] + B * y[j + 1] + ((A * A * A - A) * M[j] + (B * B * B - B) * M[j + 1]) * h * h / 6;
  }
};

// ------------------------------------------------------------------ one-sided limits at interval ends
// weights w_k with sum_k w_k p(k*eta) = p^(d)(0) for every polynomial p of degree <= 3, nodes k=1..4 (eta=1)
static void weights(int d, long double w[4]) {
  long double A[4][5];
  for (int r = 0; r < 4; r++) {         // moment r: sum_k w_k k^r = [r==d]*d!
    for (int k = 0; k < 4; k++) A[r][k] = powl((long double)(k + 1), r);
    A[r][4] = (r == d) ? (d == 0 ? 1 : (d == 1 ? 1 : 2)) : 0;
  }
  for (int c = 0; c < 4; c++) {
    int p = c;
    for (int r = c + 1; r < 4; r++) if (fabsl(A[r][c]) > fabsl(A[p][c])) p = r;
    for (int k = 0; k < 5; k++) std::swap(A[c][k], A[p][k]);
    for (int r = 0; r < 4; r++) if (r != c) { long double f = A[r][c] / A[c][c]; for (int k = c; k < 5; k++) A[r][k] -= f * A[c][k]; }
  }
  for (int k = 0; k < 4; k++) w[k] = A[k][4] / A[k][k];
}
struct Lim { double v, s, c; };  // value, slope, curvature
// limit towards knot `at` from inside the interval [a,b] (at == a: from the right; at == b: from the left)
static Lim limit(Spline &sp, double a, double b, bool at_left_end) {
  static long double W[3][4];
  static bool init = false;
  if (!init) { for (int d = 0; d < 3; d++) weights(d, W[d]); init = true; }
  long double eta = ((long double)b - a) / 8, sgn = at_left_end ? 1 : -1;
  long double p[4];
  for (int k = 0; k < 4; k++) p[k] = sp.Calculate((double)((at_left_end ? (long double)a : (long double)b) + sgn * (k + 1) * eta));
  long double v = 0, s = 0, c = 0;
  for (int k = 0; k < 4; k++) { v += W[0][k] * p[k]; s += W[1][k] * p[k]; c += W[2][k] * p[k]; }
  return {(double)v, (double)(sgn * s / eta), (double)(c / (eta * eta))};
}

static Vec evalpts(const Vec &x) {
  Vec r;
  size_t n = x.size();
  for (size_t i = 0; i < n; i++) {
    r.push_back(x[i]);
    if (i > 0) r.push_back(x[i] - 1e-9);
    if (i + 1 < n) {
      r.push_back(x[i] + 1e-9);
      double h = x[i + 1] - x[i];
      r.push_back(x[i] + 0.25 * h); r.push_back(x[i] + 0.5 * h); r.push_back(x[i] + 0.75 * h);
    }
  }
  return r;
}
static double maxabs(const Vec &v) { double m = 0; for (double a : v) m = std::max(m, std::fabs(a)); return m; }
static double hmin(const Vec &x) { double m = 1e300; for (size_t i = 0; i + 1 < x.size(); i++) m = std::min(m, x[i + 1] - x[i]); return m; }
static bool is_line(const Vec &x, const Vec &y, double &a, double &b) {
  b = (y[1] - y[0]) / (x[1] - x[0]); a = y[0] - b * x[0];
  for (size_t i = 0; i < x.size(); i++) if (std::fabs(y[i] - (a + b * x[i])) > 1e-13 * (1 + std::fabs(y[i]))) return false;
  return true;
}

// ------------------------------------------------------------------ i: interpolation
static void run_interp(std::map<std::string, std::string> &m, Res &R) {
  std::string type = m["t"];
  bool per = m["bc"] == "per";
  Vec x = c12::parsevec(m["x"]), y = c12::parsevec(m["y"]);
  size_t n = x.size();
  std::string K = type + (per ? "-periodic" : "-natural") + "-interp-";
  if (n >= 40 && type == "cubic" && per) K = "large-grid-" + K;  // input class: 40 or more knots (singular periodic system blows up)
  auto sp = c12::make(type, per);
  sp->Interpolate(c12::eig(x), c12::eig(y));
  double ys = 1 + maxabs(y), hm = hmin(x);
  double tolv = 1e-10 * ys * (1 + 1 / (hm * hm)), tols = 1e-9 * ys / hm * (1 + 1 / (hm * hm)), tolc = 1e-8 * ys / (hm * hm) * (1 + 1 / (hm * hm));
  Vec ev = evalpts(x);
  for (double r : ev) {
    double v = sp->Calculate(r), d = sp->CalculateDerivative(r);
    if (!std::isfinite(v) || !std::isfinite(d)) { R.fail(K + "nonfinite", "Calculate/CalculateDerivative(" + fmt(r) + ") = " + fmt(v) + " / " + fmt(d)); return; }
  }
  // (a) data reproduced at the knots
  for (size_t i = 0; i < n; i++) {
    R.checks++;
    double v = sp->Calculate(x[i]);
    if (std::fabs(v - y[i]) > tolv) R.fail(K + "knot-value", "S(x[" + std::to_string(i) + "]=" + fmt(x[i]) + ")=" + fmt(v) + " but data value " + fmt(y[i]));
  }
  // one-sided limits at both ends of every interval
  std::vector<Lim> L(n - 1), Rr(n - 1);  // L[j]: towards x[j] from interval j;  Rr[j]: towards x[j+1] from interval j
  for (size_t j = 0; j + 1 < n; j++) { L[j] = limit(*sp, x[j], x[j + 1], true); Rr[j] = limit(*sp, x[j], x[j + 1], false); }
  // (b) continuity: both one-sided limits at each knot equal the data value
  for (size_t j = 0; j + 1 < n; j++) {
    R.checks += 2;
    if (std::fabs(L[j].v - y[j]) > tolv)
      R.fail(K + "continuity", "limit of S towards knot " + fmt(x[j]) + " from the right = " + fmt(L[j].v) + " but data value " + fmt(y[j]));
    if (std::fabs(Rr[j].v - y[j + 1]) > tolv)
      R.fail(K + "continuity", "limit of S towards knot " + fmt(x[j + 1]) + " from the left = " + fmt(Rr[j].v) + " but data value " + fmt(y[j + 1]));
  }
  // (c) values 1e-9 beside every knot stay within slope*1e-9 of the data value (interval lookup at knots)
  for (size_t i = 0; i < n; i++)
    for (int side = -1; side <= 1; side += 2) {
      if ((i == 0 && side < 0) || (i == n - 1 && side > 0)) continue;
      double sl = side < 0 ? Rr[i - 1].s : L[i].s;
      double v = sp->Calculate(x[i] + side * 1e-9);
      R.checks++;
      if (std::fabs(v - y[i]) > (2 * std::fabs(sl) + 1) * 1e-9 + tolv)
        R.fail(K + "near-knot", "S(" + fmt(x[i]) + (side < 0 ? "-" : "+") + "1e-9)=" + fmt(v) + " but data value " + fmt(y[i]) + ", slope there " + dstr(sl));
    }
  // (d) continuous first derivative across interior knots
  if (type != "linear")
    for (size_t i = 1; i + 1 < n; i++) {
      R.checks++;
      if (std::fabs(Rr[i - 1].s - L[i].s) > tols)
        R.fail(K + "c1", "slope at interior knot " + fmt(x[i]) + ": " + fmt(Rr[i - 1].s) + " from the left, " + fmt(L[i].s) + " from the right");
    }
  double a, b;
  bool line = is_line(x, y, a, b);
  if (!per) {
    // (e) straight-line data reproduced everywhere inside the grid
    if (line) {
      for (double r : ev) {
        R.checks++;
        double v = sp->Calculate(r);
        if (std::fabs(v - (a + b * r)) > 1e-12 * (1 + std::fabs(a) + std::fabs(b) * (std::fabs(r) + 1)) * (1 + 1 / hm))
          R.fail(K + "line", "straight-line data " + dstr(a) + "+" + dstr(b) + "*x: S(" + fmt(r) + ")=" + fmt(v) + " instead of " + fmt(a + b * r));
      }
    }
    // (f) zero end curvature
    if (type == "cubic") {
      R.checks += 2;
      if (std::fabs(L[0].c) > tolc) R.fail(K + "end-curvature", "curvature at the first knot = " + fmt(L[0].c));
      if (std::fabs(Rr[n - 2].c) > tolc) R.fail(K + "end-curvature", "curvature at the last knot = " + fmt(Rr[n - 2].c));
    }
    // full result against the reference model
    if (type == "linear" || type == "cubic") {
      RefLinear rl{x, y}; RefNatCubic rc(x, y);
      for (double r : ev) {
        R.checks++;
        double v = sp->Calculate(r), ref = type == "linear" ? (double)rl(r) : (double)rc(r);
        if (std::fabs(v - ref) > tolv)
          R.fail(K + "vs-reference", "S(" + fmt(r) + ")=" + fmt(v) + " but reference " + (type == "linear" ? "piecewise-linear interpolant" : "natural cubic spline") + " gives " + fmt(ref));
      }
    }
  } else {
    // (g) periodic: both ends join with equal value, slope and (cubic) curvature
    R.checks++;
    if (std::fabs(sp->Calculate(x[0]) - sp->Calculate(x[n - 1])) > tolv)
      R.fail(K + "end-value", "S(first knot)=" + fmt(sp->Calculate(x[0])) + " S(last knot)=" + fmt(sp->Calculate(x[n - 1])));
    if (type != "linear") {
      R.checks++;
      if (std::fabs(L[0].s - Rr[n - 2].s) > tols)
        R.fail(K + "end-slope", "slope at the first knot " + fmt(L[0].s) + " but at the last knot " + fmt(Rr[n - 2].s));
    }
    if (type == "cubic") {
      R.checks++;
      if (std::fabs(L[0].c - Rr[n - 2].c) > tolc)
        R.fail(K + "end-curvature", "curvature at the first knot " + fmt(L[0].c) + " but at the last knot " + fmt(Rr[n - 2].c));
    }
  }
  std::string sig = type + (per ? "P" : "N");
  for (size_t j = 0; j + 1 < n; j++) { char buf[64]; snprintf(buf, sizeof buf, "%.5g,%.5g;", sp->Calculate(0.5 * (x[j] + x[j + 1])), L[j].s); sig += buf; }
  R.classes.push_back(sig);
  R.sample = "S(mid), S'(knot+) per interval: " + sig;
}

// ------------------------------------------------------------------ l: linear dependence on the ordinates
static void run_linearity(std::map<std::string, std::string> &m, Res &R) {
  std::string type = m["t"];
  bool per = m["bc"] == "per";
  Vec x = c12::parsevec(m["x"]), y = c12::parsevec(m["y"]);
  size_t n = x.size();
  std::string K = type + (per ? "-periodic" : "-natural") + "-interp-";
  if (n >= 40 && type == "cubic" && per) K = "large-grid-" + K;
  Vec ev = evalpts(x);
  auto sp = c12::make(type, per);
  sp->Interpolate(c12::eig(x), c12::eig(y));
  std::vector<long double> sum(ev.size(), 0.0L);
  double bmax = 0;
  size_t nb = per ? n - 1 : n;  // periodic basis: e_0 + e_{n-1}, e_1, ..., e_{n-2}
  for (size_t k = 0; k < nb; k++) {
    if (y[k] == 0) continue;
    Vec e(n, 0.0); e[k] = 1; if (per && k == 0) e[n - 1] = 1;
    auto sb = c12::make(type, per);
    sb->Interpolate(c12::eig(x), c12::eig(e));
    for (size_t q = 0; q < ev.size(); q++) { double v = sb->Calculate(ev[q]); bmax = std::max(bmax, std::fabs(v)); sum[q] += (long double)y[k] * v; }
  }
  double hm = hmin(x), tol = 1e-10 * (1 + maxabs(y)) * (1 + bmax) * (1 + 1 / (hm * hm));
  std::string sig = type + (per ? "P" : "N");
  for (size_t q = 0; q < ev.size(); q++) {
    double v = sp->Calculate(ev[q]);
    R.checks++;
    if (!std::isfinite(v) || !std::isfinite((double)sum[q])) { R.fail(K + "nonfinite", "S(" + fmt(ev[q]) + ") not finite"); return; }
    if (std::fabs(v - (double)sum[q]) > tol)
      R.fail(K + "linearity", "S[y](" + fmt(ev[q]) + ")=" + fmt(v) + " but sum_i y_i S[e_i] = " + fmt((double)sum[q]));
    if (q % 6 == 4) { char buf[32]; snprintf(buf, sizeof buf, "%.5g;", v); sig += buf; }
  }
  R.classes.push_back("lin:" + sig);
  R.sample = "S[y] = sum y_i S[e_i] at " + std::to_string(ev.size()) + " points; mid values " + sig;
}

// ------------------------------------------------------------------ f: fits
static void run_fit(std::map<std::string, std::string> &m, Res &R) {
  std::string type = m["t"], kind = m["kind"];
  Vec x = c12::parsevec(m["x"]), y = c12::parsevec(m["y"]);
  auto fg = bsx::split(m["fg"], ',');
  double gmin = strtod(fg[0].c_str(), nullptr), gh = strtod(fg[1].c_str(), nullptr), gmax = strtod(fg[2].c_str(), nullptr);
  std::string K = type + "-natural-fit-";
  auto sp = c12::make(type, false);
  Index ng = sp->GenerateGrid(gmin, gmax, gh);
  // grid generation: first knot = min, last knot pinned to max, inner knots min + k*h
  Vec g;
  for (Index k = 0; k < sp->getX().size(); k++) g.push_back(sp->getX()[k]);
  long expect = (long)std::floor((gmax - gmin) / gh + 1e-6) + 1;
  R.checks++;
  bool gridok = (long)ng == expect && (long)g.size() == expect && g.front() == gmin && g.back() == gmax;
  for (long k = 1; gridok && k + 1 < expect; k++) if (std::fabs(g[k] - (gmin + double(k) * gh)) > 1e-12 * (1 + std::fabs(g[k]))) gridok = false;
  if (!gridok) { R.fail("fitgrid-knots", "GenerateGrid(" + m["fg"] + ") produced knots " + c12::show(g)); return; }
  // the spline space on these knots: reference cardinal functions
  auto refeval = [&](const Vec &ord, double r) -> long double {
    if (type == "linear") { RefLinear rl{g, ord}; return rl(r); }
    RefNatCubic rc(g, ord); return rc(r);
  };
  Vec data = y;
  if (kind == "space") {  // y holds the ordinates on the fit knots: sample the reference function at the data abscissae
    if (y.size() != g.size()) { R.fail("bad-case", "harness: ordinate count != knot count"); return; }
    data.clear();
    for (double xi : x) data.push_back((double)refeval(y, xi));
  }
  sp->Fit(c12::eig(x), c12::eig(data));
  Vec ev = evalpts(g);
  for (double xi : x) ev.push_back(xi);
  double ys = 1 + maxabs(data), hm = hmin(g), tol = 1e-8 * ys * (1 + 1 / (hm * hm));
  for (double r : ev) if (!std::isfinite(sp->Calculate(r))) { R.fail(K + "nonfinite", "fit value at " + fmt(r) + " not finite"); return; }
  std::string sig = type + "F";
  if (kind == "space") {
    for (double r : ev) {
      R.checks++;
      double v = sp->Calculate(r), ref = (double)refeval(y, r);
      if (std::fabs(v - ref) > tol)
        R.fail(K + "spline-space-data-not-reproduced", "data sampled from the spline-space function with knot values " + c12::show(y) + ": fit(" + fmt(r) + ")=" + fmt(v) + " but the function is " + fmt(ref));
    }
  } else {
    // membership: the fit equals the reference-space function through its own knot values
    Vec kv; for (double gk : g) kv.push_back(sp->Calculate(gk));
    for (double r : ev) {
      R.checks++;
      double v = sp->Calculate(r), ref = (double)refeval(kv, r);
      if (std::fabs(v - ref) > tol * (1 + maxabs(kv)))
        R.fail(K + "not-in-spline-space", "fit(" + fmt(r) + ")=" + fmt(v) + " but the " + (type == "linear" ? "piecewise-linear" : "natural cubic") + " function through the fit's knot values gives " + fmt(ref));
    }
    // normal equations: residual orthogonal to every cardinal function of the space
    for (size_t k = 0; k < g.size(); k++) {
      Vec e(g.size(), 0.0); e[k] = 1;
      long double dot = 0, nrm = 0;
      for (size_t i = 0; i < x.size(); i++) { long double phi = refeval(e, x[i]); dot += ((long double)data[i] - sp->Calculate(x[i])) * phi; nrm += fabsl(phi); }
      R.checks++;
      if (fabsl(dot) > tol * (1 + (double)nrm) * (1 + maxabs(kv)))
        R.fail(K + "not-least-squares-optimum", "residual . cardinal function of knot " + std::to_string(k) + " = " + fmt((double)dot) + " (normal equations violated)");
    }
    for (double v : kv) { char buf[32]; snprintf(buf, sizeof buf, "%.5g;", v); sig += buf; }
  }
  if (kind == "space") for (double gk : g) { char buf[32]; snprintf(buf, sizeof buf, "%.5g;", sp->Calculate(gk)); sig += buf; }
  R.classes.push_back(sig);
  R.sample = "fit knot values " + sig;
}

// ------------------------------------------------------------------ m: Table::Smooth
static void run_smooth(std::map<std::string, std::string> &m, Res &R) {
  Vec x = c12::parsevec(m["x"]), y = c12::parsevec(m["y"]);
  long ns = atol(m["n"].c_str());
  Table t;
  t.resize((Index)x.size());
  for (size_t i = 0; i < x.size(); i++) t.set((Index)i, x[i], y[i], 'i');
  t.Smooth((Index)ns);
  size_t n = x.size();
  R.checks += 2;
  if ((size_t)t.size() != n) { R.fail("smooth-resized", "table resized to " + std::to_string(t.size())); return; }
  for (size_t i = 0; i < n; i++) if (t.x((Index)i) != x[i]) R.fail("smooth-abscissae-changed", "x[" + std::to_string(i) + "] changed to " + fmt(t.x((Index)i)));
  if (t.y(0) != y[0] || t.y((Index)n - 1) != y[n - 1])
    R.fail("smooth-end-points", "end points (" + fmt(y[0]) + "," + fmt(y[n - 1]) + ") became (" + fmt(t.y(0)) + "," + fmt(t.y((Index)n - 1)) + ") after Smooth(" + std::to_string(ns) + ")");
  double a, b;
  bool uniform = true;
  for (size_t i = 0; i + 2 < n; i++) if (std::fabs((x[i + 2] - x[i + 1]) - (x[i + 1] - x[i])) > 1e-12) uniform = false;
  if (uniform && is_line(x, y, a, b))
    for (size_t i = 0; i < n; i++) {
      R.checks++;
      if (std::fabs(t.y((Index)i) - y[i]) > 1e-12 * (1 + maxabs(y)))
        R.fail("smooth-line", "straight-line data changed: y[" + std::to_string(i) + "]=" + fmt(y[i]) + " became " + fmt(t.y((Index)i)) + " after Smooth(" + std::to_string(ns) + ")");
    }
  if (ns == 0) for (size_t i = 0; i < n; i++) if (t.y((Index)i) != y[i]) R.fail("smooth-zero-passes-changed-data", "Smooth(0) changed y[" + std::to_string(i) + "]");
  std::string sig = "sm" + std::to_string(ns) + ":";
  for (size_t i = 0; i < n; i++) { char buf[32]; snprintf(buf, sizeof buf, "%.6g;", t.y((Index)i)); sig += buf; }
  R.classes.push_back(sig);
  R.sample = "Smooth(" + std::to_string(ns) + ") " + c12::show(y) + " -> " + sig;
}

// ------------------------------------------------------------------ h: operation histories on one object
// mode A: oracles after every step (the oracle's own evaluations then act as probes); mode B: only after the last step
static void run_hist(std::map<std::string, std::string> &m, Res &R) {
  std::string type = m["t"];
  bool every = m["mode"] == "A";
  auto ops = bsx::split(m["ops"], ',');
  auto sp = c12::make(type, false);
  oph::Model mod;
  std::string done, sig;
  for (size_t s = 0; s < ops.size(); s++) {
    if (!oph::apply(ops[s], type, *sp, mod)) { R.fail("bad-case", "harness: operation " + ops[s] + " not applicable after [" + done + "]"); return; }
    done += (done.empty() ? "" : ",") + ops[s];
    if (!(every || s + 1 == ops.size())) continue;
    std::string K = "ophist-" + type + "-after-" + mod.last + "-";
    std::string where = " (after " + done + ")";
    sig = oph::compare_with_fresh(type, *sp, mod, R.checks, [&](const std::string &k, const std::string &w) { R.fail(K + k, w + where); });
    if (mod.kind == oph::Model::NONE) continue;
    // the statement's own clauses on the object as it is now
    const Vec &x = mod.grid;
    size_t n = x.size();
    if (mod.kind == oph::Model::INTERP || mod.kind == oph::Model::SET) {
      Vec y = mod.kind == oph::Model::INTERP ? oph::interp_data(mod.k).y : Vec();
      if (mod.kind == oph::Model::SET) { Vec f2; oph::set_data(mod.k, n, y, f2); }
      double tolv = 1e-10 * (1 + maxabs(y)) * (1 + 1 / (hmin(x) * hmin(x))) * (mod.kind == oph::Model::SET ? 10 : 1);
      for (size_t i = 0; i < n; i++) {
        R.checks++;
        double v = sp->Calculate(x[i]);
        if (!(std::fabs(v - y[i]) <= tolv)) R.fail(K + "knot-value", "S(" + fmt(x[i]) + ")=" + fmt(v) + " but the value given for that knot is " + fmt(y[i]) + where);
      }
      for (size_t j = 0; j + 1 < n; j++) {
        Lim a = limit(*sp, x[j], x[j + 1], true), b = limit(*sp, x[j], x[j + 1], false);
        R.checks += 2;
        if (!(std::fabs(a.v - y[j]) <= 10 * tolv) || !(std::fabs(b.v - y[j + 1]) <= 10 * tolv))
          R.fail(K + "continuity", "one-sided limits of S in interval " + std::to_string(j) + " are " + fmt(a.v) + " / " + fmt(b.v) + " but the knot values are " + fmt(y[j]) + " / " + fmt(y[j + 1]) + where);
      }
    }
  }
  R.classes.push_back("h:" + type + ":" + mod.last + ":" + sig);
  R.sample = "final state after " + mod.last + ": S,S' at mid points " + sig.substr(0, 80);
}

static std::string family(const std::string &cas, std::map<std::string, std::string> &m) {
  if (cas[0] == 'h') return "ophist-" + m["t"];
  switch (cas[0]) {
    case 'i': case 'l': return m["t"] + (m["bc"] == "per" ? "-periodic" : "-natural") + "-interp";
    case 'f': return m["t"] + "-natural-fit";
    default: return "smooth";
  }
}
static Res run_case(const std::string &cas) {
  Res R;
  auto m = bsx::kvs(cas);
  try {
    if (cas[0] == 'i') run_interp(m, R);
    else if (cas[0] == 'l') run_linearity(m, R);
    else if (cas[0] == 'f') run_fit(m, R);
    else if (cas[0] == 'm') run_smooth(m, R);
    else if (cas[0] == 'h') run_hist(m, R);
    else R.fail("bad-case", "unknown case kind");
  } catch (const std::exception &e) {
    R.fail(family(cas, m) + "-exception", std::string("exception: ") + e.what());
  }
  return R;
}

// ------------------------------------------------------------------ enumeration
// Cases are streamed to the sink: index i belongs to this shard iff a.mine(i); same order in every shard.
struct CaseList {
  const bsx::Args &a;
  long long n = 0;
  std::function<void(const std::string &)> sink;
  explicit CaseList(const bsx::Args &aa) : a(aa) {}
  void push_back(const std::string &s) { if (a.mine(n)) sink(s); n++; }
};
static void all_cases(bool thorough, CaseList &C) {
  const std::vector<std::pair<double, double>> LINES = {{1, 0.5}, {-2, -1.25}, {0.3, 3}};
  int nfull = thorough ? 5 : 4;  // all ordinate vectors up to this many knots; beyond: unit vectors, lines, a few patterns
  for (int n = 2; n <= 6; n++)
    for (double x0 : {0.0, -1.5})
      for (auto &g : c12::grids(n, x0)) {
        std::string xs = c12::vecstr(g);
        for (std::string type : {"linear", "cubic", "akima"}) {
          if (n < c12::minknots(type)) continue;
          for (int per = 0; per < 2; per++) {
            std::string head = std::string(";t=") + type + ";bc=" + (per ? "per" : "nat") + ";x=" + xs + ";y=";
            std::vector<Vec> Y;
            if (n <= nfull) Y = c12::ordinates(n, per == 1);
            else {
              for (int k = 0; k < n - per; k++) { Vec e(n, 0.0); e[k] = 1; if (per && k == 0) e[n - 1] = 1; Y.push_back(e); }
              Vec z(n); for (int k = 0; k < n; k++) z[k] = (k % 2) ? 2.0 : -1.0; if (per) z[n - 1] = z[0]; Y.push_back(z);
              Vec w(n); for (int k = 0; k < n; k++) w[k] = double((k * k) % 4) - 1; if (per) w[n - 1] = w[0]; Y.push_back(w);
            }
            if (!per) for (auto &ab : LINES) { Vec l; for (double xv : g) l.push_back(ab.first + ab.second * xv); Y.push_back(l); }
            for (auto &y : Y) {
              C.push_back("i" + head + c12::vecstr(y));
              if (type != "akima") C.push_back("l" + head + c12::vecstr(y));
            }
          }
        }
      }
  // large grids (the quantifier goes up to hundreds of points): 40 and 200 knots, uniform and with a
  // deterministic spacing pattern over {1,0.5,2}; ordinates: alphabet pattern, straight line, three unit vectors
  for (int n : {40, 200})
    for (int uni = 0; uni < 2; uni++) {
      static const double S[3] = {1.0, 0.5, 2.0}, A[4] = {0.0, 1.0, -1.0, 2.0};
      Vec g{-1.5};
      for (int k = 0; k + 1 < n; k++) g.push_back(g.back() + (uni ? 0.5 : S[(k * 7 + k / 5) % 3]));
      std::string xs = c12::vecstr(g);
      for (std::string type : {"linear", "cubic", "akima"})
        for (int per = 0; per < 2; per++) {
          std::string head = std::string(";t=") + type + ";bc=" + (per ? "per" : "nat") + ";x=" + xs + ";y=";
          Vec pat(n), units(n, 0.0), line(n);
          for (int k = 0; k < n; k++) { pat[k] = A[(3 * k + k / 4) % 4]; line[k] = 1 + 0.5 * g[k]; }
          units[1] = 1; units[n / 2] = -1; units[n - 2] = 2;
          if (per) pat[n - 1] = pat[0];
          C.push_back("i" + head + c12::vecstr(pat));
          C.push_back("i" + head + c12::vecstr(units));
          if (!per) C.push_back("i" + head + c12::vecstr(line));
          if (type != "akima") C.push_back("l" + head + c12::vecstr(units));
          if (type != "akima" && n == 40) C.push_back("l" + head + c12::vecstr(pat));
        }
    }
  // fits: data on a finer grid than the fit grid
  struct FG { std::string fg; double lo, hi, step; };
  std::vector<FG> FGS = {{"0,0.5,2", 0, 2, 0.125}, {"0,1,3", 0, 3, 0.25}, {"-1.5,0.5,0.5", -1.5, 0.5, 0.125}, {"0,0.3,1", 0, 1, 0.0625}, {"0,1,2", 0, 2, 0.25}, {"0,0.75,2", 0, 2, 0.125}, {"0,0.5,20", 0, 20, 0.125}};
  for (auto &fg : FGS) {
    Vec x; for (double r = fg.lo; r <= fg.hi + 1e-12; r += fg.step) x.push_back(r);
    auto parts = bsx::split(fg.fg, ',');
    int nk = (int)std::floor((strtod(parts[2].c_str(), nullptr) - strtod(parts[0].c_str(), nullptr)) / strtod(parts[1].c_str(), nullptr) + 1e-6) + 1;
    for (std::string type : {"cubic", "linear"}) {
      std::string head = std::string("f;t=") + type + ";fg=" + fg.fg + ";x=" + c12::vecstr(x);
      // spline-space data: every knot-ordinate vector over the alphabet (<= 5 knots; quick: <= 4) else unit vectors
      std::vector<Vec> ORD;
      if (nk <= (thorough ? 5 : 4)) ORD = c12::ordinates(nk, false);
      else for (int k = 0; k < nk; k++) { Vec e(nk, 0.0); e[k] = 1; ORD.push_back(e); Vec e2(nk, 1.0); e2[k] = -1; ORD.push_back(e2); }
      { Vec l; double gmin = strtod(parts[0].c_str(), nullptr), gh = strtod(parts[1].c_str(), nullptr), gmax = strtod(parts[2].c_str(), nullptr);
        for (int k = 0; k < nk; k++) l.push_back(1 + 0.5 * (k == nk - 1 ? gmax : gmin + k * gh)); ORD.push_back(l); }
      for (auto &o : ORD) C.push_back(head + ";kind=space;y=" + c12::vecstr(o));
      // generic data (not in the space): least-squares optimality
      const double A[4] = {0.0, 1.0, -1.0, 2.0};
      for (int pat = 0; pat < (thorough ? 24 : 12); pat++) {
        Vec y;
        for (size_t i = 0; i < x.size(); i++)
          y.push_back(pat == 0 ? x[i] * x[i] : (pat == 1 ? std::fabs(x[i] - 0.4) : A[(i * (size_t)(pat / 4 + 1) + (size_t)pat) % 4]));
        C.push_back(head + ";kind=ls;y=" + c12::vecstr(y));
      }
    }
  }
  // Table::Smooth
  for (long ns : {0L, 1L, 2L, 5L})
    for (int n = 2; n <= 6; n++)
      for (double h : {1.0, 0.5}) {
        Vec x; for (int k = 0; k < n; k++) x.push_back(-1.5 + h * k);
        std::vector<Vec> Y;
        if (n <= 5) Y = c12::ordinates(n, false);
        else for (int k = 0; k < n; k++) { Vec e(n, 0.0); e[k] = 2; Y.push_back(e); }
        for (auto &ab : LINES) { Vec l; for (double xv : x) l.push_back(ab.first + ab.second * xv); Y.push_back(l); }
        for (auto &y : Y) C.push_back("m;n=" + std::to_string(ns) + ";x=" + c12::vecstr(x) + ";y=" + c12::vecstr(y));
      }
  // operation histories on one object: all valid sequences of 1..3 (thorough: ..4) operations, oracles after every step (A) / at the end (B)
  for (std::string type : {"cubic", "akima", "linear"})
    for (int len = 1; len <= (thorough ? 4 : 3); len++)
      oph::histories(type, len, [&](const std::string &ops) {
        C.push_back("h;t=" + type + ";mode=A;ops=" + ops);
        if (len > 1) C.push_back("h;t=" + type + ";mode=B;ops=" + ops);
      });
  if (!thorough) return;

  // ------------------------------------------------------------ THOROUGH ONLY (appended; the cases above are unchanged)
  const Vec A0 = {0.0, 1.0, -1.0, 2.0}, A3 = {0.0, -1.0, 2.0}, A2 = {-1.0, 2.0};
  // every type x boundary on one grid for a list of ordinate vectors (periodic list separately)
  auto emit = [&](const Vec &g, const std::vector<Vec> &Ynat, const std::vector<Vec> &Yper, bool lines) {
    int n = (int)g.size();
    std::string xs = c12::vecstr(g);
    for (std::string type : {"linear", "cubic", "akima"}) {
      if (n < c12::minknots(type)) continue;
      for (int per = 0; per < 2; per++) {
        std::string head = std::string(";t=") + type + ";bc=" + (per ? "per" : "nat") + ";x=" + xs + ";y=";
        std::vector<Vec> Y = per ? Yper : Ynat;
        if (!per && lines) for (auto &ab : LINES) { Vec l; for (double xv : g) l.push_back(ab.first + ab.second * xv); Y.push_back(l); }
        for (auto &y : Y) {
          C.push_back("i" + head + c12::vecstr(y));
          if (type != "akima") C.push_back("l" + head + c12::vecstr(y));
        }
      }
    }
  };
  auto emit_all = [&](const std::vector<Vec> &G, int n, const Vec &alphabet) {
    std::vector<Vec> Yn = c12::ordinates(n, false, alphabet), Yp = c12::ordinates(n, true, alphabet);
    for (auto &g : G) emit(g, Yn, Yp, true);
  };
  // E1-E3: 6, 7, 8 knots on spacings {0.5,2}: full / ternary / binary ordinate alphabets
  for (double x0 : {0.0, -1.5}) emit_all(c12::grids(6, x0, {0.5, 2.0}), 6, A0);
  emit_all(c12::grids(7, 0.0, {0.5, 2.0}), 7, A3);
  emit_all(c12::grids(8, 0.0, {0.5, 2.0}), 8, A2);
  // E4/E5: other spacing alphabets: strongly non-uniform {0.25,0.75,1.5,3} and decimal (not binary-exact) {0.1,0.3,0.7}
  for (int n = 2; n <= 4; n++)
    for (double x0 : {0.0, -1.5}) {
      emit_all(c12::grids(n, x0, {0.75, 0.25, 1.5, 3.0}), n, A0);
      emit_all(c12::grids(n, x0, {0.1, 0.3, 0.7}), n, A0);
    }
  emit_all(c12::grids(5, 0.0, {0.75, 0.25, 1.5, 3.0}), 5, A3);
  emit_all(c12::grids(5, 0.0, {0.1, 0.3, 0.7}), 5, A3);
  // E6: larger and badly scaled ordinate alphabets on the standard grids
  for (int n = 2; n <= 4; n++)
    for (double x0 : {0.0, -1.5}) {
      emit_all(c12::grids(n, x0), n, {0.0, 1.0, -1.0, 3.0, 0.5, -2.0});
      emit_all(c12::grids(n, x0), n, {0.0, 1.0, -1000.0, 0.001});
    }
  // E7: the gap between 6 and 40 knots: uniform and two patterned spacings; all unit vectors + 2 patterns (+ lines)
  for (int n : {7, 8, 10, 12, 16, 24, 32})
    for (int style = 0; style < 3; style++) {
      static const double S[3] = {1.0, 0.5, 2.0}, S2[4] = {0.75, 0.25, 1.5, 3.0};
      Vec g{-1.5};
      for (int k = 0; k + 1 < n; k++) g.push_back(g.back() + (style == 0 ? 0.5 : (style == 1 ? S[(k * 7 + k / 5) % 3] : S2[(k * 5 + k / 3) % 4])));
      std::vector<Vec> Yn, Yp;
      for (int k = 0; k < n; k++) { Vec e(n, 0.0); e[k] = 1; Yn.push_back(e); if (k < n - 1) { if (k == 0) e[n - 1] = 1; Yp.push_back(e); } }
      Vec z(n), w(n);
      for (int k = 0; k < n; k++) { z[k] = (k % 2) ? 2.0 : -1.0; w[k] = A0[(3 * k + k / 4) % 4]; }
      Yn.push_back(z); Yn.push_back(w);
      z[n - 1] = z[0]; w[n - 1] = w[0]; Yp.push_back(z); Yp.push_back(w);
      emit(g, Yn, Yp, true);
    }
  // E8: more fit problems: fit grids with 5, 6, 11 knots, decimal steps, a range that is not a multiple of the step,
  // uniform and non-uniform data abscissae; full ordinate alphabet up to 6 knots
  struct FG2 { std::string fg; double lo, hi, step; int nonuni; };
  for (FG2 fg : {FG2{"0,0.25,1", 0, 1, 0.0625, 0}, FG2{"-2,1,3", -2, 3, 0.25, 0}, FG2{"0,0.4,2.2", 0, 2.2, 0.1, 0}, FG2{"0,0.5,2", 0, 2, 0, 1},
                 FG2{"0,2,8", 0, 8, 0.5, 0}, FG2{"0,0.1,1", 0, 1, 0.025, 0}, FG2{"-1.5,0.75,1.5", -1.5, 1.5, 0, 1}}) {
    Vec x;
    if (!fg.nonuni) {
      long m = std::lround((fg.hi - fg.lo) / fg.step);
      for (long i = 0; i <= m; i++) x.push_back(i == m ? fg.hi : fg.lo + double(i) * fg.step);
    } else {
      static const double D[3] = {0.0625, 0.125, 0.03125};
      double r = fg.lo;
      for (int k = 0; r < fg.hi; k++) { x.push_back(r); r += D[k % 3]; }
      x.push_back(fg.hi);
    }
    auto parts = bsx::split(fg.fg, ',');
    double gmin = strtod(parts[0].c_str(), nullptr), gh = strtod(parts[1].c_str(), nullptr), gmax = strtod(parts[2].c_str(), nullptr);
    int nk = (int)std::floor((gmax - gmin) / gh + 1e-6) + 1;
    for (std::string type : {"cubic", "linear"}) {
      std::string head = std::string("f;t=") + type + ";fg=" + fg.fg + ";x=" + c12::vecstr(x);
      std::vector<Vec> ORD;
      if (nk <= 6) ORD = c12::ordinates(nk, false);
      else for (int k = 0; k < nk; k++) { Vec e(nk, 0.0); e[k] = 1; ORD.push_back(e); Vec e2(nk, 1.0); e2[k] = -1; ORD.push_back(e2); }
      { Vec l; for (int k = 0; k < nk; k++) l.push_back(1 + 0.5 * (k == nk - 1 ? gmax : gmin + k * gh)); ORD.push_back(l); }
      for (auto &o : ORD) C.push_back(head + ";kind=space;y=" + c12::vecstr(o));
      for (int pat = 0; pat < 48; pat++) {
        Vec y;
        for (size_t i = 0; i < x.size(); i++)
          y.push_back(pat == 0 ? x[i] * x[i] : (pat == 1 ? std::fabs(x[i] - 0.4) : A0[(i * (size_t)(pat / 4 + 1) + (size_t)pat) % 4]));
        C.push_back(head + ";kind=ls;y=" + c12::vecstr(y));
      }
    }
  }
  // the first seven fit grids again with 36 more data patterns
  for (auto &fg : FGS) {
    Vec x; for (double r = fg.lo; r <= fg.hi + 1e-12; r += fg.step) x.push_back(r);
    for (std::string type : {"cubic", "linear"})
      for (int pat = 24; pat < 60; pat++) {
        Vec y;
        for (size_t i = 0; i < x.size(); i++) y.push_back(A0[(i * (size_t)(pat / 4 + 1) + (size_t)pat) % 4]);
        C.push_back(std::string("f;t=") + type + ";fg=" + fg.fg + ";x=" + c12::vecstr(x) + ";kind=ls;y=" + c12::vecstr(y));
      }
  }
  // E9: Table::Smooth: more passes, 6 and 7 points over the full alphabet, step 0.25
  for (long ns : {0L, 1L, 2L, 3L, 5L, 10L})
    for (int n = 2; n <= 7; n++)
      for (double h : {1.0, 0.5, 0.25}) {
        bool had = (ns == 0 || ns == 1 || ns == 2 || ns == 5) && n <= 5 && h != 0.25;
        if (had) continue;
        Vec x; for (int k = 0; k < n; k++) x.push_back(-1.5 + h * k);
        std::vector<Vec> Y = c12::ordinates(n, false);
        for (auto &ab : LINES) { Vec l; for (double xv : x) l.push_back(ab.first + ab.second * xv); Y.push_back(l); }
        for (auto &y : Y) C.push_back("m;n=" + std::to_string(ns) + ";x=" + c12::vecstr(x) + ";y=" + c12::vecstr(y));
      }
}

// Res <-> bsx::Outcome (the case runs in a forked child, see bsx::contained)
static bsx::Outcome pack(const Res &r) {
  bsx::Outcome o;
  o.ok = r.fails.empty();
  if (!o.ok) { o.key = r.fails[0].first; o.what = r.fails[0].second; }
  std::string e = std::to_string(r.checks) + "\x1d" + r.sample + "\x1d";
  for (size_t i = 0; i < r.classes.size(); i++) e += (i ? "\x1c" : "") + r.classes[i];
  e += "\x1d";
  for (size_t i = 0; i < r.fails.size(); i++) e += (i ? "\x1c" : "") + r.fails[i].first + "\x1c" + r.fails[i].second;
  o.extra = e;
  return o;
}

int main(int argc, char **argv) {
  bsx::Args a = bsx::parse(argc, argv);
  if (a.has_case) {
    bsx::Outcome o;
    bsx::contained(0, 1, [&](long long) { return pack(run_case(a.cas)); }, [&](long long, const bsx::Outcome &r) { o = r; });
    if (o.ok) { printf("case holds\n"); return 0; }
    if (o.key == "fatal") { printf("case FAILS: key=fatal %s\n", o.what.c_str()); return 3; }
    auto parts = bsx::split(o.extra, '\x1d');
    auto f = bsx::split(parts.size() > 3 ? parts[3] : "", '\x1c');
    for (size_t i = 0; i + 1 < f.size(); i += 2) printf("case FAILS: key=%s %s\n", f[i].c_str(), f[i + 1].c_str());
    return 3;
  }
  bsx::Report R;
  R.property = "C12"; R.part = "spline"; R.tier = a.tier;
  bool thorough = a.tier == "thorough";
  R.max_samples = 10;
  R.rule =
      std::string("i/l: grids = all sequences of spacings {0.5,1,2} with 2..6 knots x first knot {0,-1.5}; ordinates = all vectors over {-1,0,1,2} up to ") +
      (thorough ? "5" : "4") + " knots (periodic: y0=yN), beyond that unit vectors + 2 patterns, plus 3 straight lines; types linear/cubic/akima x natural/periodic; "
      "evaluation points = every knot, knot +-1e-9, quarter/mid points; one-sided limits of value/slope/curvature at every interval end from 4 samples "
      "(exact for piecewise cubics); checks: data at knots, continuity, C1 (cubic/akima), straight lines (natural), end curvature (natural cubic), "
      "periodic end value/slope/curvature, superposition over the cardinal basis (linear,cubic), full comparison with a long-double reference "
      "(linear, natural cubic); plus grids of 40 and 200 knots (uniform / patterned spacing) with 3 ordinate vectors. f: cubic/linear Fit on 7 fit grids (one with 41 knots) (incl. ranges that are not a multiple of the step) with data on a finer grid: "
      "GenerateGrid knots, reproduction of every spline-space function over the ordinate alphabet, membership + normal equations for 12 (thorough 24) "
      "generic data patterns. m: Table::Smooth(n in {0,1,2,5}) on uniform tables of 2..6 points over the ordinate alphabet + lines: end points, "
      "straight lines. h: operation histories on ONE object: all valid sequences of 1..3 (thorough 4) operations over {setBC, setBCInt, Interpolate(4 data sets on 2 grids), "
      "GenerateGrid+Fit, Fit on the current grid, setSplineData, getX()=grid+setSplineData, probes Calculate/CalculateDerivative scalar+vector, Print, AddToFitMatrix/"
      "AddBCToFitMatrix}; after every step (mode A) or after the last step (mode B) value and derivative on knots, knots+-1e-9, quarter points must be bit-identical to a FRESH "
      "object given only the last data operation, scalar = vector overloads, knot values and one-sided limits as given. distinct_nontrivial = distinct result signatures (rounded mid values/slopes, fit knot values, smoothed vectors)";
  if (thorough)
    R.rule += " || THOROUGH additionally: 6 knots on spacings {0.5,2} x all ordinates, 7 knots x ordinates over {-1,0,2}, 8 knots x ordinates over {-1,2}; spacing "
              "alphabets {0.25,0.75,1.5,3} and decimal {0.1,0.3,0.7} (2..4 knots all ordinates, 5 knots ternary); ordinate alphabets {-2,-1,0,0.5,1,3} and "
              "{-1000,0,0.001,1} (2..4 knots); grids of 7,8,10,12,16,24,32 knots (uniform + 2 spacing patterns) x all unit vectors + 2 patterns + lines; 7 more "
              "fit problems (5/6/11-knot and decimal fit grids, range not a multiple of the step, non-uniform data abscissae, all ordinates up to 6 knots, 48 data "
              "patterns) and 36 more data patterns on the first 7; Smooth with n in {0,1,2,3,5,10}, 2..7 points, steps {1,0.5,0.25}";
  CaseList CL(a);
  std::map<char, int> sampled;
  std::vector<std::string> chunk;
  long long done = 0;
  auto flush = [&]() {
    const std::vector<std::string> &C = chunk;
    bsx::contained(
        0, (long long)C.size(), [&](long long i) { return pack(run_case(C[i])); },
        [&](long long i, const bsx::Outcome &o) {
          R.eval();
          R.counters[std::string("cases_") + C[i][0]]++;
          if (o.key == "fatal") {
            auto m = bsx::kvs(C[i]);
            R.fail(family(C[i], m) + "-fatal", o.what + "  [" + C[i] + "]", C[i]);
            return;
          }
          auto parts = bsx::split(o.extra, '\x1d');
          if (parts.size() < 4) return;
          R.counters["comparisons"] += atoll(parts[0].c_str());
          if (!parts[2].empty()) for (auto &c : bsx::split(parts[2], '\x1c')) R.cls(c);
          auto f = bsx::split(parts[3], '\x1c');
          for (size_t k = 0; k + 1 < f.size(); k += 2) R.fail(f[k], f[k + 1] + "  [" + C[i] + "]", C[i]);
          if (o.ok && sampled[C[i][0]] < 3 && (done + i) % 41 == 7) { sampled[C[i][0]]++; R.sample(C[i] + " -> " + parts[1]); }
        },
        60);
    done += (long long)chunk.size();
    chunk.clear();
  };
  CL.sink = [&](const std::string &cas) { chunk.push_back(cas); if (chunk.size() >= 20000) flush(); };
  all_cases(thorough, CL);
  flush();
  R.counters["cases_in_all_shards"] = a.shard == 0 ? CL.n : 0;
  R.assumptions = {"inside one knot interval the reported spline is a polynomial of degree <= 3 (that is what makes the 4-sample one-sided limits exact)",
                   "periodic clauses are asserted for periodic data (y0 = yN); for the linear spline only the end values (a piecewise-linear interpolant has no free slope)",
                   "straight-line clause of Table::Smooth is asserted on uniform grids (the filter acts on the ordinates only)",
                   "fit data have at least two abscissae inside every fit interval, so the least-squares optimum is unique",
                   "Eigen index assertions (thrown), _GLIBCXX_ASSERTIONS and ASan/UBSan guard the memory accesses of spline.cc/cubicspline.cc/akimaspline.cc/linspline.cc/table.cc/linalg.cc"};
  if (!R.write(a.out)) { fprintf(stderr, "cannot write %s\n", a.out.c_str()); return 2; }
  return 0;
}
