#!/usr/bin/env python3
"""C05 / E2: TLA+ model of the frame-distribution protocol (models/CsgRing.tla), checked
exhaustively by TLC (no preemption bound), and bound to the implementation in both directions:
  impl  -> model : every execution the controlled scheduler produces for the same configuration
                   (all schedules with <= k preemptions) is walked through the dumped state graph;
                   every step (thread, resumed op) must be an edge and the observable events equal.
  model -> impl  : every maximal path of the graph (or, above a cap, a set of paths covering every
                   edge) is forced onto the real code as a thread-id schedule; every step must be
                   enabled there and produce the same labels and events.
"""
import os, re, subprocess, sys, time, json, collections
sys.path.insert(0, os.path.join(os.environ.get("VERIF_ROOT", "/verif"), "lib"))
import pybsx

ROOT = os.environ.get("VERIF_ROOT", "/verif")
RING = os.path.join(pybsx.BUILD, "harness", "C05_ring")
LOCKS = {"PL", "L_IN", "L_RD", "L_OUT", "ML"}


def norm(label):
    return "LOCK" if label in LOCKS or label.startswith("L?") else label


def run_tlc(wd, nt, f, n, ordered, workers=2):
    os.makedirs(wd, exist_ok=True)
    spec = open(os.path.join(ROOT, "models", "CsgRing.tla")).read()
    open(os.path.join(wd, "CsgRing.tla"), "w").write(spec)
    open(os.path.join(wd, "CsgRing.cfg"), "w").write(
        "CONSTANTS NT = %d F = %d N = %d ORD = %s\nSPECIFICATION Spec\n"
        "INVARIANTS MutexReader MutexMerge ReadsInOrder NoDoubleEval AtEnd\n" % (nt, f, n, "TRUE" if ordered else "FALSE"))
    cmd = ["tlc", "-workers", str(workers), "-metadir", os.path.join(wd, "meta"), "-dump", "dot,actionlabels",
           os.path.join(wd, "g.dot"), "CsgRing.tla"]
    r = subprocess.run(cmd, cwd=wd, stdout=subprocess.PIPE, stderr=subprocess.STDOUT, timeout=1800)
    out = r.stdout.decode(errors="replace")
    ok = "Model checking completed. No error has been found." in out
    m = re.search(r"(\d+) states generated, (\d+) distinct states found", out)
    return ok, out, (int(m.group(2)) if m else 0)


NODE = re.compile(r'^(-?\d+) \[label="(.*?)"(,tooltip=|,style|\])')
EDGE = re.compile(r'^(-?\d+) -> (-?\d+) \[')


def parse_graph(path):
    nodes, edges, init = {}, collections.defaultdict(list), None
    for line in open(path):
        m = EDGE.match(line)
        if m:
            a, b = m.group(1), m.group(2)
            if a != b:
                edges[a].append(b)
            continue
        m = NODE.match(line)
        if m:
            nid, lab = m.group(1), m.group(2)
            lm = re.search(r'last = <<(-?\d+), \\"(\w+)\\">>', lab)
            # a conjunct ends where the next one ("\n/\\ ") starts; long values are wrapped by TLC's pretty printer
            om = re.search(r'out = (<<.*?)(?:\\n/\\\\ |$)', lab)
            pm = re.search(r'pc = \(\s*0 :> <<\\"(\w+)\\"', lab)
            outs = om.group(1) if om else ""
            kind = re.search(r'\\"(\w+)\\"', outs)
            ints = [int(x) for x in re.findall(r'-?\d+', outs[outs.find(','):])] if ',' in outs else []
            nodes[nid] = dict(last=(int(lm.group(1)), lm.group(2)), out=(kind.group(1) if kind else "none", ints), mainpc=pm.group(1) if pm else "?")
            if "style = filled" in line and init is None:
                init = nid
    return nodes, edges, init


def flatten(out):
    kind, ints = out
    if kind == "read":
        return ["R%d" % ints[0]]
    if kind == "readeval":
        return ["R%d" % ints[1], "E%d:%d" % (ints[0], ints[1])]
    if kind == "eval":
        return ["E%d:%d" % (ints[0], ints[1])]
    if kind == "mergedframes":
        return ["M%d" % x for x in ints]
    if kind == "final":
        return ["F%d" % x for x in ints]
    return []


def parse_trace(line):
    d = dict(p.split("=", 1) for p in line.rstrip("\n").split("|"))
    steps = [(int(s.split(":")[0]), s.split(":")[1]) for s in d["steps"].split(",")] if d["steps"] else []
    ev = d["events"].split(",") if d["events"] else []
    return int(d["verdict"]), steps, ev, d.get("msg", "")


def walk(nodes, edges, init, steps):
    """returns (ok, where, events, final node)"""
    cur, ev = init, []
    for i, (t, lab) in enumerate(steps):
        nxt = [b for b in edges[cur] if nodes[b]["last"][0] == t and norm(nodes[b]["last"][1]) == norm(lab)]
        if len(nxt) != 1:
            return False, "step %d (%d:%s): %d matching model edges from state with last=%s" % (i, t, lab, len(nxt), nodes[cur]["last"]), ev, cur
        cur = nxt[0]
        ev += flatten(nodes[cur]["out"])
    return True, "", ev, cur


def all_paths(nodes, edges, init, cap):
    """maximal paths as lists of node ids; None if more than cap"""
    paths, stack = [], [(init, [init])]
    while stack:
        cur, p = stack.pop()
        succ = edges[cur]
        if not succ:
            paths.append(p)
            if len(paths) > cap:
                return None
            continue
        for b in succ:
            stack.append((b, p + [b]))
    return paths


def edge_cover(nodes, edges, init):
    """a set of maximal paths covering every edge (greedy: prefer uncovered edges)"""
    uncovered = {(a, b) for a in edges for b in edges[a]}
    # shortest path to each node from init (for reaching an uncovered edge)
    parent = {init: None}
    q = collections.deque([init])
    while q:
        a = q.popleft()
        for b in edges[a]:
            if b not in parent:
                parent[b] = a
                q.append(b)
    paths = []
    while uncovered:
        a, b = next(iter(uncovered))
        pre = []
        x = a
        while x is not None:
            pre.append(x)
            x = parent[x]
        p = pre[::-1] + [b]
        cur = b
        while edges[cur]:
            nxt = [c for c in edges[cur] if (cur, c) in uncovered] or edges[cur]
            cur = nxt[0]
            p.append(cur)
        for i in range(len(p) - 1):
            uncovered.discard((p[i], p[i + 1]))
        paths.append(p)
    return paths


class Unbound(Exception):
    pass


def one_config(R, wd, nt, f, n, ordered, bound, pathcap):
    """A conformance failure means the MODEL is no longer bound to this source tree (e.g. a refactoring added or
    removed a synchronisation point): the model is then not used as evidence for this configuration and nothing
    is reported as a violation -- the direct exploration of the real code (part `ring`) decides the property.
    Only a failure of the model's own invariants / deadlock freedom is a failure of this part."""
    try:
        return one_config_(R, wd, nt, f, n, ordered, bound, pathcap)
    except subprocess.TimeoutExpired:
        R.count("configs_conformance_timed_out")
        R.cap("conformance run for NT=%d F=%d N=%d ORD=%s exceeded its time limit: model not used as evidence for this configuration" % (nt, f, n, ordered))
        return 0, 0, 0
    except Unbound as e:
        R.count("configs_model_not_bound")
        R.cap("model not bound to this tree for %s: %s" % ("NT=%d F=%d N=%d ORD=%s" % (nt, f, n, ordered), str(e)[:300]))
        return 0, 0, 0


def one_config_(R, wd, nt, f, n, ordered, bound, pathcap):
    cfgname = "NT=%d F=%d N=%d ORD=%s" % (nt, f, n, ordered)
    implcfg = "nt=%d;F=%d;ff=0;N=%d;ord=%d" % (nt, f, -1 if n == 99 else n, 1 if ordered else 0)
    ok, out, nstates = run_tlc(wd, nt, f, n, ordered)
    if not ok:
        tail = out[-1500:]
        kind = "invariant" if "Invariant" in out and "is violated" in out else ("deadlock" if "Deadlock reached" in out else "tlc-error")
        R.fail("model-" + kind, "TLC on %s: %s" % (cfgname, tail.replace("\n", " / ")[-700:]), "model;" + implcfg)
        return 0, 0, 0
    nodes, edges, init = parse_graph(os.path.join(wd, "g.dot"))
    nedges = sum(len(v) for v in edges.values())
    terminals = [x for x in nodes if not edges[x]]
    for tnode in terminals:
        if nodes[tnode]["mainpc"] != "END":
            R.fail("model-deadlock", "model state without successor and main not at END in %s" % cfgname, "model;" + implcfg)
    # impl -> model
    tr = os.path.join(wd, "impl.txt")
    subprocess.run([RING, "--dump-traces", implcfg, "--bound", str(bound), "--outfile", tr], check=True, cwd=wd,
                   stdout=subprocess.DEVNULL, stderr=subprocess.DEVNULL, timeout=900)
    n_impl = 0
    for line in open(tr):
        verdict, steps, ev, msg = parse_trace(line)
        n_impl += 1
        R.eval()
        okw, where, mev, fin = walk(nodes, edges, init, steps)
        if not okw:
            raise Unbound("implementation step not in the model: " + where)
        if verdict == 1 and nodes[fin]["mainpc"] != "END":
            raise Unbound("implementation completed but the model is at main pc %s" % nodes[fin]["mainpc"])
        if mev != ev:
            raise Unbound("events differ: impl %s model %s" % (ev, mev))
        R.cls(("i2m", cfgname, tuple(ev)))
    # model -> impl
    paths = all_paths(nodes, edges, init, pathcap)
    mode = "all-paths"
    if paths is None:
        paths = edge_cover(nodes, edges, init)
        mode = "edge-cover"
    tf = os.path.join(wd, "tids.txt")
    with open(tf, "w") as fh:
        for p in paths:
            fh.write(",".join(str(nodes[x]["last"][0]) for x in p[1:]) + "\n")
    of = os.path.join(wd, "forced.txt")
    subprocess.run([RING, "--run-tids", implcfg, "--tidsfile", tf, "--outfile", of], check=True, cwd=wd,
                   stdout=subprocess.DEVNULL, stderr=subprocess.DEVNULL, timeout=900)
    lines = open(of).read().splitlines()
    n_model = 0
    for p, line in zip(paths, lines):
        verdict, steps, ev, msg = parse_trace(line)
        n_model += 1
        R.eval()
        want = [(nodes[x]["last"][0], norm(nodes[x]["last"][1])) for x in p[1:]]
        got = [(t, norm(l)) for t, l in steps]
        mev = []
        for x in p[1:]:
            mev += flatten(nodes[x]["out"])
        if verdict != 1:
            raise Unbound("forcing a model path onto the code ended with verdict %d (%s)" % (verdict, msg))
        if got != want:
            raise Unbound("labels differ on a forced model path: model %s impl %s" % (want[:40], got[:40]))
        if mev != ev:
            raise Unbound("events differ on a forced model path: model %s impl %s" % (mev, ev))
        R.cls(("m2i", cfgname, tuple(ev)))
    R.count("model_states", nstates)
    R.count("model_edges", nedges)
    R.count("impl_traces_walked_through_model", n_impl)
    R.count("model_paths_forced_on_impl_" + mode, n_model)
    if len(R.samples) < R.max_samples and paths:
        p = paths[0]
        R.sample("%s: %d states, %d edges, %s %d; first path: %s" % (cfgname, nstates, nedges, mode, len(paths),
                 " ".join("%d:%s" % nodes[x]["last"] for x in p[1:])))
    return nstates, nedges, n_impl + n_model


def main():
    a = pybsx.parse()
    if a.case is not None:
        # conformance failures are re-checked by re-running the whole configuration
        parts = a.case.split(";", 1)
        kv = dict(x.split("=", 1) for x in parts[1].split(";") if "=" in x)
        R = pybsx.Report("C05", "model", "quick")
        n = int(kv["N"])
        one_config(R, os.path.join(os.getcwd(), "case"), int(kv["nt"]), int(kv["F"]), 99 if n < 0 else n, kv["ord"] == "1", 1, 3000)
        if R.failures:
            print("case FAILS:", R.failures[0]["key"], R.failures[0]["what"][:500])
            return 3
        print("case holds")
        return 0
    R = pybsx.Report("C05", "model", a.tier)
    thorough = a.tier == "thorough"
    R.rule = ("TLA+ model models/CsgRing.tla (one action per scheduler segment) checked by TLC over ALL interleavings (no preemption bound) "
              "with invariants reader/merge mutual exclusion, reads in file order, no frame evaluated twice, at termination every selected frame "
              "evaluated once and merged in order (ordered) / as a set (unordered), no deadlock; bound to the code by walking every implementation "
              "execution (<=k preemptions) through the dumped state graph and by forcing every maximal model path (or an edge cover) onto the real "
              "code as a thread-id schedule. distinct_nontrivial = distinct (direction, configuration, event sequence)")
    cfgs = []
    if thorough:
        for nt in (1, 2, 3):
            for f in (1, 2, 3):
                for n in (99, 0, 1, 2):
                    for o in (True, False):
                        cfgs.append((nt, f, n, o))
        cfgs += [(4, 3, 99, True), (4, 2, 99, False), (3, 4, 99, True), (4, 4, 2, False)]
    else:
        cfgs = [(2, 2, 99, True), (2, 2, 99, False), (3, 3, 99, True), (3, 2, 1, False), (2, 3, 2, False), (1, 2, 99, True), (3, 2, 0, True), (2, 3, 1, True)]
    states = trans = traces = 0
    for i, (nt, f, n, o) in enumerate(cfgs):
        if not a.mine(i):
            continue
        bound = 1 if (nt >= 3 or not thorough) else 2
        s, e, t = one_config(R, os.path.join(os.getcwd(), "c%d" % i), nt, f, n, o, bound, 400 if not thorough else 3000)
        states += s; trans += e; traces += t
    R.states, R.transitions, R.traces = states, trans, traces
    R.assumptions = ["model configurations: first-frame <= 1, F >= 1, NT <= 4", "lock labels are compared as a class (LOCK), yields by tag"]
    R.write(a.out)
    return 0


if __name__ == "__main__":
    sys.exit(main())
