// C18 (part range) — tools::RangeParser: a range expression 'a:s:b, c:d, e' enumerates
// exactly the integers it denotes, in order; iteration terminates for every accepted
// expression; malformed / empty-step / zero-stride expressions are rejected; printing a
// parsed range and parsing it again gives the same sequence.
//
// Every expression of a bounded grammar window is parsed by the real RangeParser and by a
// strict reference parser; accepted expressions are iterated under a STEP BUDGET (the
// loop is in this file, so a non-terminating iterator is detected after budget steps, and
// every case additionally runs in a forked child with an alarm).
#include <algorithm>
#include <sstream>
#include <stdexcept>

#include "bsx.h"
#include "votca/tools/rangeparser.h"

using bsx::Outcome;
using votca::tools::RangeParser;

// ---- percent encoding so that any expression fits into a ';'/'=' separated case string
static std::string enc(const std::string &s) {
  std::string o;
  for (unsigned char c : s) {
    if (isalnum(c) || c == ':' || c == '-' || c == ',' || c == '.') o += (char)c;
    else { char b[8]; snprintf(b, sizeof b, "%%%02X", c); o += b; }
  }
  return o;
}
static std::string dec(const std::string &s) {
  std::string o;
  for (size_t i = 0; i < s.size(); i++) {
    if (s[i] == '%' && i + 2 < s.size()) { o += (char)strtol(s.substr(i + 1, 2).c_str(), nullptr, 16); i += 2; }
    else o += s[i];
  }
  return o;
}

// ---------------------------------------------------------------- reference
struct RBlock { long b, e, s; bool empty() const { return s > 0 ? b > e : b < e; } };
struct RefParse {
  bool blank = false;      // nothing but blanks: accepting (as the empty range) or rejecting are both allowed
  bool either = false;     // spelling the statement does not settle (leading '+', tab/newline as blank, integers beyond 32 bit):
                           // may be rejected; if accepted it must denote what the reference reads
  std::string malformed;   // "" = well formed, else the class
  std::vector<RBlock> blocks;
};
// 0 = not an integer, 1 = plain int, 2 = int in an unsettled spelling (leading '+', more than 9 digits), 3 = does not fit 64 bit
static int int_class(const std::string &t) {
  size_t i = 0;
  bool plus = false;
  if (i < t.size() && (t[i] == '-' || t[i] == '+')) { plus = t[i] == '+'; i++; }
  if (i == t.size()) return 0;
  size_t nd = t.size() - i;
  for (; i < t.size(); i++) if (!isdigit((unsigned char)t[i])) return 0;
  if (nd >= 20) return 3;
  if (nd > 18) return 0;  // 19 digits: may or may not fit, not enumerated
  return (plus || nd > 9) ? 2 : 1;
}
static std::vector<std::string> split_keep(const std::string &s, char d) { return bsx::split(s, d); }
// DESIGN §6: after blank removal every comma separated block must be int, int:int or int:int:int, stride != 0
static RefParse refparse(const std::string &expr) {
  RefParse r;
  std::string s;
  for (char c : expr) {
    if (c == ' ') continue;
    if (c == '\t' || c == '\n' || c == '\r') { r.either = true; continue; }  // the code strips ' ' only; other white space is unsettled
    s += c;
  }
  if (s.empty()) { r.blank = true; return r; }
  auto setm = [&](const std::string &m) { if (r.malformed.empty()) r.malformed = m; };
  for (const std::string &bl : split_keep(s, ',')) {
    if (bl.empty()) { setm("empty-block"); continue; }
    auto f = split_keep(bl, ':');
    if (f.size() > 3) { setm("too-many-fields"); continue; }
    bool bad = false;
    for (auto &t : f) {
      int c = t.empty() ? -1 : int_class(t);
      if (c == -1) { setm("empty-field"); bad = true; }
      else if (c == 0) { setm("not-an-integer"); bad = true; }
      else if (c == 3) { setm("overflowing-integer"); bad = true; }
      else if (c == 2) r.either = true;
    }
    if (bad) continue;
    RBlock b;
    b.b = atol(f[0].c_str()); b.e = b.b; b.s = 1;
    if (f.size() == 2) b.e = atol(f[1].c_str());
    if (f.size() == 3) { b.s = atol(f[1].c_str()); b.e = atol(f[2].c_str()); }
    if (b.s == 0) { setm("zero-stride"); continue; }
    r.blocks.push_back(b);
  }
  return r;
}
static std::vector<long> refseq(const std::vector<RBlock> &bl) {
  std::vector<long> v;
  for (auto &b : bl) if (!b.empty() && (b.e - b.b) / b.s > 100000) throw std::runtime_error("block longer than the enumerated windows");
  for (auto &b : bl) {
    if (b.s > 0) for (long x = b.b; x <= b.e; x += b.s) v.push_back(x);
    else for (long x = b.b; x >= b.e; x += b.s) v.push_back(x);
  }
  return v;
}
static std::string show(const std::vector<long> &v, size_t max = 14) {
  std::string s = "[";
  for (size_t i = 0; i < v.size() && i < max; i++) s += (i ? "," : "") + std::to_string(v[i]);
  if (v.size() > max) s += ",...";
  return s + "]";
}

// iterate the real object under a step budget; false = budget exhausted (no termination)
static bool iterate(RangeParser &rp, size_t budget, std::vector<long> &out) {
  size_t steps = 0;
  for (RangeParser::iterator it = rp.begin(); it != rp.end(); ++it) {
    if (steps++ >= budget) return false;
    out.push_back((long)*it);
  }
  return true;
}

static Outcome fail(const std::string &key, const std::string &what, const std::string &cas) {
  Outcome o; o.ok = false; o.key = key; o.what = what + "  [" + cas + "]";
  return o;
}

// mode "parse": expression through Parse();  mode "add": b,e,s triple through Add()
static Outcome range_case(const std::string &expr) {
  Outcome o;
  std::string cas = "range;expr=" + enc(expr);
  RefParse ref = refparse(expr);
  bool hasneg = false, hasempty = false;
  for (auto &b : ref.blocks) { hasneg |= b.s < 0; hasempty |= b.empty(); }
  std::vector<long> exp = refseq(ref.blocks);
  size_t budget = exp.size() + 32;

  RangeParser rp;
  bool accepted = true;
  std::string err;
  try { rp.Parse(expr); } catch (const std::exception &e) { accepted = false; err = e.what(); }

  if (!ref.malformed.empty()) {
    if (!accepted) { o.cls = bsx::fnv(std::string("rejected-malformed-") + ref.malformed); o.extra = "rejected"; return o; }
    std::vector<long> got;
    bool term = iterate(rp, budget, got);
    return fail("range-" + ref.malformed + "-accepted",
                "Parse(\"" + expr + "\") accepted a malformed expression (" + ref.malformed + "); iteration " +
                    (term ? "yields " + show(got) : "does not terminate within " + std::to_string(budget) + " steps: " + show(got, 8)), cas);
  }
  if (ref.blank) {  // either convention is fine, but if accepted it must be the empty range
    if (!accepted) { o.extra = "rejected"; return o; }
    std::vector<long> got;
    if (!iterate(rp, budget, got) || !got.empty()) return fail("range-blank-not-empty", "blank expression yields " + show(got), cas);
    o.extra = "empty"; return o;
  }
  if (!accepted) {
    if (hasempty) { o.cls = bsx::fnv(std::string("rejected-empty-interval")); o.extra = "rejected"; return o; }  // '5:2' denotes nothing: rejecting is allowed
    if (ref.either) { o.cls = bsx::fnv(std::string("rejected-unsettled-spelling")); o.extra = "rejected"; return o; }
    return fail(std::string("range-valid-rejected") + (hasneg ? "-negative-stride" : ""), "Parse(\"" + expr + "\") threw '" + err + "' but denotes " + show(exp), cas);
  }
  std::vector<long> got;
  bool term = iterate(rp, budget, got);
  if (!term)
    return fail(hasneg ? "range-negative-stride-nonterminating" : "range-nonterminating",
                "iteration over \"" + expr + "\" does not terminate within " + std::to_string(budget) + " steps (expected " +
                    std::to_string(exp.size()) + " values " + show(exp) + "); it yields " + show(got, 8), cas);
  if (got != exp)
    return fail(hasneg ? "range-negative-stride-wrong-sequence" : "range-wrong-sequence",
                "\"" + expr + "\" enumerates " + show(got) + ", denotes " + show(exp), cas);
  // print -> parse round trip
  std::ostringstream os;
  os << rp;
  RangeParser rp2;
  try { rp2.Parse(os.str()); } catch (const std::exception &e) {
    return fail("range-roundtrip-reparse-rejected", "\"" + expr + "\" prints as \"" + os.str() + "\" which Parse rejects: " + e.what(), cas);
  }
  std::vector<long> got2;
  if (!iterate(rp2, budget, got2) || got2 != got)
    return fail("range-roundtrip-differs", "\"" + expr + "\" prints as \"" + os.str() + "\" which enumerates " + show(got2) + " instead of " + show(got), cas);
  o.extra = show(exp) + " printed \"" + os.str() + "\"";
  if (!exp.empty()) o.cls = bsx::fnv(show(exp, 1000));
  return o;
}

// Add(b,e,s) — only well-formed, non-empty, positive-stride triples (the programmatic API does not validate)
static Outcome add_case(const std::string &spec) {
  Outcome o;
  std::string cas = "add;blocks=" + spec;
  std::vector<RBlock> bl;
  RangeParser rp;
  for (auto &t : bsx::split(spec, '/')) {
    auto f = bsx::split(t, '_');
    RBlock b{atol(f[0].c_str()), atol(f[1].c_str()), atol(f[2].c_str())};
    bl.push_back(b);
    if (b.s == 1) rp.Add(b.b, b.e); else rp.Add(b.b, b.e, b.s);
  }
  std::vector<long> exp = refseq(bl), got;
  size_t budget = exp.size() + 32;
  if (!iterate(rp, budget, got)) return fail("range-add-nonterminating", "Add(" + spec + ") iteration does not terminate within " + std::to_string(budget) + " steps", cas);
  if (got != exp) return fail("range-add-wrong-sequence", "Add(" + spec + ") enumerates " + show(got) + ", denotes " + show(exp), cas);
  std::ostringstream os;
  os << rp;
  RangeParser rp2;
  std::vector<long> got2;
  try { rp2.Parse(os.str()); } catch (const std::exception &e) { return fail("range-add-roundtrip-reparse-rejected", "prints as \"" + os.str() + "\": " + e.what(), cas); }
  if (!iterate(rp2, budget, got2) || got2 != got) return fail("range-add-roundtrip-differs", "prints as \"" + os.str() + "\" which enumerates " + show(got2) + " instead of " + show(got), cas);
  o.extra = show(exp) + " printed \"" + os.str() + "\"";
  o.cls = bsx::fnv("add" + show(exp, 1000));
  return o;
}

// reuse history on ONE RangeParser object. ops: P:<expr> (Parse), A:b_e_s (Add), O (operator<< then Parse of the
// printed text into the SAME object).  Contract (the code appends to its block list and never clears it): after every
// op the enumeration is exactly all blocks added so far, in order; iterating twice gives the same sequence.
static Outcome rseq_case(const std::string &ops) {
  Outcome o;
  std::string cas = "rseq;ops=" + ops;
  RangeParser rp;
  std::vector<long> exp;
  std::string prev = "fresh", trace;
  bool hasneg = false;
  for (auto &op : bsx::split(ops, '/')) {
    std::string kind = op[0] == 'P' ? "parse" : op[0] == 'A' ? "add" : "print-parse";
    std::vector<long> add;
    if (op[0] == 'P') {
      std::string expr = dec(op.substr(2));
      RefParse ref = refparse(expr);
      if (!ref.malformed.empty() || ref.blank || ref.either) return fail("bad-case", "reuse histories use plain well-formed expressions only", cas);
      for (auto &b : ref.blocks) { hasneg |= b.s < 0; if (b.empty()) return fail("bad-case", "empty interval in a reuse history", cas); }
      add = refseq(ref.blocks);
      try { rp.Parse(expr); } catch (const std::exception &e) { return fail("range-reuse-" + prev + "-then-parse-rejected", "Parse(\"" + expr + "\") on a reused object threw: " + e.what(), cas); }
    } else if (op[0] == 'A') {
      auto f = bsx::split(op.substr(2), '_');
      RBlock b{atol(f[0].c_str()), atol(f[1].c_str()), atol(f[2].c_str())};
      add = refseq({b});
      if (b.s == 1) rp.Add(b.b, b.e); else rp.Add(b.b, b.e, b.s);
    } else {
      std::ostringstream os;
      os << rp;
      add = exp;  // the printed text denotes everything added so far, parsing it appends that once more
      try { rp.Parse(os.str()); } catch (const std::exception &e) {
        if (!exp.empty()) return fail("range-reuse-" + prev + "-then-print-parse-rejected", "printed \"" + os.str() + "\" rejected by Parse on the same object: " + e.what(), cas);
      }
    }
    exp.insert(exp.end(), add.begin(), add.end());
    std::vector<long> g1, g2;
    size_t budget = exp.size() + 32;
    std::string sfx = hasneg ? "-negative-stride" : "";
    if (!iterate(rp, budget, g1)) return fail("range-reuse-" + prev + "-then-" + kind + "-nonterminating" + sfx, "after " + op + " iteration does not terminate within " + std::to_string(budget) + " steps", cas);
    if (g1 != exp) return fail("range-reuse-" + prev + "-then-" + kind + sfx, "after " + op + " the object enumerates " + show(g1, 24) + ", all blocks added so far denote " + show(exp, 24), cas);
    if (!iterate(rp, budget, g2) || g2 != g1) return fail("range-reuse-iterate-twice-differs" + sfx, "second iteration gives " + show(g2, 24) + " after " + show(g1, 24), cas);
    prev = kind;
    trace = show(exp, 24);
  }
  o.extra = trace;
  if (!exp.empty()) o.cls = bsx::fnv("rseq" + show(exp, 1000));
  return o;
}

static Outcome run_case(const std::string &cas) {
  auto m = bsx::kvs(cas);
  try {
    if (cas.rfind("range;", 0) == 0) return range_case(dec(m["expr"]));
    if (cas.rfind("add;", 0) == 0) return add_case(m["blocks"]);
    if (cas.rfind("rseq;", 0) == 0) return rseq_case(m["ops"]);
  } catch (const std::exception &e) {
    Outcome o; o.ok = false; o.key = "bad-case"; o.what = std::string("harness: ") + e.what() + " [" + cas + "]";
    return o;
  }
  Outcome o; o.ok = false; o.key = "bad-case"; o.what = "unknown case " + cas;
  return o;
}

static std::string blk(long b, long s, long e) { return std::to_string(b) + ":" + std::to_string(s) + ":" + std::to_string(e); }

int main(int argc, char **argv) {
  bsx::Args a = bsx::parse(argc, argv);
  if (a.has_case) {
    Outcome o;
    bsx::contained(0, 1, [&](long long) { return run_case(a.cas); }, [&](long long, const Outcome &r) { o = r; }, 30);
    if (o.ok) { printf("case holds\n"); return 0; }
    printf("case FAILS: key=%s %s\n", o.key.c_str(), o.what.c_str());
    return 3;
  }
  bool thorough = a.tier == "thorough";
  bsx::Report R;
  R.property = "C18"; R.part = "range"; R.tier = a.tier;
  long lo = thorough ? -8 : -3, hi = thorough ? 20 : 6, smax = thorough ? 6 : 3;

  std::vector<std::string> cases;  // full case strings, simplest first
  auto addexpr = [&](const std::string &e) { cases.push_back("range;expr=" + enc(e)); };
  // (1) all single blocks of the window
  for (long b = lo; b <= hi; b++) addexpr(std::to_string(b));
  for (long b = lo; b <= hi; b++) for (long e = lo; e <= hi; e++) addexpr(std::to_string(b) + ":" + std::to_string(e));
  for (long s = -smax; s <= smax; s++) for (long b = lo; b <= hi; b++) for (long e = lo; e <= hi; e++) addexpr(blk(b, s, e));
  // (2) malformed set, alone and next to a valid block
  std::vector<std::string> mal = {"", " ", ",", "1::3", ":5", "1:", "1:2:3:4", "a:3", "1x:3", "1:0:3", "1,,3", "1,", ",1", ":", "::", "1:2:",
                                  ":1:2", "1:3x", "1:x:3", "1.5", "1:2.5:4", "--1", "1-2", "-", "1;3", "1:2:3:4:5", "0x3", "3:0:3", "5:0:1", "1:-0:3", "1: :3", "1 : : 3"};
  if (thorough)
    for (auto &x : std::vector<std::string>{"+1", "+1:3", "1:+2:5", "1:3:+5", "-3:+1:+3", "++1", "+-1", "-+1", "+", "1+", "1:+", "+:3", "2147483647", "2147483648", "-2147483648", "-2147483649",
                                            "4294967296", "123456789012", "123456789012:123456789014", "123456789012:2:123456789016", "-123456789012", "99999999999999999999",
                                            "1:99999999999999999999", "-99999999999999999999", "1:100000000000000000000:5", "99999999999999999999:99999999999999999999", "00", "007", "-007", "1:02:5",
                                            "1:-02:-5", "1e3", "1E3", "0b1", "1\t:3", "1:\t3", "\t1", "1\t", "1\n", "1,\n2", "1\r", "\t", "\n", " \t ", "1  :  3", "1 2", "1 2:1 5", "- 1", "- 1 : - 1 : - 3",
                                            "1:2,,", ",,", ",,1", "1:2;3", "1:2:3:", ":1:2:3", "1,2,3,", "1:a", "a", "abc", "1:2:a", "1:-", "-:-", "1:-:3", "-:1", "0x10", "1.0", "1.", ".5", "1/2",
                                            "1:2/3", "(1:3)", "[1:3]", "1..3", "1-3", "1 - 3", "1:3 5", "1:3:", "1:3:5:", ":::", "1:::3", "1::", "::3", "1,:", ":,1", "1:2:0", "0:0:0", "0:00:5", "5:-0:1",
                                            "1:1:1:1", "1#3", "1:3#", "#", "1:3 # comment", "1_000", "1'000", "\"1\"", "'1:3'", "1:3\\", "*", "1:*", "?", "all", "1:end", "nan", "inf", "-inf", "1:inf"})
      mal.push_back(x);
  for (auto &m : mal) addexpr(m);
  for (auto &m : mal) { addexpr("0:2," + m); addexpr(m + ",0:2"); }
  // (3) all two-block expressions over a block subset (singles, pairs, positive/negative/zero strides, empty intervals)
  std::vector<std::string> sub = {"-2", "0", "3", "5", "0:2", "2:2", "-3:-1", "-1:1", "4:6", "3:1", "0:1:3", "0:2:5", "1:3:6", "-3:2:2", "0:2:0", "2:3:2",
                                  "0:3:2", "6:-1:3", "6:-2:1", "5:-3:3", "3:-1:3", "0:-1:-2", "-1:-2:-3", "1:-1:4", "2:0:4", "3:0:3", "1:1:1", "0:1:6", "-3:3:6", "6:-3:-3"};
  if (thorough) for (auto &x : std::vector<std::string>{"12", "-5", "0:12", "-5:5:12", "12:-5:-5", "7:2:8", "8:-2:7", "1:4:2", "2:-4:1", "-5:-4", "10:1:12", "12:-1:10",
                                                      "0:5:4", "4:-5:0", "9:9", "9:3:9", "9:-3:9", "11:0:11", "0:-2:-5", "-4:2:-1", "3:2:4", "4:-2:3", "6:6:12", "12:-6:0", "1:2:7", "7:-2:1", "2:1:3", "3:-1:2", "0:4:12", "12:-4:0"})
      sub.push_back(x);
  std::vector<std::string> sub2 = sub;  // blocks for the two-block product
  if (thorough) {
    const long V[] = {-8, -2, 0, 1, 3, 7, 20}, S[] = {-6, -2, -1, 0, 1, 2, 3, 6};
    for (long b : V) sub2.push_back(std::to_string(b));
    for (long b : V) for (long e : V) sub2.push_back(std::to_string(b) + ":" + std::to_string(e));
    for (long st : S) for (long b : V) for (long e : V) sub2.push_back(blk(b, st, e));
    std::sort(sub2.begin(), sub2.end());
    sub2.erase(std::unique(sub2.begin(), sub2.end()), sub2.end());
  }
  for (auto &x : sub2) for (auto &y : sub2) addexpr(x + "," + y);
  // (4) blanks are removed before parsing: the same blocks with blanks inside
  for (auto &x : sub) {
    std::string sp;
    for (char c : x) { if (c == ':') sp += " : "; else sp += c; }
    addexpr(" " + sp + " ");
    addexpr(sp + " , " + sub[4]);
    addexpr(sub[10] + " ,  " + sp);
    if (thorough) {
      std::string tb;
      for (char c : x) { if (c == ':') tb += "\t:\t"; else tb += c; }
      addexpr("\t" + x); addexpr(x + "\t"); addexpr(tb); addexpr(x + ",\n" + sub[4]); addexpr(x + "\r\n");
      addexpr("  " + x + "  ,  " + x + "  ");
    }
  }
  // (5) three-block expressions over a small subset
  {
    std::vector<std::string> s3 = {"1", "0:2", "0:2:5", "6:-2:1", "5:-3:3", "2:0:4", "3:1"};
    if (thorough) for (auto &x : std::vector<std::string>{"-3:-1", "1:3:6", "6:-1:3", "3:-1:3", "2:3:2", "-8", "20", "0:20", "-8:4:20", "20:-4:-8", "20:-6:-8", "-8:6:20", "7:7", "7:2:7", "7:-2:7",
                                                         "0:-1:-8", "-8:-2", "-2:-1:-8", "3:6:20", "20:-6:3", "1:0:1", "0:6:5", "5:-6:0", "1:2", "2:-1:1", "20:20:20", "-8:1:-8", "0:3:20", "19:20",
                                                         "20:-1:19", "1::3", "1x", ""}) s3.push_back(x);
    for (auto &x : s3) for (auto &y : s3) for (auto &z : s3) addexpr(x + "," + y + "," + z);
  }
  // (6) Add(): all valid positive-stride blocks, and pairs over a subset
  {
    std::vector<std::string> valid;
    for (long s = 1; s <= smax; s++) for (long b = lo; b <= hi; b++) for (long e = b; e <= hi; e++) valid.push_back(std::to_string(b) + "_" + std::to_string(e) + "_" + std::to_string(s));
    for (auto &v : valid) cases.push_back("add;blocks=" + v);
    for (size_t i = 0; i < valid.size(); i += 7) for (size_t j = 0; j < valid.size(); j += 11) cases.push_back("add;blocks=" + valid[i] + "/" + valid[j]);
  }
  // (7) reuse histories on one object: all ordered pairs (thorough: triples) over 8 Parse inputs, 3 Add inputs and print->Parse-into-itself
  {
    std::vector<std::string> B;
    for (auto &e : std::vector<std::string>{"3", "0:2", "0:2:5", "6:-2:1", "-3:-1", "7:7", "1,4:5", " 2 : 3 "}) B.push_back("P:" + enc(e));
    for (auto &t : std::vector<std::string>{"0_2_1", "5_9_2", "4_4_1"}) B.push_back("A:" + t);
    B.push_back("O");
    for (auto &x : B) cases.push_back("rseq;ops=" + x);
    for (auto &x : B) for (auto &y : B) {
      cases.push_back("rseq;ops=" + x + "/" + y);
      if (thorough) for (auto &z : B) cases.push_back("rseq;ops=" + x + "/" + y + "/" + z);
    }
  }
  R.rule = "RangeParser: every expression of a bounded grammar window — all single blocks 'b', 'b:e', 'b:s:e' with b,e in [" + std::to_string(lo) + "," + std::to_string(hi) +
           "], s in [" + std::to_string(-smax) + "," + std::to_string(smax) + "] (incl. zero and negative strides, empty intervals); " + std::to_string(mal.size()) +
           " malformed / unsettled spellings (empty fields and blocks, garbage, leading '+', tabs and newlines, integers beyond 32 and 64 bit, ...) alone and before/after a valid block; all two-block expressions over a " + std::to_string(sub2.size()) +
           "-block subset; the same blocks written with blanks; three-block expressions over a small subset; Add(b,e,s) for all valid positive-stride "
           "blocks and pairs of them. Oracle: strict reference parser (int | int:int | int:int:int per comma separated block after blank removal, stride != 0) "
           "+ direct enumeration; iteration under a step budget of len+32 (non-termination = failure); print->Parse round trip must give the same sequence. "
           "Reuse histories on ONE object: all ordered pairs (thorough: triples) over 8 Parse inputs, 3 Add inputs and operator<< -> Parse into the same object; after every step the "
           "enumeration must be exactly all blocks added so far in order (blocks accumulate, nothing is cleared) and a second iteration must repeat it. "
           "distinct = distinct non-empty enumerated sequences + distinct rejection classes";

  std::vector<long long> mineidx;
  for (long long i = 0; i < (long long)cases.size(); i++) if (a.mine(i)) mineidx.push_back(i);
  bsx::contained(
      0, (long long)mineidx.size(), [&](long long k) { return run_case(cases[mineidx[k]]); },
      [&](long long k, const Outcome &o) {
        const std::string &cas = cases[mineidx[k]];
        R.eval();
        R.counters[cas.rfind("rseq;", 0) == 0 ? "reuse_histories" : cas.rfind("add;", 0) == 0 ? "add_cases" : "parse_cases"]++;
        if (!o.ok) {
          if (o.key == "fatal") {
            // died (signal / alarm) inside the library: classify by the input
            std::string key = "range-crash-or-hang";
            R.fail(key, o.what + "  [" + cas + "]", cas);
          } else R.fail(o.key, o.what, cas);
          return;
        }
        if (o.extra == "rejected") R.counters["rejected"]++; else R.counters["accepted_and_equal"]++;
        if (o.cls) R.cls(o.cls);
        if (o.cls && o.extra != "rejected" && R.samples.size() < 6 && (k % 211) == 17) R.sample(cas + " -> " + o.extra);
      }, 20);
  R.assumptions = {"'malformed' = anything that is not int, int:int or int:int:int per comma separated block after removal of blanks, plus a zero stride (DESIGN §6)",
                   "an expression consisting only of blanks may be rejected or accepted as the empty range; a block whose interval is empty (5:2, 1:-1:4) may be rejected or contribute nothing",
                   "b:s:e with s<0 denotes b, b+s, ... >= e (the code's own acceptance test begin*stride <= end*stride treats it so)",
                   "a leading '+', tab/newline/CR used as blank and integers of 10..18 digits are spellings the statement does not settle: rejecting is allowed, if accepted the denoted sequence is demanded; integers of >= 20 digits must be rejected"};
  if (!R.write(a.out)) { fprintf(stderr, "cannot write %s\n", a.out.c_str()); return 2; }
  return 0;
}
