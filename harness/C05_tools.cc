// C05 (real tools) — the UNMODIFIED csg_stat (ordered mode) and csg_orientcorr (unordered mode)
// executables run under the vsched controlled scheduler via LD_PRELOAD on a tiny generated system;
// all schedules with <= k preemptions at thread create/start/exit, mutex acquire and join are
// enumerated and the written files are compared with the single-thread run: byte-identical for the
// ordered tool, equal to rounding for the unordered one.
#include <hdf5.h>
#include <sys/stat.h>

#include <fstream>
#include <sstream>

#include "bsx.h"
#include "vsched/explore.h"

static std::string BUILD, PRELOAD;

#include <dirent.h>
// every regular file the tool wrote into the working directory (inputs excluded), name -> content
static std::map<std::string, std::string> slurp_outputs();
static void remove_outputs();
static std::string slurp(const std::string &p) {
  std::ifstream f(p);
  std::stringstream ss;
  ss << f.rdbuf();
  return ss.str();
}

struct Tool {
  std::string name, exe;
  std::vector<std::string> args;      // without --nt
  std::vector<std::string> outputs;   // files to compare
  bool ordered;
  double tol = 1e-9;  // relative tolerance for unordered tools ("agree to rounding")
};
struct Cfg { int tool; int nt; std::string extra; bool ul = false; /* instants after mutex releases are scheduling points too */
             std::string trj = "trj.dump"; /* trajectory file (format) handed to the tool */ };

static std::vector<Tool> tools() {
  return {
      {"csg_stat", BUILD + "/votca/csg/src/tools/csg_stat", {"--top", "top.xml", "--trj", "trj.dump", "--options", "opt.xml"}, {"A-A.dist.new", "B-B.dist.new"}, true},
      {"csg_orientcorr", BUILD + "/votca/csg/src/csgapps/orientcorr/csg_orientcorr", {"--top", "top.xml", "--trj", "trj.dump", "--cutoff", "1.5", "--nbins", "6", "--nbmethod", "simple"},
       {"correlation.dat", "correlation_excl.dat"}, false},
      // relative-entropy update on the repository's own SPC/E reference inputs (216 CG beads), 3 perturbed frames; the
      // Newton step goes through a linear solve, so thread-dependent summation order is allowed 1e-6 relative
      {"csg_reupdate", BUILD + "/votca/csg/src/tools/csg_reupdate", {"--options", "settings_re.xml", "--top", "topol_cg.xml", "--trj", "trj_re.dump", "--hessian-check", "no"},
       {"CG-CG.param.new", "CG-CG.pot.new"}, false, 1e-6},
      // csg_stat with a mapping (--cg): every worker maps its own frames; molecules are split by the x face in some frames
      {"csg_stat-mapped", BUILD + "/votca/csg/src/tools/csg_stat", {"--top", "top.xml", "--trj", "trj_split.dump", "--options", "opt_cg.xml", "--cg", "map.xml"}, {"C-C.dist.new"}, true},
  };
}

static bool is_input(const std::string &n) {
  static const char *in[] = {"top.xml", "opt.xml", "trj.dump", "trj.gro", "static.h5", "timedep.h5", "map.xml", "opt_cg.xml", "trj_split.dump", "settings_re.xml", "topol_cg.xml", "trj_re.dump", "CG-CG.param.cur", "CG-CG.dist.new", "CG-CG.dist.tgt"};
  for (const char *i : in) if (n == i) return true;
  return n[0] == '.';
}
static std::map<std::string, std::string> slurp_outputs() {
  std::map<std::string, std::string> m;
  DIR *d = opendir(".");
  if (!d) return m;
  while (dirent *e = readdir(d)) {
    std::string n = e->d_name;
    if (is_input(n) || e->d_type == DT_DIR) continue;
    m[n] = slurp(n);
  }
  closedir(d);
  return m;
}
static void remove_outputs() {
  for (auto &kv : slurp_outputs()) unlink(kv.first.c_str());
}
static void write_inputs() {
  const int NM = 4;  // molecules of 2 beads (types A and B)
  {
    std::ofstream f("top.xml");
    f << "<topology>\n <h5md_particle_group name=\"atoms\" />\n <molecules>\n  <molecule name=\"M\" nmols=\"" << NM << "\" nbeads=\"2\">\n"
      << "   <bead name=\"A\" type=\"A\" mass=\"1.0\" q=\"0.0\" />\n   <bead name=\"B\" type=\"B\" mass=\"2.0\" q=\"0.0\" />\n"
      << "  </molecule>\n </molecules>\n"
      // a bond inside every molecule: the worker topologies must carry it (and the exclusion it implies) like the master's
      << " <bonded>\n  <bond>\n   <name>bond</name>\n   <beads>\n    M:A M:B\n   </beads>\n  </bond>\n </bonded>\n</topology>\n";
  }
  {
    std::ofstream f("opt.xml");
    for (int k = 0; k < 1; k++) {
      f << "<cg>\n";
      for (std::string t : {"A", "B"})
        f << " <non-bonded>\n  <name>" << t << "-" << t << "</name>\n  <type1>" << t << "</type1>\n  <type2>" << t
          << "</type2>\n  <min>0.0</min>\n  <max>1.2</max>\n  <step>0.1</step>\n </non-bonded>\n";
      // A-B pairs: the intramolecular pair (0.11 .. 0.16 nm; dump coordinates are in Angstrom) is excluded through the bond; and the bond distribution itself
      f << " <non-bonded>\n  <name>A-B</name>\n  <type1>A</type1>\n  <type2>B</type2>\n  <min>0.0</min>\n  <max>1.2</max>\n  <step>0.1</step>\n </non-bonded>\n";
      f << " <bonded>\n  <name>bond</name>\n  <min>0.10</min>\n  <max>0.17</max>\n  <step>0.01</step>\n </bonded>\n";
      f << "</cg>\n";
    }
  }
  {
    std::ofstream f("trj.dump");
    const int FR = 4;
    for (int fr = 0; fr < FR; fr++) {
      double L = 30.0 + fr;  // box volume differs per frame
      f << "ITEM: TIMESTEP\n" << fr << "\nITEM: NUMBER OF ATOMS\n" << 2 * NM << "\nITEM: BOX BOUNDS pp pp pp\n0 " << L << "\n0 " << L << "\n0 " << L
        << "\nITEM: ATOMS id type x y z\n";
      for (int m = 0; m < NM; m++) {
        double x = (m % 2) * 4.0 + fr * 0.7 + m * 0.3, y = (m / 2) * 5.0 + fr * 0.4, z = m * 1.5 + fr * 1.1;
        char b[256];
        snprintf(b, sizeof b, "%d 0 %.4f %.4f %.4f\n%d 1 %.4f %.4f %.4f\n", 2 * m + 1, x, y, z, 2 * m + 2, x + 1.0 + 0.1 * fr, y + 0.5, z + 0.2 * m);
        f << b;
      }
    }
  }
}

// The same frames in other trajectory formats (thread-count independence must not depend on the reader):
// gro (box per frame), H5MD with a static box (frame 0's box) and H5MD with time-dependent box edges.
static bool h5_write(const std::string &fn, int NM, int FR, bool timedep) {
  hid_t file = H5Fcreate(fn.c_str(), H5F_ACC_TRUNC, H5P_DEFAULT, H5P_DEFAULT);
  if (file < 0) return false;
  auto attr_int = [&](hid_t loc, const char *name, const int *v, hsize_t n) {
    hid_t sp = H5Screate_simple(1, &n, nullptr);
    hid_t at = H5Acreate2(loc, name, H5T_NATIVE_INT, sp, H5P_DEFAULT, H5P_DEFAULT);
    H5Awrite(at, H5T_NATIVE_INT, v);
    H5Aclose(at); H5Sclose(sp);
  };
  hid_t g = H5Gcreate2(file, "h5md", H5P_DEFAULT, H5P_DEFAULT, H5P_DEFAULT);
  int version[2] = {1, 0};
  attr_int(g, "version", version, 2);
  H5Gclose(g);
  hid_t gp = H5Gcreate2(file, "particles", H5P_DEFAULT, H5P_DEFAULT, H5P_DEFAULT);
  hid_t ga = H5Gcreate2(gp, "atoms", H5P_DEFAULT, H5P_DEFAULT, H5P_DEFAULT);
  hid_t gb = H5Gcreate2(ga, "box", H5P_DEFAULT, H5P_DEFAULT, H5P_DEFAULT);
  int dim = 3;
  attr_int(gb, "dimension", &dim, 1);
  auto dset = [&](hid_t loc, const char *name, int rank, const hsize_t *dims, const double *data) {
    hid_t sp = H5Screate_simple(rank, dims, nullptr);
    hid_t ds = H5Dcreate2(loc, name, H5T_NATIVE_DOUBLE, sp, H5P_DEFAULT, H5P_DEFAULT, H5P_DEFAULT);
    herr_t rc = H5Dwrite(ds, H5T_NATIVE_DOUBLE, H5S_ALL, H5S_ALL, H5P_DEFAULT, data);
    H5Dclose(ds); H5Sclose(sp);
    return rc >= 0;
  };
  bool ok = true;
  if (timedep) {
    std::vector<double> e;
    for (int fr = 0; fr < FR; fr++) for (int k = 0; k < 3; k++) e.push_back(3.0 + 0.1 * fr);
    hid_t ge = H5Gcreate2(gb, "edges", H5P_DEFAULT, H5P_DEFAULT, H5P_DEFAULT);
    hsize_t d[2] = {(hsize_t)FR, 3};
    ok = ok && dset(ge, "value", 2, d, e.data());
    H5Gclose(ge);
  } else {
    double e[3] = {3.0, 3.0, 3.0};
    hsize_t d[1] = {3};
    ok = ok && dset(gb, "edges", 1, d, e);
  }
  H5Gclose(gb);
  std::vector<double> pos;
  for (int fr = 0; fr < FR; fr++)
    for (int m = 0; m < NM; m++) {
      double x = (m % 2) * 4.0 + fr * 0.7 + m * 0.3, y = (m / 2) * 5.0 + fr * 0.4, z = m * 1.5 + fr * 1.1;
      double p[6] = {x, y, z, x + 1.0 + 0.1 * fr, y + 0.5, z + 0.2 * m};
      for (double v : p) pos.push_back(v / 10.0);  // nm
    }
  hid_t gq = H5Gcreate2(ga, "position", H5P_DEFAULT, H5P_DEFAULT, H5P_DEFAULT);
  hsize_t d3[3] = {(hsize_t)FR, (hsize_t)(2 * NM), 3};
  ok = ok && dset(gq, "value", 3, d3, pos.data());
  H5Gclose(gq); H5Gclose(ga); H5Gclose(gp);
  H5Fclose(file);
  return ok;
}
static bool write_other_formats() {
  const int NM = 4, FR = 4;
  {
    std::ofstream f("trj.gro");
    for (int fr = 0; fr < FR; fr++) {
      f << "frame t= " << fr << ".0\n" << 2 * NM << "\n";
      for (int m = 0; m < NM; m++) {
        double x = (m % 2) * 4.0 + fr * 0.7 + m * 0.3, y = (m / 2) * 5.0 + fr * 0.4, z = m * 1.5 + fr * 1.1;
        char b[256];
        snprintf(b, sizeof b, "%5d%-5s%5s%5d%8.3f%8.3f%8.3f\n%5d%-5s%5s%5d%8.3f%8.3f%8.3f\n", m + 1, "M", "A", 2 * m + 1, x / 10, y / 10, z / 10, m + 1, "M", "B",
                 2 * m + 2, (x + 1.0 + 0.1 * fr) / 10, (y + 0.5) / 10, (z + 0.2 * m) / 10);
        f << b;
      }
      char b[128];
      double L = 3.0 + 0.1 * fr;
      snprintf(b, sizeof b, "%10.5f%10.5f%10.5f\n", L, L, L);
      f << b;
    }
  }
  {
    std::ofstream f("map.xml");
    f << "<cg_molecule>\n <name>MCG</name>\n <ident>M</ident>\n <topology>\n  <cg_beads>\n   <cg_bead>\n    <name>C</name>\n    <type>CG</type>\n    <mapping>com</mapping>\n"
         "    <beads>1:M:A 1:M:B</beads>\n   </cg_bead>\n  </cg_beads>\n </topology>\n <maps>\n  <map>\n   <name>com</name>\n   <weights>1 2</weights>\n  </map>\n </maps>\n</cg_molecule>\n";
  }
  {
    std::ofstream f("opt_cg.xml");
    f << "<cg>\n <non-bonded>\n  <name>C-C</name>\n  <type1>CG</type1>\n  <type2>CG</type2>\n  <min>0.0</min>\n  <max>1.2</max>\n  <step>0.1</step>\n </non-bonded>\n</cg>\n";
  }
  {
    // as trj.dump, but bead B sits 1.0+0.1*frame below A in x and is wrapped into the box: molecules 0 and 2 are split by the x face
    // in the first frames (also in the second frame, which a worker other than the first one maps)
    std::ofstream f("trj_split.dump");
    for (int fr = 0; fr < FR; fr++) {
      double L = 30.0 + fr;
      f << "ITEM: TIMESTEP\n" << fr << "\nITEM: NUMBER OF ATOMS\n" << 2 * NM << "\nITEM: BOX BOUNDS pp pp pp\n0 " << L << "\n0 " << L << "\n0 " << L
        << "\nITEM: ATOMS id type x y z\n";
      for (int m = 0; m < NM; m++) {
        double x = (m % 2) * 4.0 + fr * 0.7 + m * 0.3 + 0.2, y = (m / 2) * 5.0 + fr * 0.4 + 0.3, z = m * 1.5 + fr * 1.1 + 0.4;
        double bx = x - (1.0 + 0.1 * fr);
        if (bx < 0) bx += L;
        char b[256];
        snprintf(b, sizeof b, "%d 0 %.4f %.4f %.4f\n%d 1 %.4f %.4f %.4f\n", 2 * m + 1, x, y, z, 2 * m + 2, bx, y + 0.5, z + 0.2 * m);
        f << b;
      }
    }
  }
  return h5_write("static.h5", NM, FR, false) && h5_write("timedep.h5", NM, FR, true);
}

static void copy_file(const std::string &from, const std::string &to) {
  std::ifstream i(from, std::ios::binary);
  std::ofstream o(to, std::ios::binary);
  o << i.rdbuf();
}
// csg_reupdate: the repository's SPC/E reference inputs and a 3-frame trajectory made of the reference frame with
// small deterministic per-frame displacements (so that a dropped or doubled frame changes the result)
static bool write_reupdate_inputs() {
  const char *r = getenv("VERIF_REPO");
  std::string ref = std::string(r ? r : "/repo") + "/csg/src/tools/references/spce/";
  copy_file(ref + "settings_re.xml", "settings_re.xml");
  copy_file(ref + "topol_cg.xml", "topol_cg.xml");
  copy_file(ref + "CG-CG.param.in_re", "CG-CG.param.cur");
  copy_file(ref + "CG-CG.rdf", "CG-CG.dist.new");
  copy_file(ref + "CG-CG.imc.tgt", "CG-CG.dist.tgt");
  std::ifstream in(ref + "frame_cg.dump");
  if (!in) return false;
  std::vector<std::string> lines;
  std::string l;
  while (std::getline(in, l)) lines.push_back(l);
  std::ofstream out("trj_re.dump");
  for (int fr = 0; fr < 3; fr++)
    for (size_t i = 0; i < lines.size(); i++) {
      if (i == 1) { out << fr << "\n"; continue; }
      std::istringstream is(lines[i]);
      std::vector<std::string> t;
      std::string w;
      while (is >> w) t.push_back(w);
      if (i >= 9 && t.size() >= 5) {
        char b[256];
        snprintf(b, sizeof b, "%s %s %.6f %.6f %s", t[0].c_str(), t[1].c_str(), atof(t[2].c_str()) + 0.013 * fr * (double(i % 7) - 3),
                 atof(t[3].c_str()) + 0.011 * fr * (double(i % 5) - 2), t[4].c_str());
        out << b << "\n";
      } else out << lines[i] << "\n";
    }
  return true;
}

static std::vector<std::string> split_ws(const std::string &s) {
  std::vector<std::string> v;
  std::istringstream is(s);
  std::string t;
  while (is >> t) v.push_back(t);
  return v;
}

static void run_tool(const Tool &t, int nt, const std::string &extra, bool preload, const std::string &shmpath, const std::vector<int> &choices, int horizon, bool ul = false,
                     const std::string &trj = "trj.dump") {
  std::vector<std::string> av{t.exe};
  for (auto &a : t.args) av.push_back(a == "trj.dump" ? trj : a);
  av.push_back("--nt");
  av.push_back(std::to_string(nt));
  for (auto &a : split_ws(extra)) av.push_back(a);
  std::vector<char *> argv;
  for (auto &s : av) argv.push_back(const_cast<char *>(s.c_str()));
  argv.push_back(nullptr);
  if (!freopen("/dev/null", "w", stdout)) {}
  if (!freopen("/dev/null", "w", stderr)) {}
  if (preload) {
    setenv("VS_SHM", shmpath.c_str(), 1);
    setenv("VS_CHOICES", vsx::sched_str(choices).c_str(), 1);
    setenv("VS_HORIZON", std::to_string(horizon).c_str(), 1);
    setenv("LD_PRELOAD", PRELOAD.c_str(), 1);
    if (ul) setenv("VS_UNLOCK_POINTS", "1", 1); else unsetenv("VS_UNLOCK_POINTS");
  }
  setenv("OMP_NUM_THREADS", "1", 1);
  execv(argv[0], argv.data());
  _exit(127);
}

// numeric comparison to rounding (unordered mode): same shape, |a-b| <= 1e-9 * max(1,|a|)
static bool close_tables(const std::string &a, const std::string &b, double tol = 1e-9) {
  std::vector<std::string> ta = split_ws(a), tb = split_ws(b);
  if (ta.size() != tb.size()) return false;
  for (size_t i = 0; i < ta.size(); i++) {
    if (ta[i] == tb[i]) continue;
    char *e1, *e2;
    double x = strtod(ta[i].c_str(), &e1), y = strtod(tb[i].c_str(), &e2);
    if (*e1 || *e2) return false;
    if (std::isnan(x) && std::isnan(y)) continue;
    if (!(std::fabs(x - y) <= tol * std::max(1.0, std::fabs(x)))) return false;
  }
  return true;
}

struct Verdict { bool ok = true; std::string key, what, obs; };

int main(int argc, char **argv) {
  bsx::Args a = bsx::parse(argc, argv);
  const char *b = getenv("VERIF_BUILD");
  BUILD = b ? b : "/verif/build";
  PRELOAD = BUILD + "/harness/libvsched_preload.so";
  int horizon = 3000;
  char tmpl[] = "/dev/shm/verif_c05t_XXXXXX";
  std::string shmdir = mkdtemp(tmpl) ? tmpl : ".";
  std::string shmpath = shmdir + "/ctl.bin";
  write_inputs();
  if (!write_other_formats()) { fprintf(stderr, "MACHINERY-ERROR cannot write the gro/H5MD trajectories\n"); return 2; }
  if (!write_reupdate_inputs()) { fprintf(stderr, "MACHINERY-ERROR cannot read the spce reference inputs for csg_reupdate\n"); return 2; }
  std::vector<Tool> T = tools();
  vsx::Explorer ex(shmpath);
  if (!ex.shm) { fprintf(stderr, "cannot map control block\n"); return 2; }
  ex.horizon = horizon;
  ex.child_timeout_s = 60;
  std::map<std::string, std::map<std::string, std::string>> refs;  // per (tool, extra): all files written by nt=1 without the scheduler
  auto reference = [&](const Cfg &c) -> std::map<std::string, std::string> & {
    std::string k = std::to_string(c.tool) + "|" + c.extra + "|" + c.trj;
    auto it = refs.find(k);
    if (it != refs.end()) return it->second;
    remove_outputs();
    ex.body = [&](vs_shared *, const std::vector<int> &) { run_tool(T[c.tool], 1, c.extra, false, "", {}, 0, false, c.trj); };
    ex.run({});
    refs[k] = slurp_outputs();
    remove_outputs();
    return refs[k];
  };
  auto judge = [&](const Cfg &c, const vsx::Exec &x) {
    Verdict v;
    const Tool &t = T[c.tool];
    std::string mode = t.name;
    auto bad = [&](const std::string &k, const std::string &w) { if (v.ok) { v.ok = false; v.key = k; v.what = w; } };
    if (x.verdict == VS_DIVERGED || x.verdict == VS_INTERNAL) { bad("MACHINERY", x.message); return v; }
    if (x.verdict == VS_DEADLOCK) { bad(mode + "-deadlock", x.message); return v; }
    if (x.verdict == VS_HORIZON) { bad(mode + "-livelock", "step horizon exceeded"); return v; }
    if (x.crashed || x.verdict != VS_COMPLETED) { bad(mode + "-crash", "exit status " + std::to_string(x.status) + " verdict " + std::to_string(x.verdict)); return v; }
    std::map<std::string, std::string> &ref = reference(c);
    std::map<std::string, std::string> got = slurp_outputs();
    if (ref.empty()) { bad("MACHINERY", "the single-thread reference run wrote no output file"); return v; }
    for (auto &kv : ref) {
      if (!got.count(kv.first)) { bad(mode + "-output-file-missing", kv.first + " is written by the single-thread run but not by this one"); continue; }
      const std::string &g = got[kv.first];
      if (t.ordered ? g != kv.second : !close_tables(g, kv.second, t.tol))
        bad(mode + (t.ordered ? "-output-not-byte-identical" : "-output-differs-beyond-rounding"),
            kv.first + " differs from the single-thread run (" + std::to_string(g.size()) + " vs " + std::to_string(kv.second.size()) + " bytes)");
      v.obs += std::to_string(bsx::fnv(g) % 100000) + " ";
    }
    for (auto &kv : got)
      if (!ref.count(kv.first)) bad(mode + "-extra-output-file", kv.first + " is not written by the single-thread run");
    return v;
  };
  auto parsecfg = [&](std::map<std::string, std::string> &m) { return Cfg{atoi(m["tool"].c_str()), atoi(m["nt"].c_str()), m["extra"], m["ul"] == "1", m.count("trj") ? m["trj"] : std::string("trj.dump")}; };
  auto cfgstr = [&](const Cfg &c) { return "tool=" + std::to_string(c.tool) + ";nt=" + std::to_string(c.nt) + ";extra=" + c.extra + (c.ul ? ";ul=1" : "") + (c.trj != "trj.dump" ? ";trj=" + c.trj : ""); };
  auto runner = [&](const Cfg &c) {
    ex.body = [&, c](vs_shared *, const std::vector<int> &ch) { run_tool(T[c.tool], c.nt, c.extra, true, shmpath, ch, horizon, c.ul, c.trj); };
  };
  auto cleanup = [&]() { std::string cmd = "rm -rf '" + shmdir + "'"; if (shmdir != "." && system(cmd.c_str())) {} };

  if (a.has_case) {
    auto m = bsx::kvs(a.cas);
    Cfg c = parsecfg(m);
    std::vector<int> sched = vsx::parse_sched(m["sched"]);
    reference(c);
    runner(c);
    remove_outputs();
    vsx::Exec x1 = ex.run(sched);
    Verdict v1 = judge(c, x1);
    std::string t1 = vsx::trace_str(ex.shm);
    remove_outputs();
    vsx::Exec x2 = ex.run(sched);
    Verdict v2 = judge(c, x2);
    std::string t2 = vsx::trace_str(ex.shm);
    cleanup();
    if (t1 != t2 || v1.ok != v2.ok || v1.key != v2.key) { printf("MACHINERY: replay not deterministic\n%s\n%s\n", t1.c_str(), t2.c_str()); return 2; }
    if (v1.key == "MACHINERY") { printf("MACHINERY: %s\n", v1.what.c_str()); return 2; }
    printf("schedule trace: %s\n", t1.c_str());
    if (v1.ok) { printf("case holds\n"); return 0; }
    printf("case FAILS: key=%s %s\n", v1.key.c_str(), v1.what.c_str());
    return 3;
  }
  bsx::Report R;
  R.property = "C05"; R.part = "tools"; R.tier = a.tier;
  bool thorough = a.tier == "thorough";
  R.deadline_s = thorough ? 500 : 40;
  std::vector<Cfg> cfgs;
  for (int tool = 0; tool < 3; tool++)
    for (int nt : {2, 3})
      for (std::string extra : {"", "--nframes 2", "--first-frame 2", "--first-frame 2 --nframes 2", "--nframes 1", "--block-length 2", "--block-length 1 --nframes 3"}) {
        // (--begin is exercised by the ring part only: the lammps dump reader used here does not set a frame time)
        if (extra.find("block-length") != std::string::npos && tool != 0) continue;  // block output is a csg_stat feature
        if (tool == 2 && !thorough && extra != "" && extra != "--nframes 2") continue;    // csg_reupdate runs are ~10x dearer
        if (!thorough && nt == 3 && extra != "" && extra != "--nframes 2" && extra != "--block-length 2") continue;
        cfgs.push_back({tool, nt, extra});
      }
  if (thorough) for (int tool = 0; tool < 3; tool++) cfgs.push_back({tool, 4, ""});
  // other trajectory readers: csg_stat on the same frames as gro, H5MD with a static box and H5MD with time-dependent box edges
  // (every worker has its own topology; what a reader sets up once, e.g. a static box, must reach all of them)
  for (std::string trj : {"trj.gro", "static.h5", "timedep.h5"})
    for (int nt : {2, 3})
      for (std::string extra : {"", "--first-frame 2 --nframes 2", "--block-length 2"}) {
        if (!thorough && (nt == 3 || extra == "--first-frame 2 --nframes 2")) continue;
        Cfg c{0, nt, extra, false};
        c.trj = trj;
        cfgs.push_back(c);
      }
  // csg_stat with a mapping
  for (int nt : {2, 3})
    for (std::string extra : {"", "--first-frame 2 --nframes 2"}) {
      if (!thorough && (nt == 3 || extra != "")) continue;
      cfgs.push_back({3, nt, extra, false});
    }
  // the instant after every mutex release as an additional scheduling point (bound 1): shows the consequences of an access moved
  // out of a critical section directly, without waiting for the race detector
  for (int tool = 0; tool < 2; tool++)
    for (std::string extra : {"--nframes 2", ""}) {
      if (!thorough && (tool != 0 || extra == "")) continue;
      cfgs.push_back({tool, 2, extra, true});
    }
  R.rule = "the unmodified csg_stat (ordered) and csg_orientcorr (unordered) executables under LD_PRELOAD=libvsched_preload.so on a generated 4-molecule, "
           "4-frame system (box volume differs per frame): all schedules with <= k preemptions (k=1 quick, 2 thorough; scheduling points at thread create/start/exit, "
           "mutex acquire, join; for nt=2 also with the instant after every mutex release at k=1) for nt in {2,3,(4)} x frame selections, csg_stat also with a mapping (--cg, molecules split by a box face) and on the same frames as gro / H5MD (static box) / H5MD (time-dependent box) trajectories; oracle: no deadlock/livelock/crash and output files byte-identical (ordered) / equal to 1e-9 "
           "relative (unordered) to the single-thread run. distinct_nontrivial = distinct (config, schedule trace) pairs";
  long long unit = 0, schedules = 0, points = 0;
  // Iterated bounds: pass 0 explores EVERY configuration at bound 1; pass 1 re-explores those with a bound >= 2 at their full
  // bound, each within an equal share of the remaining time.
  auto bound_for = [&](const Cfg &c) { return thorough && !c.ul && c.trj == "trj.dump" ? (c.nt <= 2 ? 2 : 1) : 1; };
  long long completed[3] = {0, 0, 0}, capped_above_1 = 0;
  for (int pass = 0; pass < 2; pass++) {
    std::vector<const Cfg *> todo;
    for (const Cfg &c : cfgs) if (pass == 0 || bound_for(c) >= 2) todo.push_back(&c);
    for (size_t ci = 0; ci < todo.size(); ci++) {
      const Cfg &c = *todo[ci];
      if (R.out_of_time()) { R.cap("time budget reached before " + cfgstr(c) + " (pass " + std::to_string(pass) + ")"); break; }
      reference(c);
      runner(c);
      int bound = pass == 0 ? 1 : bound_for(c);
      double slice_end = R.elapsed() + (R.deadline_s - R.elapsed()) / double(todo.size() - ci) * (pass == 0 ? 2.0 : 1.0);
      bool cut = false;
      auto on_exec = [&](const vsx::Exec &x) -> bool {
        schedules++; points += x.npoints(); R.eval();
        Verdict v = judge(c, x);
        std::string cas = cfgstr(c) + ";sched=" + vsx::sched_str(x.choices);
        if (!v.ok) {
          if (v.key == "MACHINERY") { fprintf(stderr, "MACHINERY-ERROR %s [%s]\n", v.what.c_str(), cas.c_str()); cleanup(); exit(2); }
          R.fail(v.key, v.what + "  [" + cas + "]", cas);
        } else {
          R.cls(cfgstr(c) + "|" + vsx::trace_str(x.shm));
          if (R.samples.size() < R.max_samples && schedules % 41 == 1) R.sample(cas + " => outputs equal to the single-thread run; trace " + vsx::trace_str(x.shm, 40));
        }
        remove_outputs();
        if (R.out_of_time() || R.elapsed() > slice_end) {
          R.cap("time share used up while exploring " + cfgstr(c) + " at bound " + std::to_string(bound) + (pass ? " (bound 1 completed)" : ""));
          cut = true;
          return false;
        }
        return true;
      };
      remove_outputs();
      vsx::Exec root = ex.run({});
      std::vector<vsx::Explorer::Branch> br = ex.branches(root, bound);
      remove_outputs();
      long long base = unit;
      unit += 1 + (long long)br.size();  // the same numbering in every shard, whatever is cut short
      if (a.mine(base)) { vsx::Exec r2 = ex.run({}); on_exec(r2); }
      for (size_t bi = 0; bi < br.size() && !cut; bi++) {
        if (!a.mine(base + 1 + (long long)bi)) continue;
        ex.dfs(br[bi].prefix, br[bi].cost, bound, on_exec);
      }
      if (!cut) completed[std::min(bound, 2)]++; else if (pass) capped_above_1++;
    }
  }
  for (int b = 0; b < 3; b++) if (completed[b]) R.counters["configs_completed_at_bound_" + std::to_string(b)] = completed[b];
  if (capped_above_1) R.counters["configs_capped_above_bound_1"] = capped_above_1;
  cleanup();
  R.states = points; R.transitions = points; R.traces = schedules;
  R.counters["schedules"] = schedules;
  R.counters["scheduling_points"] = points;
  R.assumptions = {"real tools have no harness yields: switches happen only at synchronisation operations (sufficient for data-race-free code)"};
  if (!R.write(a.out)) return 2;
  return 0;
}
