// C17: checkpoint.cc includes the xtp config header through this path; xtp is not configured by cmake here.
#pragma once
#define VOTCA_XTP_VERIF_STANDALONE 1
