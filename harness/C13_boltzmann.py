#!/usr/bin/env python3
"""C13 (executable part) — the `hist` and `tab` commands of the interactive csg_boltzmann executable.

The built csg_boltzmann is run (--no-map) on a generated xml topology with bonds, angles and dihedrals of
a 5-bead chain plus a 1-3 frame gro trajectory; commands are fed through stdin.  One process = one
session: a sequence of steps, each setting the `hist` options and (different) `tab` options by the
documented `set` commands (only the options that changed since the previous step are sent, so the state
kept between commands is exercised) and writing one histogram and one tabulated potential.

Space: ALL combinations of n x range mode (auto | fixed | extend over a set of ranges placed relative to
the data: data range, inside, values outside on both sides, all data several periods below min / above
max, data exactly on edges / centres, absolute ranges per kind) x periodic x normalize x scale
(no|bond|angle), for every selection (bonds, angles, dihedrals, two selection arguments, one single
interaction) of every data set (mixed-sign, all-negative, all-positive dihedrals ...).

Oracle = C13 statement, recomputed in Python from the interaction values which are themselves recomputed
from the gro coordinates (and cross-checked against the `vals` command): grid points min + k*step with
step = (max-min)/(n-1); auto range = exactly the data range; nearest-centre counting; discard outside /
wrap modulo the range length (first and last grid point are the same point in periodic mode, they carry
the sum); normalisation to unit integral without changing ratios; bond (1/r^2) and angle (1/sin) volume
scaling as the help text documents; for `tab`: U_i - U_j = -kT ln(p_i/p_j) on populated bins, an empty
bin is never below a populated one, force column = -dU/dx (any of central/forward/backward difference).
Unspecified conventions are allowed sets: a value within 1e-6 steps of a bin edge may go to either
neighbour, bins whose scaling is singular (r=0, sin=0) and the merged end points under scaling are free.
"""
import itertools, math, os, subprocess, sys
sys.path.insert(0, os.path.join(os.environ.get("VERIF_ROOT", "/verif"), "lib"))
import pybsx

BOX = 20.0
R_KJ = 0.0083144626          # kJ/(mol K)
TIE = 1e-6                   # in units of the step
PRT = 2e-5                   # relative tolerance for numbers printed with 6 significant digits

# ---------------------------------------------------------------------------------- geometry
def sub(a, b): return (a[0] - b[0], a[1] - b[1], a[2] - b[2])
def add(a, b): return (a[0] + b[0], a[1] + b[1], a[2] + b[2])
def mul(a, s): return (a[0] * s, a[1] * s, a[2] * s)
def dot(a, b): return a[0] * b[0] + a[1] * b[1] + a[2] * b[2]
def cross(a, b): return (a[1] * b[2] - a[2] * b[1], a[2] * b[0] - a[0] * b[2], a[0] * b[1] - a[1] * b[0])
def unit(a):
    n = math.sqrt(dot(a, a))
    return mul(a, 1.0 / n)


def g_bond(p, i, j):
    d = sub(p[j], p[i])
    return math.sqrt(dot(d, d))


def g_angle(p, i, j, k):
    v1, v2 = sub(p[i], p[j]), sub(p[k], p[j])
    return math.acos(max(-1.0, min(1.0, dot(v1, v2) / math.sqrt(dot(v1, v1) * dot(v2, v2)))))


def g_dih(p, i, j, k, l):
    v1, v2, v3 = sub(p[j], p[i]), sub(p[k], p[j]), sub(p[l], p[k])
    n1, n2 = cross(v1, v2), cross(v2, v3)
    s = -1.0 if dot(v1, n2) < 0 else 1.0
    return s * math.acos(max(-1.0, min(1.0, dot(n1, n2) / math.sqrt(dot(n1, n1) * dot(n2, n2)))))


def place(ls, ts, ps):
    """chain of 5 beads from 4 bond lengths, 3 angles, 2 dihedrals (degrees); coordinates as printed in gro"""
    p = [(0.0, 0.0, 0.0), (ls[0], 0.0, 0.0)]
    t = math.radians(ts[0])
    p.append(add(p[1], (-ls[1] * math.cos(t), ls[1] * math.sin(t), 0.0)))
    for m in range(2):
        a, b, c = p[m], p[m + 1], p[m + 2]
        l, t, ph = ls[m + 2], math.radians(ts[m + 1]), math.radians(ps[m])
        bc = unit(sub(c, b))
        nrm = unit(cross(sub(b, a), bc))
        mvec = cross(nrm, bc)
        d = (-l * math.cos(t), l * math.sin(t) * math.cos(ph), l * math.sin(t) * math.sin(ph))
        p.append(add(c, add(add(mul(bc, d[0]), mul(mvec, d[1])), mul(nrm, d[2]))))
    return [tuple(float("%8.3f" % (x + BOX / 2)) for x in q) for q in p]


# data sets: frames of (bond lengths nm, angles deg, dihedrals deg)
DATASETS = [
    ("mixed-sign-1frame", [((0.10, 0.15, 0.20, 0.30), (60, 90, 150), (40, -120))]),
    ("all-negative-dihedrals-2frames", [((0.12, 0.12, 0.25, 0.31), (100, 110, 120), (-30, -100)),
                                        ((0.14, 0.11, 0.22, 0.35), (95, 130, 70), (-170, -60))]),
    ("all-positive-dihedrals-3frames", [((0.20, 0.21, 0.22, 0.40), (170, 45, 90), (10, 80)),
                                        ((0.25, 0.20, 0.24, 0.10), (175, 50, 100), (160, 120)),
                                        ((0.30, 0.26, 0.21, 0.15), (120, 30, 110), (90, 45))]),
    ("dihedrals-near-pi-2frames", [((0.15, 0.16, 0.17, 0.18), (90, 91, 92), (178, -178)),
                                   ((0.15, 0.18, 0.16, 0.17), (89, 120, 60), (-5, 175))]),
]
DATASETS_THOROUGH = [
    ("equal-bonds-3frames", [((0.10, 0.20, 0.30, 0.40), (90, 90, 90), (90, -90)),
                             ((0.10, 0.20, 0.30, 0.40), (60, 120, 90), (-90, -90)),
                             ((0.20, 0.20, 0.30, 0.50), (90, 60, 120), (0.5, -0.5))]),
    ("stretched-2frames", [((0.05, 0.50, 0.07, 0.90), (20, 160, 90), (-45, -135)),
                           ((0.06, 0.45, 0.08, 0.80), (25, 155, 100), (-50, -140))]),
]
NAMES = ["a0", "a1", "a2", "b0", "b1", "b2", "b3", "d0", "d1"]     # order of the `vals *` columns (sorted names)

# selections: (label, arguments on the command line, interactions selected, kind used for absolute ranges)
SELECTIONS = [
    ("bonds", ["*:b:*"], ["b0", "b1", "b2", "b3"], "bond"),
    ("angles", ["*:a:*"], ["a0", "a1", "a2"], "angle"),
    ("dihedrals", ["*:d:*"], ["d0", "d1"], "dihedral"),
    ("bonds+angles", ["*:b:*", "*:a:*"], ["b0", "b1", "b2", "b3", "a0", "a1", "a2"], "angle"),
    ("bond-1-only", ["*:b:*1"], ["b1"], "bond"),
]
SELECTIONS_THOROUGH = [
    ("dihedrals+angle-2", ["*:d:*", "*:a:*2"], ["d0", "d1", "a2"], "dihedral"),
    ("three-arguments", ["*:a:*0", "*:d:*1", "*:b:*3"], ["a0", "d1", "b3"], "dihedral"),
]


def frame_values(p):
    v = {}
    for i in range(4):
        v["b%d" % i] = g_bond(p, i, i + 1)
    for i in range(3):
        v["a%d" % i] = g_angle(p, i, i + 1, i + 2)
    for i in range(2):
        v["d%d" % i] = g_dih(p, i, i + 1, i + 2, i + 3)
    return v


def write_inputs(frames):
    with open("top.xml", "w") as f:
        f.write('<topology>\n <molecules>\n  <molecule name="M" nmols="1" nbeads="5">\n')
        for i in range(5):
            f.write('   <bead name="A%d" type="A" mass="1" q="0" />\n' % (i + 1))
        f.write('  </molecule>\n </molecules>\n <bonded>\n')
        f.write('  <bond><name>b</name><beads>M:A1 M:A2 M:A2 M:A3 M:A3 M:A4 M:A4 M:A5</beads></bond>\n')
        f.write('  <angle><name>a</name><beads>M:A1 M:A2 M:A3 M:A2 M:A3 M:A4 M:A3 M:A4 M:A5</beads></angle>\n')
        f.write('  <dihedral><name>d</name><beads>M:A1 M:A2 M:A3 M:A4 M:A2 M:A3 M:A4 M:A5</beads></dihedral>\n')
        f.write(' </bonded>\n</topology>\n')
    with open("conf.gro", "w") as f:
        for fr, p in enumerate(frames):
            f.write("chain t= %d.0\n%5d\n" % (fr, 5))
            for i, (x, y, z) in enumerate(p):
                f.write("%5d%-5s%5s%5d%8.3f%8.3f%8.3f\n" % (1, "M", "A%d" % (i + 1), i + 1, x, y, z))
            f.write("%10.5f%10.5f%10.5f\n" % (BOX, BOX, BOX))


# ---------------------------------------------------------------------------------- option alphabet
class Opt:
    __slots__ = ("n", "mode", "rname", "lo", "hi", "periodic", "normalize", "scale")

    def __init__(self, n, mode, rname, lo, hi, periodic, normalize, scale):
        self.n, self.mode, self.rname, self.lo, self.hi = n, mode, rname, lo, hi
        self.periodic, self.normalize, self.scale = periodic, normalize, scale

    def settings(self):
        return [("n", str(self.n)), ("auto", "1" if self.mode == "auto" else "0"), ("extend", "1" if self.mode == "extend" else "0"),
                ("min", repr(self.lo)), ("max", repr(self.hi)), ("periodic", str(self.periodic)),
                ("normalize", str(self.normalize)), ("scale", self.scale)]

    def __repr__(self):
        return "n=%d %s[%s %.17g,%.17g] periodic=%d normalize=%d scale=%s" % (self.n, self.mode, self.rname, self.lo, self.hi,
                                                                              self.periodic, self.normalize, self.scale)


def distinct(vals):
    """sorted values that differ by more than 1e-6 of the data span (ulp-different duplicates are one value)"""
    sv = sorted(vals)
    out = [sv[0]]
    for v in sv[1:]:
        if v - out[-1] > 1e-6 * max(sv[-1] - sv[0], 1e-300):
            out.append(v)
    return out


def ranges(vals, n, kind, thorough):
    dmin, dmax = min(vals), max(vals)
    s = dmax - dmin
    dv = distinct(vals)
    h = s / (n - 1)
    out = [("data-range", dmin, dmax),
           ("inside-margins", dmin - s / 3, dmax + s / 2),
           ("outside-both-sides", dmin + s / 4, dmax - s / 4),
           ("all-data-periods-below-min", dmax + 0.13 * s, dmax + 0.13 * s + s / 2.5),
           ("all-data-periods-above-max", dmin - 0.9 * s, dmin - 0.37 * s),
           ("data-on-outer-edges", dmin - h / 2, dmin - h / 2 + (n - 1) * h),
           ("two-values-on-centres", dv[0], dv[0] + (dv[1] - dv[0]) * (n - 1))]
    if kind == "bond":
        out.append(("abs-0-0.3", 0.0, 0.3))
    elif kind == "angle":
        out.append(("abs-0-pi", 0.0, math.pi))
    else:
        out.append(("abs-mpi-pi", -math.pi, math.pi))
        out.append(("abs-0-2pi", 0.0, 2 * math.pi))
    if thorough:
        out.append(("one-value-on-inner-edge", dv[1] - 1.5 * h, dv[1] - 1.5 * h + (n - 1) * h))
        out.append(("negative-range-far-below", -3.0 - s, -3.0))
    return out


def combos(vals, kind, thorough):
    out = []
    for n in ([2, 3, 5, 6] + ([4, 11, 101] if thorough else [])):
        rs = ranges(vals, n, kind, thorough)
        modes = [("fixed", r) for r in rs] + [("auto", rs[3])] + [("extend", r) for r in rs]
        for mode, (rname, lo, hi) in modes:
            for periodic in (0, 1):
                for normalize in (1, 0):
                    for scale in ("no", "bond", "angle"):
                        out.append(Opt(n, mode, rname, lo, hi, periodic, normalize, scale))
    return out


# ---------------------------------------------------------------------------------- reference model
def resolve_range(vals, o):
    dmin, dmax = min(vals), max(vals)
    if o.mode == "auto":
        return dmin, dmax
    if o.mode == "extend":
        return min(o.lo, dmin), max(o.hi, dmax)
    return o.lo, o.hi


def binning(vals, lo, hi, n, periodic, period):
    """-> (counts of unambiguous values, list of candidate-bin tuples for tie values, any value outside);
    a candidate None = discarded. period: number of steps the wrap uses (n-1 = the range length)."""
    step = (hi - lo) / (n - 1)
    fixed, ties, outside = [0.0] * n, [], False
    for v in vals:
        q = (v - lo) / step + 0.5
        fl = math.floor(q)
        cand = [fl]
        if q - fl < TIE:
            cand.append(fl - 1)
        if 1 - (q - fl) < TIE:
            cand.append(fl + 1)
        bins = []
        for c in cand:
            c = int(c)
            if 0 <= c < n:
                b = c
            else:
                if c == int(fl):
                    outside = True
                b = (c % period) if periodic else None
            if b not in bins:
                bins.append(b)
        if len(bins) == 1:
            if bins[0] is not None:
                fixed[bins[0]] += 1.0
        else:
            ties.append(tuple(bins))
    return fixed, ties, outside


def shape(counts, lo, hi, o):
    """raw counts -> expected bin contents before normalisation, set of free bins, may contents be negative?"""
    n = o.n
    step = (hi - lo) / (n - 1)
    p, free, signed = list(counts), set(), False
    for i in range(n):
        x = lo + step * i
        if o.scale == "bond":
            if abs(x) < 1e-9:
                free.add(i)
            else:
                p[i] = p[i] / (x * x)
        elif o.scale == "angle":
            sa = math.sin(x)
            if sa < -1e-6:
                signed = True          # 1/sin on a grid with negative sines: contents (and their sum) may be negative
            if abs(sa) < 1e-4:
                free.add(i)
            else:
                p[i] = p[i] / sa
    if o.periodic:
        if o.scale != "no" or 0 in free or (n - 1) in free:
            free.add(0); free.add(n - 1)
        tot = p[0] + p[n - 1] if n > 1 else p[0]
        p[0] = p[n - 1] = tot
    return p, free, signed or any(x < 0 for x in p)


def close(a, b, scale=0.0):
    return abs(a - b) <= PRT * max(abs(a), abs(b), scale) + 1e-300


def match_hist(obs, p, free, signed, o, step):
    """does the written column agree with expected contents p (up to normalisation if asked)?"""
    n = o.n
    idx = [i for i in range(n) if i not in free]
    if not o.normalize:
        big = max([abs(p[i]) for i in idx] + [0.0])
        return all(math.isfinite(obs[i]) and close(obs[i], p[i], 1e-9 * big) for i in idx)
    degenerate = bool(free) or signed or not any(x != 0 for x in p)
    if any(x < 0 for x in p) and abs(sum(p)) < 1e-6 * sum(abs(x) for x in p):
        return True                # signed contents cancelling to ~0: nothing to normalise
    if not all(math.isfinite(x) for x in obs):
        return degenerate          # normalisation of empty / singular / signed contents is not specified
    if not idx:
        return True
    big = max(abs(p[i]) for i in idx)
    if big == 0:
        return all(abs(obs[i]) <= 1e-300 for i in idx) or degenerate
    j = max(idx, key=lambda i: abs(p[i]))
    lam = obs[j] / p[j]
    if lam == 0 or not math.isfinite(lam):
        return False
    if not all(close(obs[i], lam * p[i], 1e-9 * abs(lam) * big) for i in idx):
        return False
    integral = sum(obs) * step
    return abs(integral - 1.0) <= 10 * PRT * max(1.0, sum(abs(x) for x in obs) * step)   # (signed contents cancel)


def match_tab(U, p, free, signed, o, T):
    """Boltzmann inversion: differences between populated bins, empty bins never below a populated one"""
    n = o.n
    kT = R_KJ * T
    if o.normalize and signed:
        return True, "signed-contents"       # sign of the normalisation constant is not specified
    pos = [i for i in range(n) if i not in free and p[i] > 0]
    if not pos:
        return True, "no-populated-bin"
    j = max(pos, key=lambda i: p[i])
    if not math.isfinite(U[j]):
        return False, "potential of the most populated bin %d is %r" % (j, U[j])
    umax = U[j]
    for i in pos:
        exp = -kT * math.log(p[i] / p[j])
        if not math.isfinite(U[i]) or abs((U[i] - U[j]) - exp) > 1e-4 * abs(exp) + PRT * max(abs(U[i]), abs(U[j]), kT):
            return False, "U[%d]-U[%d] = %.8g, expected -kT ln(p%d/p%d) = %.8g (kT=%.6g)" % (i, j, U[i] - U[j], i, j, exp, kT)
        umax = max(umax, U[i])
    if not signed:
        for i in range(n):
            if i not in free and p[i] == 0 and math.isfinite(U[i]) and U[i] < umax - PRT * max(abs(umax), kT):
                return False, "empty bin %d has U=%.8g below the populated bin maximum %.8g" % (i, U[i], umax)
    return True, ""


def check_force(dx, U, F):
    n = len(U)
    umax = max([abs(u) for u in U if math.isfinite(u)] + [0.0])
    for i in range(1, n - 1):
        if not all(math.isfinite(x) for x in (U[i - 1], U[i], U[i + 1], F[i])):
            continue
        allowed = [-(U[i + 1] - U[i - 1]) / (2 * dx), -(U[i + 1] - U[i]) / dx, -(U[i] - U[i - 1]) / dx]
        tol = 4 * PRT * umax / dx + PRT * abs(F[i]) + 1e-12
        lo_a, hi_a = min(allowed) - tol, max(allowed) + tol
        if not (lo_a <= F[i] <= hi_a):
            return "force[%d] = %.8g is not -dU/dx: finite differences of the written potential give %s" % (i, F[i], ["%.8g" % a for a in allowed])
    return None


def read_table(path, ncol):
    rows = []
    with open(path) as f:
        for line in f:
            t = line.split()
            if not t:
                continue
            if len(t) < ncol:
                return None
            try:
                rows.append([float(x) for x in t[:ncol]])
            except ValueError:
                return None
    return rows


def verify(which, path, vals, o, T):
    """-> (key or None, what, observed signature)"""
    pre = "bz-" + which
    if not os.path.exists(path):
        return pre + "-no-output", "no file written", None
    rows = read_table(path, 2 if which == "hist" else 3)
    if rows is None or len(rows) != o.n:
        return pre + "-rows", "%s rows, %d grid points requested" % ("unparsable" if rows is None else len(rows), o.n), None
    lo, hi = resolve_range(vals, o)
    n = o.n
    step = (hi - lo) / (n - 1)
    allneg = max(vals) < 0
    xs = [r[0] for r in rows]
    sc = max(abs(lo), abs(hi))
    for i in range(n):
        if not (math.isfinite(xs[i]) and abs(xs[i] - (lo + i * step)) <= PRT * sc + 1e-300):
            return pre + "-range-" + o.mode + ("-all-negative-data" if allneg and o.mode != "fixed" else ""), \
                "grid point %d written as %r, expected min + k*step = %.9g (range [%.9g, %.9g], data [%.9g, %.9g])" % (
                    i, xs[i], lo + i * step, lo, hi, min(vals), max(vals)), None
    obs = [r[1] for r in rows]
    period = max(1, n - 1)
    fixed, ties, outside = binning(vals, lo, hi, n, o.periodic, period)
    detail = ""

    def try_model(fixed, ties):
        nonlocal detail
        if len(ties) > 12:
            raise RuntimeError("too many ties")
        for choice in itertools.product(*ties) if ties else [()]:
            c = list(fixed)
            for b in choice:
                if b is not None:
                    c[b] += 1.0
            p, free, signed = shape(c, lo, hi, o)
            if which == "hist":
                if match_hist(obs, p, free, signed, o, step):
                    return True
                detail = "expected contents %s%s" % (["%.6g" % x for x in p], " up to normalisation" if o.normalize else "")
            else:
                ok, why = match_tab(obs, p, free, signed, o, T)
                if ok:
                    return True
                detail = why + "; expected contents %s" % ["%.6g" % x for x in p]
            if free:
                detail += " (free bins %s)" % sorted(free)
        return False

    if not try_model(fixed, ties):
        key = pre + "-values" + ("-periodic" if o.periodic else "") + ("-outside" if outside else "-inside") + \
            ("-scale-" + o.scale if o.scale != "no" else "") + ("-normalized" if o.normalize and which == "hist" else "")
        what = "written %s, %s" % (["%.6g" % x for x in obs], detail)
        if o.periodic and outside and n > 2:
            f2, t2, _ = binning(vals, lo, hi, n, 1, n)     # the wrap modulo the number of grid points
            d0 = detail
            if try_model(f2, t2):
                key = pre + "-periodic-outside-wrapped-modulo-npoints"
                what += " -- the output equals a wrap modulo n=%d grid points (n*step) instead of the range length (n-1)*step" % n
            detail = d0
        return key, what, None
    if which == "tab":
        F = [r[2] for r in rows]
        why = check_force(step, obs, F)
        if why:
            return pre + "-force-not-minus-gradient", why, None
    return None, "", tuple(float("%.4g" % x) if math.isfinite(x) else str(x) for x in obs)


# ---------------------------------------------------------------------------------- sessions
CHUNK = 60


def dataset_list(thorough):
    return DATASETS + (DATASETS_THOROUGH if thorough else [])


def selection_list(thorough):
    return SELECTIONS + (SELECTIONS_THOROUGH if thorough else [])


def selected_values(frames_vals, names):
    return [fv[nm] for nm in names for fv in frames_vals]


def plan(thorough):
    """list of sessions (dataset index, selection index, chunk index)"""
    out = []
    for di, (_, frames) in enumerate(dataset_list(thorough)):
        pts = [place(*fr) for fr in frames]
        fvs = [frame_values(p) for p in pts]
        for si, (_, _, names, kind) in enumerate(selection_list(thorough)):
            vals = selected_values(fvs, names)
            if len(distinct(vals)) < 2:
                continue                      # the legacy histogram needs two distinct values
            ncmb = len(combos(vals, kind, thorough))
            for ch in range((ncmb + CHUNK - 1) // CHUNK):
                out.append((di, si, ch))
    return out


def tab_partner(k, ncmb):
    """bijection on combo indices: the `tab` options of step k differ from its `hist` options"""
    a = 7
    while math.gcd(a, ncmb) != 1:
        a += 2
    return (a * k + 5) % ncmb


def run_session(sess, thorough, only=None):
    """runs one csg_boltzmann process; yields (step k, which, key, what, obs, opt)"""
    di, si, ch = sess
    dname, frames = dataset_list(thorough)[di]
    sname, sargs, names, kind = selection_list(thorough)[si]
    pts = [place(*fr) for fr in frames]
    fvs = [frame_values(p) for p in pts]
    vals = selected_values(fvs, names)
    cmb = combos(vals, kind, thorough)
    ncmb = len(cmb)
    T = 300.0 if ch % 2 == 0 else 250.0
    steps = list(range(ch * CHUNK, min(ncmb, (ch + 1) * CHUNK)))
    write_inputs(pts)
    for f in os.listdir("."):
        if f.startswith(("h_", "t_", "vals")):
            os.unlink(f)
    cmds = ["vals vals.txt *", "tab set T %r" % T]
    state = {"hist": {}, "tab": {}}
    sel = " ".join(sargs)
    for k in steps:
        for which, o in (("hist", cmb[k]), ("tab", cmb[tab_partner(k, ncmb)])):
            for name, val in o.settings():
                if state[which].get(name) != val:
                    cmds.append("%s set %s %s" % (which, name, val))
                    state[which][name] = val
            cmds.append("%s %s_%d.txt %s" % (which, which[0], k, sel))
    cmds.append("q")
    p = subprocess.run([pybsx.exe("csg_boltzmann"), "--top", "top.xml", "--trj", "conf.gro", "--no-map"], input=("\n".join(cmds) + "\n").encode(),
                       stdout=subprocess.PIPE, stderr=subprocess.STDOUT, timeout=600)
    res = []
    crashed = p.returncode != 0
    tail = p.stdout.decode(errors="replace")[-300:].replace("\n", " / ")
    # the values the tool evaluated = the values the oracle uses (premise)
    vrows = read_table("vals.txt", 1 + len(NAMES)) if os.path.exists("vals.txt") else None
    premise = None
    if vrows is None or len(vrows) != len(frames):
        if not crashed:
            premise = ("bz-vals-rows", "vals wrote %s rows for %d frames" % ("no" if vrows is None else len(vrows), len(frames)))
    else:
        for fr, row in enumerate(vrows):
            for c, nm in enumerate(NAMES):
                mine, theirs = fvs[fr][nm], row[1 + c]
                if abs(mine - theirs) > 2e-6 * max(1.0, abs(mine)):
                    if nm[0] == "d" and abs(abs(mine) - abs(theirs)) <= 2e-6 * max(1.0, abs(mine)):
                        # the sign convention of a dihedral is not part of C13: adopt the tool's sign
                        fvs[fr][nm] = math.copysign(mine, theirs)
                        if premise is None:
                            premise = ("bz-premise-dihedral-sign-convention", "dihedral %s frame %d: tool %g, geometry %g" % (nm, fr, theirs, mine))
                    else:
                        premise = ("bz-vals-differ-from-geometry-" + {"b": "bond", "a": "angle", "d": "dihedral"}[nm[0]],
                                   "interaction %s frame %d: vals gives %.7g, coordinates give %.7g" % (nm, fr, theirs, mine))
    vals = selected_values(fvs, names)
    attributed = False
    for k in steps:
        for which, o in (("hist", cmb[k]), ("tab", cmb[tab_partner(k, ncmb)])):
            if only is not None and only != (k, which):
                continue
            path = "%s_%d.txt" % (which[0], k)
            if crashed and not os.path.exists(path):
                if not attributed:       # attribute the death to the first missing output only
                    attributed = True
                    key = "bz-%s-crash" % which if p.returncode < 0 else "bz-%s-tool-failed" % which
                    res.append((k, which, key, "csg_boltzmann exit status %d before writing %s: %s" % (p.returncode, path, tail), None, o))
                continue
            if premise and premise[0] != "bz-premise-dihedral-sign-convention":
                res.append((k, which, premise[0], premise[1], None, o))
                continue
            key, what, obs = verify(which, path, vals, o, T)
            res.append((k, which, key, what, obs, o))
    info = dict(dataset=dname, selection=sname, args=sargs, values=vals, T=T, ncmds=len(cmds), premise=premise)
    return res, info


def main():
    a = pybsx.parse()
    if a.case is not None:
        tier, di, si, ch, k, which = eval(a.case, {"__builtins__": {}})
        res, info = run_session((di, si, ch), tier == "thorough", only=(k, which))
        for (kk, w, key, what, obs, o) in res:
            if key:
                print("case FAILS:", key, what, "[", o, "]")
                return 3
        if not res:
            print("case FAILS: bz-no-result nothing evaluated")
            return 3
        print("case holds")
        return 0
    thorough = a.tier == "thorough"
    R = pybsx.Report("C13", "boltzmann", a.tier)
    R.rule = ("the built csg_boltzmann executable (--no-map, xml topology of a 5-bead chain with 4 bonds, 3 angles, 2 dihedrals, gro trajectory of 1-3 "
              "frames), commands on stdin: every combination of n in {2,3,5,6}(+{4,11,101}) x {auto, fixed, extend} x ranges placed relative to the data "
              "(data range, margins, values outside on both sides, all data > 2 periods below min / above max, data on outer edges, values on centres, "
              "absolute ranges 0..pi, -pi..pi, 0..2pi, 0..0.3) x periodic x normalize x scale no|bond|angle, for `hist` and (with different options in the "
              "same session, set incrementally) for `tab`, on every selection (bonds, angles, dihedrals, two arguments, single interaction) of every data set "
              "(mixed-sign / all-negative / all-positive / near +-pi dihedrals). Oracle: grid min+k*step, auto range = data range, nearest-centre counts, "
              "discard or wrap modulo the range length, unit integral with unchanged ratios, 1/r^2 and 1/sin scalings, U_i-U_j=-kT ln(p_i/p_j), "
              "force = -dU/dx. distinct_nontrivial = distinct written columns (4 significant digits)")
    sessions = plan(thorough)
    nsample = {"hist": 0, "tab": 0}
    for i, sess in enumerate(sessions):
        if not a.mine(i):
            continue
        try:
            res, info = run_session(sess, thorough)
        except subprocess.TimeoutExpired:
            R.eval()
            R.fail("bz-hang", "csg_boltzmann did not finish the session %r within 600 s" % (sess,), repr((a.tier,) + sess + (sess[2] * CHUNK, "hist")))
            continue
        R.count("sessions")
        R.count("commands", info["ncmds"])
        if info["premise"] and info["premise"][0] == "bz-premise-dihedral-sign-convention":
            R.count("sessions_with_other_dihedral_sign_convention")
        for (k, which, key, what, obs, o) in res:
            R.eval()
            R.count(which + "_outputs")
            case = repr((a.tier,) + sess + (k, which))
            if key:
                R.fail(key, "%s %s on %s (%s), values %s: %s  [%s]" % (which, " ".join(info["args"]), info["dataset"], o, ["%.6g" % v for v in info["values"]], what, case), case)
            else:
                R.cls((which, o.n, obs))
                if nsample[which] < 2 and (o.periodic or o.scale != "no") and o.n >= 3:
                    nsample[which] += 1
                    R.sample("%s %s on %s [%s] T=%g values %s -> column 2 = %s" % (which, " ".join(info["args"]), info["dataset"], o, info["T"],
                                                                                 ["%.5g" % v for v in info["values"]], list(obs)))
    R.assumptions = ["coordinates as printed in the gro file (3 decimals), interaction values recomputed from them and cross-checked against `vals` (6 digits)",
                     "every selection holds at least two distinct values, n >= 2, min < max",
                     "a value within 1e-6 steps of a bin edge may go to either neighbour; bins with singular scaling (r=0, sin=0) and the merged end points of a "
                     "periodic scaled histogram are free; normalisation of empty/signed contents and potentials of empty bins are only bounded, not fixed",
                     "numbers are compared at the 6 significant digits the tool prints; smoothing is left at its default (0 iterations)"]
    R.write(a.out)
    return 0


if __name__ == "__main__":
    sys.exit(main())
