// C06 (part qrsolve) — linalg_constrained_qrsolve returns a vector that satisfies the
// constraints exactly and whose residual gradient is orthogonal to the constraint
// null-space.
//
// Exhaustive enumeration of ALL small integer problems  min |A x - b|  s.t.  B x = 0
// of the families listed in families() (every A in alphabet^(m x n), every full-row-rank
// B in alphabet^(p x n), every b of the stated b-set).  linalg.cc is compiled from the
// source tree into this harness (Eigen assertions turned into exceptions).
//
// Oracle (independent, exact integer arithmetic):
//   Z  = integer basis of null(B) from rational Gauss-Jordan elimination of B,
//   M  = A Z,  N = M^T M (integer),  x* = Z adj(N) M^T b / det(N)   (the unique minimiser
//   whenever det(N) != 0; problems with det(N) == 0 have no unique minimiser: counted,
//   not judged).
//   (1) |B x|            <= 1e-12 (1+|x|)          "satisfies the constraints exactly"
//   (2) |Z^T A^T (A x-b)| <= 1e-10 * scale          "residual gradient orthogonal to null(B)"
//   (3) |x - x*|          <= tolerance scaled by the conditioning of N (full result compare)
#include <stdexcept>

#include "bsx.h"
#include "votca/tools/linalg.h"

using bsx::Outcome;
typedef __int128 i128;
typedef long double ld;

// ------------------------------------------------------------------ tiny exact rationals
static i128 gcd128(i128 a, i128 b) {
  if (a < 0) a = -a;
  if (b < 0) b = -b;
  while (b) { i128 t = a % b; a = b; b = t; }
  return a;
}
struct Q {
  i128 n = 0, d = 1;
  Q() {}
  Q(i128 nn, i128 dd = 1) : n(nn), d(dd) { norm(); }
  void norm() {
    if (d < 0) { n = -n; d = -d; }
    i128 g = gcd128(n, d);
    if (g > 1) { n /= g; d /= g; }
    if (n == 0) d = 1;
  }
};
static Q operator*(Q a, Q b) { return Q(a.n * b.n, a.d * b.d); }
static Q operator-(Q a, Q b) { return Q(a.n * b.d - b.n * a.d, a.d * b.d); }
static Q operator/(Q a, Q b) { return Q(a.n * b.d, a.d * b.n); }

struct Problem {
  int n = 0, p = 0, m = 0;
  std::vector<int> B, A, b;  // row-major
};

// integer basis of null(B) (n x d, column k = basis vector k); returns rank of B
static int nullspace(const Problem &P, std::vector<std::vector<long long>> &Z) {
  int n = P.n, p = P.p;
  std::vector<std::vector<Q>> R(p, std::vector<Q>(n));
  for (int i = 0; i < p; i++)
    for (int j = 0; j < n; j++) R[i][j] = Q(P.B[i * n + j]);
  std::vector<int> pivcol;
  int row = 0;
  for (int col = 0; col < n && row < p; col++) {
    int piv = -1;
    for (int i = row; i < p; i++)
      if (R[i][col].n != 0) { piv = i; break; }
    if (piv < 0) continue;
    std::swap(R[piv], R[row]);
    Q pv = R[row][col];
    for (int j = 0; j < n; j++) R[row][j] = R[row][j] / pv;
    for (int i = 0; i < p; i++)
      if (i != row && R[i][col].n != 0) {
        Q f = R[i][col];
        for (int j = 0; j < n; j++) R[i][j] = R[i][j] - f * R[row][j];
      }
    pivcol.push_back(col);
    row++;
  }
  int rank = row;
  Z.clear();
  std::vector<bool> ispiv(n, false);
  for (int c : pivcol) ispiv[c] = true;
  for (int f = 0; f < n; f++) {
    if (ispiv[f]) continue;
    // free variable f = 1, other free = 0, pivot variables = -R[i][f]
    std::vector<Q> v(n);
    v[f] = Q(1);
    for (int i = 0; i < rank; i++) v[pivcol[i]] = Q(0) - R[i][f];
    i128 l = 1;
    for (int j = 0; j < n; j++) l = l / gcd128(l, v[j].d) * v[j].d;
    std::vector<long long> z(n);
    for (int j = 0; j < n; j++) z[j] = (long long)(v[j].n * (l / v[j].d));
    Z.push_back(z);
  }
  return rank;
}

// determinant / adjugate of a d x d (d<=3) integer matrix
static i128 det_adj(int d, const i128 N[3][3], i128 adj[3][3]) {
  if (d == 1) { adj[0][0] = 1; return N[0][0]; }
  if (d == 2) {
    adj[0][0] = N[1][1]; adj[0][1] = -N[0][1]; adj[1][0] = -N[1][0]; adj[1][1] = N[0][0];
    return N[0][0] * N[1][1] - N[0][1] * N[1][0];
  }
  for (int i = 0; i < 3; i++)
    for (int j = 0; j < 3; j++) {
      int r0 = (j + 1) % 3, r1 = (j + 2) % 3, c0 = (i + 1) % 3, c1 = (i + 2) % 3;
      adj[i][j] = N[r0][c0] * N[r1][c1] - N[r0][c1] * N[r1][c0];  // cofactor(j,i)
    }
  return N[0][0] * adj[0][0] + N[0][1] * adj[1][0] + N[0][2] * adj[2][0];
}

struct Prepared {  // everything that depends on (B, A) only
  bool wellposed = false;
  int d = 0;
  std::vector<std::vector<long long>> Z;  // d vectors of length n
  long long M[5][3];                      // A Z
  i128 N[3][3], adj[3][3], det = 0;
  ld kappa = 0;
};

static void prepare_A(const Problem &P, Prepared &S) {
  int n = P.n, m = P.m, d = S.d;
  for (int i = 0; i < m; i++)
    for (int k = 0; k < d; k++) {
      long long s = 0;
      for (int j = 0; j < n; j++) s += (long long)P.A[i * n + j] * S.Z[k][j];
      S.M[i][k] = s;
    }
  for (int k = 0; k < d; k++)
    for (int l = 0; l < d; l++) {
      i128 s = 0;
      for (int i = 0; i < m; i++) s += (i128)S.M[i][k] * S.M[i][l];
      S.N[k][l] = s;
    }
  S.det = det_adj(d, S.N, S.adj);
  S.wellposed = S.det != 0;
  if (S.wellposed) {
    ld mn = 0, ma = 0;
    for (int k = 0; k < d; k++)
      for (int l = 0; l < d; l++) {
        mn = std::max(mn, fabsl((ld)S.N[k][l]));
        ma = std::max(ma, fabsl((ld)S.adj[k][l]));
      }
    S.kappa = mn * ma * d / fabsl((ld)S.det);
  }
}

static std::string ints(const std::vector<int> &v) {
  std::string s;
  for (size_t i = 0; i < v.size(); i++) s += (i ? "," : "") + std::to_string(v[i]);
  return s;
}
static std::vector<int> parse_ints(const std::string &s) {
  std::vector<int> v;
  if (s.empty()) return v;
  for (auto &t : bsx::split(s, ',')) v.push_back(atoi(t.c_str()));
  return v;
}
static std::string case_string(const Problem &P) {
  return "n=" + std::to_string(P.n) + ";p=" + std::to_string(P.p) + ";m=" + std::to_string(P.m) + ";B=" + ints(P.B) +
         ";A=" + ints(P.A) + ";b=" + ints(P.b);
}

struct Stats { ld max_bx = 0, max_g = 0, max_dx = 0; };
static Stats stats;

// evaluate one fully specified problem on the real code
static Outcome evaluate(const Problem &P, const Prepared &S, std::string *desc = nullptr) {
  Outcome o;
  int n = P.n, p = P.p, m = P.m, d = S.d;
  Eigen::MatrixXd A(m, n), B(p, n);
  Eigen::VectorXd b(m);
  bool zerocol = false;
  for (int j = 0; j < n; j++) {
    bool z = true;
    for (int i = 0; i < m; i++) {
      A(i, j) = P.A[i * n + j];
      if (P.A[i * n + j] != 0) z = false;
    }
    zerocol = zerocol || z;
  }
  for (int i = 0; i < p; i++)
    for (int j = 0; j < n; j++) B(i, j) = P.B[i * n + j];
  for (int i = 0; i < m; i++) b(i) = P.b[i];
  Eigen::VectorXd x;
  try {
    x = votca::tools::linalg_constrained_qrsolve(A, b, B);
  } catch (const std::exception &e) {
    if (zerocol && std::string(e.what()).find("zero_column") != std::string::npos) {
      o.cls = bsx::fnv("rejected: zero column in A (documented precondition)");
      return o;
    }
    o.ok = false;
    o.key = "qrsolve-unexpected-exception";
    o.what = std::string("linalg_constrained_qrsolve threw '") + e.what() + "' on a well-posed problem";
    return o;
  }
  if (x.size() != n) {
    o.ok = false; o.key = "qrsolve-wrong-size";
    o.what = "result has " + std::to_string(x.size()) + " entries, expected " + std::to_string(n);
    return o;
  }
  ld xmax = 0;
  bool finite = true;
  for (int j = 0; j < n; j++) { xmax = std::max(xmax, fabsl((ld)x(j))); finite = finite && std::isfinite(x(j)); }
  if (!finite) {
    o.ok = false; o.key = "qrsolve-nonfinite";
    o.what = "result contains inf/nan on a well-posed problem";
    return o;
  }
  // exact minimiser
  ld xs[4] = {0, 0, 0, 0}, xsmax = 0;
  {
    i128 rhs[3] = {0, 0, 0}, y[3] = {0, 0, 0};
    for (int k = 0; k < d; k++)
      for (int i = 0; i < m; i++) rhs[k] += (i128)S.M[i][k] * P.b[i];
    for (int k = 0; k < d; k++)
      for (int l = 0; l < d; l++) y[k] += S.adj[k][l] * rhs[l];
    for (int j = 0; j < n; j++) {
      i128 s = 0;
      for (int k = 0; k < d; k++) s += (i128)S.Z[k][j] * y[k];
      xs[j] = (ld)s / (ld)S.det;
      xsmax = std::max(xsmax, fabsl(xs[j]));
    }
  }
  // (1) constraints
  ld bx = 0;
  for (int i = 0; i < p; i++) {
    ld s = 0;
    for (int j = 0; j < n; j++) s += (ld)P.B[i * n + j] * (ld)x(j);
    bx = std::max(bx, fabsl(s));
  }
  // (2) gradient of the residual projected on null(B): Z^T A^T (A x - b)
  ld g = 0, mmax = 0, bmax = 0;
  {
    ld r[5];
    for (int i = 0; i < m; i++) {
      ld s = -(ld)P.b[i];
      for (int j = 0; j < n; j++) s += (ld)P.A[i * n + j] * (ld)x(j);
      r[i] = s;
      bmax = std::max(bmax, fabsl((ld)P.b[i]));
    }
    for (int k = 0; k < d; k++) {
      ld s = 0;
      for (int i = 0; i < m; i++) { s += (ld)S.M[i][k] * r[i]; mmax = std::max(mmax, fabsl((ld)S.M[i][k])); }
      g = std::max(g, fabsl(s));
    }
  }
  ld dx = 0;
  for (int j = 0; j < n; j++) dx = std::max(dx, fabsl((ld)x(j) - xs[j]));
  ld tol_bx = 1e-12L * (1 + xmax);
  ld tol_g = 1e-10L * (1 + mmax * m) * (1 + 2 * n * xmax + bmax);
  ld tol_dx = (1e-12L + 1e-14L * S.kappa) * (1 + xsmax);
  stats.max_bx = std::max(stats.max_bx, bx / (1 + xmax));
  stats.max_g = std::max(stats.max_g, g / ((1 + mmax * m) * (1 + 2 * n * xmax + bmax)));
  stats.max_dx = std::max(stats.max_dx, dx / ((1 + xsmax) * (1 + 1e-2L * S.kappa)));
  char buf[400];
  if (bx > tol_bx) {
    o.ok = false; o.key = "qrsolve-constraint-violated";
    snprintf(buf, sizeof buf, "max |B x| = %.3Lg (tolerance %.3Lg); x=(%g,%g,%g,%g)[0..n)", bx, tol_bx, x(0), n > 1 ? x(1) : 0.0,
             n > 2 ? x(2) : 0.0, n > 3 ? x(3) : 0.0);
    o.what = buf;
    return o;
  }
  if (g > tol_g) {
    o.ok = false; o.key = "qrsolve-gradient-not-orthogonal";
    snprintf(buf, sizeof buf, "max |Z^T A^T (A x - b)| = %.3Lg (tolerance %.3Lg); x=(%g,%g,%g,%g) exact minimiser=(%Lg,%Lg,%Lg,%Lg) [0..n)",
             g, tol_g, x(0), n > 1 ? x(1) : 0.0, n > 2 ? x(2) : 0.0, n > 3 ? x(3) : 0.0, xs[0], xs[1], xs[2], xs[3]);
    o.what = buf;
    return o;
  }
  if (dx > tol_dx) {
    o.ok = false; o.key = "qrsolve-not-the-minimiser";
    snprintf(buf, sizeof buf, "max |x - x*| = %.3Lg (tolerance %.3Lg, kappa %.3Lg); x=(%g,%g,%g,%g) x*=(%Lg,%Lg,%Lg,%Lg) [0..n)", dx,
             tol_dx, S.kappa, x(0), n > 1 ? x(1) : 0.0, n > 2 ? x(2) : 0.0, n > 3 ? x(3) : 0.0, xs[0], xs[1], xs[2], xs[3]);
    o.what = buf;
    return o;
  }
  // outcome class: shape + sign pattern of the exact minimiser + whether the fit is exact
  {
    std::string c = std::to_string(n) + "/" + std::to_string(p) + "/" + std::to_string(m) + ":";
    for (int j = 0; j < n; j++) c += xs[j] > 0 ? '+' : (xs[j] < 0 ? '-' : '0');
    // residual zero or not (exactly, in integers): N y = M^T b solved => residual r = M y/det - b
    o.cls = bsx::fnv(c);
    if (desc) {
      snprintf(buf, sizeof buf, " -> x=(%.12g,%.12g,%.12g,%.12g)[0..%d) |Bx|=%.2Lg |Z'A'(Ax-b)|=%.2Lg |x-x*|=%.2Lg", x(0), n > 1 ? x(1) : 0.0,
               n > 2 ? x(2) : 0.0, n > 3 ? x(3) : 0.0, n, bx, g, dx);
      *desc = buf;
    }
  }
  return o;
}

static bool parse_case(const std::string &cas, Problem &P) {
  auto kv = bsx::kvs(cas);
  P.n = atoi(kv["n"].c_str()); P.p = atoi(kv["p"].c_str()); P.m = atoi(kv["m"].c_str());
  P.B = parse_ints(kv["B"]); P.A = parse_ints(kv["A"]); P.b = parse_ints(kv["b"]);
  return P.n >= 1 && P.n <= 4 && P.p >= 1 && P.p < P.n && P.m >= 1 && P.m <= 5 && (int)P.B.size() == P.n * P.p &&
         (int)P.A.size() == P.n * P.m && (int)P.b.size() == P.m;
}

struct Family {
  int n, p, m;
  std::vector<int> alphaA, alphaB;
  int bmode;  // 0: all of {-1,0,2}^m ; 1: three fixed vectors (e_1, alternating 1,2,-1.., all 2 except last -1)
  bool thorough_only;
};

static std::vector<Family> families() {
  const std::vector<int> S{0, 1, -1, 2}, T{0, 1, -1}, U{0, 1};
  std::vector<Family> f;
  // n=2 (one constraint, one degree of freedom)
  f.push_back({2, 1, 1, S, S, 0, false});
  f.push_back({2, 1, 2, S, S, 0, false});
  f.push_back({2, 1, 3, S, S, 0, false});
  f.push_back({2, 1, 4, S, S, 1, false});
  f.push_back({2, 1, 5, S, S, 1, true});
  // n=3
  f.push_back({3, 1, 2, S, S, 0, false});
  f.push_back({3, 2, 1, S, S, 0, false});
  f.push_back({3, 2, 2, S, T, 1, false});
  f.push_back({3, 1, 3, S, S, 1, true});
  f.push_back({3, 2, 2, S, S, 1, true});
  f.push_back({3, 2, 3, T, T, 1, true});
  // n=4
  f.push_back({4, 3, 1, S, U, 0, false});
  f.push_back({4, 2, 2, U, S, 1, false});
  f.push_back({4, 1, 3, U, S, 1, false});
  f.push_back({4, 2, 3, U, U, 1, false});
  f.push_back({4, 3, 2, U, U, 1, false});
  f.push_back({4, 1, 4, U, U, 1, false});
  f.push_back({4, 2, 4, U, U, 1, true});
  f.push_back({4, 1, 5, U, U, 1, true});
  f.push_back({4, 3, 1, U, T, 1, true});
  f.push_back({4, 2, 2, S, U, 1, true});
  f.push_back({4, 1, 3, T, U, 1, true});
  return f;
}

static std::vector<std::vector<int>> bset(int m, int mode) {
  std::vector<std::vector<int>> r;
  if (mode == 0) {
    const int al[3] = {0, 2, -1};
    std::vector<int> idx(m, 0), radix(m, 3);
    do {
      std::vector<int> b(m);
      for (int i = 0; i < m; i++) b[i] = al[idx[i]];
      r.push_back(b);
    } while (bsx::next(idx, radix));
  } else {
    std::vector<int> b1(m, 0), b2(m), b3(m, 2);
    b1[0] = 1;
    const int pat[3] = {1, 2, -1};
    for (int i = 0; i < m; i++) b2[i] = pat[i % 3];
    b3[m - 1] = -1;
    r = {b1, b2, b3};
  }
  return r;
}

static std::string alpha_str(const std::vector<int> &a) {
  std::vector<int> s = a;
  std::sort(s.begin(), s.end());
  return "{" + ints(s) + "}";
}

int main(int argc, char **argv) {
  bsx::Args a = bsx::parse(argc, argv);
  if (a.has_case) {
    Problem P;
    if (!parse_case(a.cas, P)) { printf("cannot parse case\n"); return 2; }
    Prepared S;
    int rank = nullspace(P, S.Z);
    S.d = (int)S.Z.size();
    if (rank != P.p) { printf("B is not of full row rank: outside the property\n"); return 0; }
    prepare_A(P, S);
    if (!S.wellposed) { printf("A restricted to null(B) is rank deficient: no unique minimiser, not judged\n"); return 0; }
    std::string desc;
    Outcome o = evaluate(P, S, &desc);
    if (o.ok) { printf("case holds%s\n", desc.c_str()); return 0; }
    printf("case FAILS: key=%s %s\n", o.key.c_str(), o.what.c_str());
    return 3;
  }
  bsx::Report R;
  R.property = "C06"; R.part = "qrsolve"; R.tier = a.tier;
  bool thorough = a.tier == "thorough";
  std::string fam;
  long long pairidx = 0, bcount = 0;
  for (const Family &F : families()) {
    if (F.thorough_only && !thorough) continue;
    fam += " (n=" + std::to_string(F.n) + ",p=" + std::to_string(F.p) + ",m=" + std::to_string(F.m) + ",A" + alpha_str(F.alphaA) + ",B" +
           alpha_str(F.alphaB) + (F.bmode == 0 ? ",b all of {-1,0,2}^m)" : ",b 3 vectors)");
    auto bs = bset(F.m, F.bmode);
    Problem P;
    P.n = F.n; P.p = F.p; P.m = F.m;
    std::vector<int> bi(F.n * F.p, 0), br(F.n * F.p, (int)F.alphaB.size());
    do {  // all B
      P.B.resize(bi.size());
      for (size_t k = 0; k < bi.size(); k++) P.B[k] = F.alphaB[bi[k]];
      Prepared S;
      int rank = nullspace(P, S.Z);
      S.d = (int)S.Z.size();
      if (rank != F.p) { if (a.mine(0)) R.counters["B_rank_deficient_skipped"]++; continue; }
      bcount++;
      std::vector<int> ai(F.n * F.m, 0), ar(F.n * F.m, (int)F.alphaA.size());
      P.A.resize(ai.size());
      do {  // all A
        long long me = pairidx++;
        if (!a.mine(me + bcount * 5)) continue;  // decorrelate the shard pattern from the A odometer
        for (size_t k = 0; k < ai.size(); k++) P.A[k] = F.alphaA[ai[k]];
        prepare_A(P, S);
        if (!S.wellposed) { R.counters["no_unique_minimiser_not_judged"] += (long long)bs.size(); continue; }
        for (auto &b : bs) {
          P.b = b;
          R.eval();
          std::string desc;
          bool want_sample = R.samples.size() < R.max_samples && (R.evaluations % 7919) == 1;
          Outcome o = evaluate(P, S, want_sample ? &desc : nullptr);
          if (!o.ok) { R.fail(o.key, o.what, case_string(P)); continue; }
          if (o.cls) R.cls(o.cls);
          if (want_sample && !desc.empty()) R.sample(case_string(P) + desc);
        }
      } while (bsx::next(ai, ar));
    } while (bsx::next(bi, br));
  }
  char buf[300];
  snprintf(buf, sizeof buf, "observed maxima (scaled): |Bx| %.2Lg, |Z'A'(Ax-b)| %.2Lg, |x-x*|/(1+0.01 kappa) %.2Lg", stats.max_bx,
           stats.max_g, stats.max_dx);
  R.rule =
      "every problem min|Ax-b| s.t. Bx=0 of the families" + fam +
      ": all A in alphabet^(m x n), all full-row-rank B in alphabet^(p x n), all b of the b-set; problems whose A restricted to "
      "null(B) is rank deficient (no unique minimiser) are counted, not judged. Oracle: integer null-space basis Z of B by rational "
      "elimination; |Bx|<=1e-12(1+|x|); |Z^T A^T(Ax-b)|<=1e-10*scale; x equal to the exact rational minimiser Z adj(N) M^T b/det N "
      "(N=(AZ)^T AZ) within a conditioning-scaled tolerance. A zero column in A must be rejected with the documented exception. "
      "distinct_nontrivial = distinct (n,p,m,sign pattern of the exact minimiser) + the rejection class. " + buf;
  R.write(a.out);
  return 0;
}
