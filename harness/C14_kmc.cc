// C14 — KMC event selection is rate-proportional; Marcus rates obey detailed balance;
// waiting times follow dt = -ln(u)/k.
//
// Three families of cases, all evaluated on the REAL xtp code compiled from the source
// tree into this harness (huffmantree.h, gnode.cc, rate_engine.cc, qmpair.cc, segment.cc,
// atom.cc, qmstate.cc, kmccalculator.cc):
//   tree;...   the exact partition of [0,1] induced by huffmanTree<T>::findHoppingDestination
//              and by GNode::findHoppingDestination, reconstructed from ALL decision
//              thresholds of the tree (no sampling) and compared with rate/sum(rates)
//   rate;...   Rate_Engine::Rate on constructed Segment/QMPair objects: positive, linear in
//              J^2, detailed balance incl. the field term
//   time;...   KMCCalculator::Promotetime / ChooseHoppingDest with a scripted uniform source
//              (C14_random_seam.h): inverse-CDF identity dt = -ln(x)/k, x in {1-u, u}
#include <algorithm>
#include <memory>
#include <new>
#include <type_traits>
#include <cfloat>

#include "bsx.h"
#include "votca/tools/constants.h"
#include "votca/tools/property.h"
#include "votca/xtp/gnode.h"
#include "votca/xtp/huffmantree.h"
#include "votca/xtp/kmccalculator.h"
#include "votca/xtp/qmpair.h"
#include "votca/xtp/rate_engine.h"
#include "votca/xtp/segment.h"

using namespace votca;
using namespace votca::xtp;
using bsx::hexd;
using bsx::unhex;

// Link stubs: qmcalculator.cc needs libint (absent).  Only the two out-of-line members of the
// abstract base are provided so that a KMCCalculator subclass can be instantiated; neither is
// called and neither is code under test for C14.
namespace votca {
namespace xtp {
bool QMCalculator::EvaluateFrame(Topology&) { return false; }
void QMCalculator::Initialize(const tools::Property&) {}
}  // namespace xtp
}  // namespace votca

// ======================================================================== tree
struct Ev {
  double v;
  double getValue() const { return v; }
};

struct PartOut {
  bool ok = true;
  std::string key, what, sig;
};

static std::string ratestr(const std::vector<double> &r) {
  std::string s;
  for (size_t i = 0; i < r.size(); i++) s += (i ? "," : "") + hexd(r[i]);
  return s;
}
static std::string ratehuman(const std::vector<double> &r) {
  std::string s = "[";
  size_t n = r.size();
  for (size_t i = 0; i < n; i++) {
    if (n > 12 && i == 5) { s += ",..."; i = n - 4; continue; }
    char b[40];
    snprintf(b, sizeof b, "%s%.6g", i ? "," : "", r[i]);
    s += b;
  }
  return s + "] (n=" + std::to_string(n) + ")";
}

// Reconstructs the exact partition of [0,1] from the thresholds and compares the measure of
// every event's preimage with rate/sum.  `lookup(p)` returns the index of the selected event
// or -1.  The event of an open gap between two consecutive thresholds is the one selected at
// its midpoint; the thresholds themselves (measure zero, tie) may go to either neighbour.
template <class Lookup>
static PartOut check_partition(const std::vector<double> &rates, const std::vector<double> &thr, Lookup lookup,
                               const std::string &who) {
  const long n = (long)rates.size();
  const std::string par = n % 2 ? "odd" : "even";
  PartOut o;
  auto bad = [&](const std::string &key, const std::string &what) {
    o.ok = false; o.key = who + "-" + key; o.what = what;
    return o;
  };
  long double sum = 0;
  for (double r : rates) sum += r;
  // (a) every number of [0,1] we can name selects some event
  std::vector<double> probes{0.0, 1.0, DBL_MIN, 0.5, std::nextafter(1.0, 0.0), DBL_EPSILON};
  for (double t : thr) {
    if (!std::isfinite(t)) return bad("threshold-not-finite-" + par, "a decision threshold is " + bsx::fmt(t));
    if (t >= 0 && t <= 1) {
      probes.push_back(t);
      if (t < 1) probes.push_back(std::nextafter(t, 2.0));
      if (t > 0) probes.push_back(std::nextafter(t, -1.0));
    }
  }
  for (double p : probes) {
    long e = lookup(p);
    if (e < 0 || e >= n) return bad("no-event-" + par, "p=" + bsx::fmt(p) + " selects no event of the list (index " + std::to_string(e) + ")");
  }
  // (b) exact measure
  std::vector<double> cuts{0.0, 1.0};
  for (double t : thr) if (t > 0 && t < 1) cuts.push_back(t);
  std::sort(cuts.begin(), cuts.end());
  cuts.erase(std::unique(cuts.begin(), cuts.end()), cuts.end());
  std::vector<long double> meas((size_t)n, 0.0L);
  for (size_t g = 0; g + 1 < cuts.size(); g++) {
    double lo = cuts[g], hi = cuts[g + 1];
    double mid = lo + (hi - lo) / 2;
    long e;
    if (mid > lo && mid < hi) {
      e = lookup(mid);
      double a = std::nextafter(lo, 2.0), b = std::nextafter(hi, -1.0);
      long ea = lookup(a), eb = lookup(b);
      if (ea != e || eb != e)
        return bad("not-constant-between-thresholds", "events " + std::to_string(ea) + "," + std::to_string(e) + "," + std::to_string(eb) +
                                                          " inside (" + bsx::fmt(lo) + "," + bsx::fmt(hi) + ")");
    } else {
      e = lookup(hi);  // gap of one ulp: no interior point, measure far below the tolerance
    }
    meas[(size_t)e] += (long double)hi - (long double)lo;
    if (g) o.sig += ',';
    o.sig += std::to_string(e);
  }
  const long double tol = 4.0L * (long double)(n + 2) * DBL_EPSILON;
  for (long e = 0; e < n; e++) {
    long double want = (long double)rates[(size_t)e] / sum;
    if (fabsl(meas[(size_t)e] - want) > tol) {
      char b[200];
      snprintf(b, sizeof b, "event %ld (rate %.6g) is selected on a set of length %.17Lg, rate/escape rate = %.17Lg", e,
               rates[(size_t)e], meas[(size_t)e], want);
      return bad(std::string(meas[(size_t)e] == 0 ? "event-unreachable-" : "measure-") + par, b);
    }
  }
  return o;
}

struct TreeCase {
  std::vector<double> rates;
  long decay = -1;  // index of the event added through AddDecayEvent (GNode only), -1 none
};
static std::string treestr(const TreeCase &c) {
  return "tree;decay=" + std::to_string(c.decay) + ";rates=" + ratestr(c.rates);
}

static bsx::Outcome run_tree(const TreeCase &c) {
  bsx::Outcome o;
  const std::string cas = treestr(c);
  const long n = (long)c.rates.size();
  auto failwith = [&](const std::string &key, const std::string &what) {
    o.ok = false; o.key = key; o.what = what + "  rates=" + ratehuman(c.rates);
    return o;
  };
  try {
    // ---- raw template with a tiny event type
    std::vector<Ev> evs;
    for (double r : c.rates) evs.push_back({r});
    huffmanTree<Ev> tree;
    tree.setEvents(&evs);
    tree.makeTree();
    std::vector<double> thr;
    for (auto &nd : tree.htree) thr.push_back(nd.probability);
    PartOut p1 = check_partition(
        c.rates, thr,
        [&](double p) -> long {
          Ev *e = tree.findHoppingDestination(p);
          if (e == nullptr || e < evs.data() || e >= evs.data() + n) return -1;
          return (long)(e - evs.data());
        },
        "tree");
    if (!p1.ok) return failwith(p1.key, p1.what);

    // ---- GNode
    Segment seg("s", 0);
    GNode node(seg, QMStateType(QMStateType::Electron), true);
    std::vector<GNode> dests;  // destinations: never dereferenced by the lookup
    dests.reserve((size_t)n);
    for (long i = 0; i < n; i++) dests.emplace_back(seg, QMStateType(QMStateType::Electron), true);
    for (long i = 0; i < n; i++) {
      if (i == c.decay) node.AddDecayEvent(c.rates[(size_t)i]);
      else node.AddEvent(&dests[(size_t)i], Eigen::Vector3d(double(i), 0, 0), c.rates[(size_t)i]);
    }
    node.InitEscapeRate();
    node.MakeHuffTree();
    long double sum = 0;
    for (double r : c.rates) sum += r;
    if (!(std::fabs(node.getEscapeRate() - (double)sum) <= 2.0 * double(n) * DBL_EPSILON * (double)sum))
      return failwith("gnode-escape-rate", "escape rate " + bsx::fmt(node.getEscapeRate()) + " != sum of event rates " + bsx::fmt((double)sum));
    if ((long)node.Events().size() != n) return failwith("gnode-event-count", "event list has " + std::to_string(node.Events().size()) + " entries");
    for (long i = 0; i < n; i++) {
      const GLink &l = node.Events()[(size_t)i];
      if (l.getRate() != c.rates[(size_t)i] || l.isDecayEvent() != (i == c.decay))
        return failwith("gnode-event-stored", "event " + std::to_string(i) + " stored with rate " + bsx::fmt(l.getRate()));
    }
    std::vector<double> thr2;
    for (auto &nd : node.hTree.htree) thr2.push_back(nd.probability);
    const GLink *base = node.events_.data();
    PartOut p2 = check_partition(
        c.rates, thr2,
        [&](double p) -> long {
          const GLink *e = node.findHoppingDestination(p);
          if (e == nullptr || e < base || e >= base + n) return -1;
          return (long)(e - base);
        },
        "gnode");
    if (!p2.ok) return failwith(p2.key, p2.what);
    o.extra = p1.sig;
    o.cls = bsx::fnv(p1.sig + "|" + p2.sig);
  } catch (const std::exception &e) {
    return failwith(std::string("tree-throws-") + (n % 2 ? "odd" : "even"), std::string("exception: ") + e.what());
  }
  return o;
}

// ======================================================================== histories (rebuilds on ONE object)
// The kmclifetime flow builds every site's tree in LoadGraph and then ReadLifetimeFile adds a decay
// event per site and rebuilds (InitEscapeRate + MakeHuffTree) on the SAME GNode; a bare huffmanTree
// can likewise be re-targeted with setEvents() + makeTree().  State that survives a build
// (sum_of_values, escape_rate_, htree, treeIsMade) must not leak into the next one.  A history is a
// sequence of operations on one object; after EVERY build the exact partition is decided as above,
// the escape rate must equal the sum of the CURRENT rates, and the object must answer every probe
// exactly like a FRESH object built once from the same final event list.
struct HOp {
  char kind = 'B';            // 'B' build with list (raw tree: replace events; GNode: append them), 'A' add one event,
                              // 'D' add one decay event (GNode; plain add for the raw tree), 'R' rebuild only
  std::vector<double> rates;  // B: the list, A/D: one rate
};
static std::string hopstr(const std::vector<HOp> &ops) {
  std::string s;
  for (size_t i = 0; i < ops.size(); i++) {
    if (i) s += '/';
    s += ops[i].kind;
    s += ratestr(ops[i].rates);
  }
  return s;
}
static std::vector<HOp> parsehops(const std::string &s) {
  std::vector<HOp> ops;
  for (auto &t : bsx::split(s, '/')) {
    if (t.empty()) continue;
    HOp o;
    o.kind = t[0];
    if (t.size() > 1)
      for (auto &r : bsx::split(t.substr(1), ',')) o.rates.push_back(unhex(r));
    ops.push_back(o);
  }
  return ops;
}
static std::string hophuman(const std::vector<HOp> &ops, bool gnode = false) {
  std::string s;
  for (size_t i = 0; i < ops.size(); i++) {
    if (i) s += " ; ";
    const HOp &o = ops[i];
    if (o.kind == 'B') s += std::string(gnode && i ? "append " : "build ") + ratehuman(o.rates) + (gnode && i ? " + rebuild" : "");
    else if (o.kind == 'R') s += "rebuild";
    else { char b[48]; snprintf(b, sizeof b, "add %s%.6g + rebuild", o.kind == 'D' ? "decay " : "", o.rates[0]); s += b; }
  }
  return s;
}

struct RawObj {
  std::vector<Ev> evs;
  huffmanTree<Ev> tree;
  void build() { tree.setEvents(&evs); tree.makeTree(); }
  long lookup(double p) const {
    Ev *e = tree.findHoppingDestination(p);
    if (e == nullptr || e < evs.data() || e >= evs.data() + evs.size()) return -1;
    return (long)(e - evs.data());
  }
  std::vector<double> thr() const { std::vector<double> t; for (auto &nd : tree.htree) t.push_back(nd.probability); return t; }
};
struct GObj {
  Segment seg{"s", 0};
  GNode node{seg, QMStateType(QMStateType::Electron), true};
  GNode dest{seg, QMStateType(QMStateType::Electron), true};  // destination: never dereferenced by the lookup
  void add(double r, bool decay) { if (decay) node.AddDecayEvent(r); else node.AddEvent(&dest, Eigen::Vector3d(1, 0, 0), r); }
  void build() { node.InitEscapeRate(); node.MakeHuffTree(); }
  long lookup(double p) const {
    const GLink *e = node.findHoppingDestination(p), *base = node.events_.data();
    if (e == nullptr || e < base || e >= base + node.events_.size()) return -1;
    return (long)(e - base);
  }
  std::vector<double> thr() const { std::vector<double> t; for (auto &nd : node.hTree.htree) t.push_back(nd.probability); return t; }
};
// probes for the differential oracle: 0, 1, every threshold of either object, its neighbours, every gap midpoint
static std::vector<double> diffprobes(const std::vector<double> &t1, const std::vector<double> &t2) {
  std::vector<double> cuts{0.0, 1.0};
  for (auto *t : {&t1, &t2}) for (double x : *t) if (x > 0 && x < 1) cuts.push_back(x);
  std::sort(cuts.begin(), cuts.end());
  cuts.erase(std::unique(cuts.begin(), cuts.end()), cuts.end());
  std::vector<double> p{DBL_MIN, 0.5};
  for (size_t g = 0; g < cuts.size(); g++) {
    p.push_back(cuts[g]);
    if (cuts[g] < 1) p.push_back(std::nextafter(cuts[g], 2.0));
    if (cuts[g] > 0) p.push_back(std::nextafter(cuts[g], -1.0));
    if (g + 1 < cuts.size()) p.push_back(cuts[g] + (cuts[g + 1] - cuts[g]) / 2);
  }
  return p;
}

static bsx::Outcome run_hist(bool gnode, const std::vector<HOp> &ops) {
  bsx::Outcome o;
  const std::string who = gnode ? "gnode" : "tree";
  size_t step = 0;
  auto failwith = [&](const std::string &key, const std::string &what) {
    o.ok = false;
    o.key = std::string(step == 0 ? "hist-first-" : "hist-rebuild-") + key;
    o.what = what + "  after build #" + std::to_string(step + 1) + " of history on one " + (gnode ? "GNode" : "huffmanTree") + ": " + hophuman(ops, gnode);
    return o;
  };
  try {
    RawObj raw;
    std::unique_ptr<GObj> g(new GObj);
    std::vector<double> cur;      // current event rates of the object
    std::vector<char> curdecay;   // GNode: which of them are decay events
    std::string sig;
    for (step = 0; step < ops.size(); step++) {
      const HOp &op = ops[step];
      if (op.kind == 'B') {
        if (gnode) { for (double r : op.rates) { g->add(r, false); cur.push_back(r); curdecay.push_back(0); } }
        else { raw.evs.clear(); cur.clear(); curdecay.clear(); for (double r : op.rates) { raw.evs.push_back({r}); cur.push_back(r); curdecay.push_back(0); } }
      } else if (op.kind == 'A' || op.kind == 'D') {
        bool dec = op.kind == 'D';
        if (gnode) g->add(op.rates[0], dec); else raw.evs.push_back({op.rates[0]});
        cur.push_back(op.rates[0]); curdecay.push_back(dec && gnode);
      }
      if (cur.empty()) { o.extra = "EMPTY"; return o; }  // nothing to build (not enumerated)
      if (gnode) g->build(); else raw.build();
      // (1) exact partition with the CURRENT rates
      PartOut po = gnode ? check_partition(cur, g->thr(), [&](double p) { return g->lookup(p); }, who)
                         : check_partition(cur, raw.thr(), [&](double p) { return raw.lookup(p); }, who);
      if (!po.ok) return failwith(po.key, po.what);
      // (2) escape rate = sum of the current rates; events stored as given
      if (gnode) {
        long double sum = 0;
        for (double r : cur) sum += r;
        if (!(std::fabs(g->node.getEscapeRate() - (double)sum) <= 2.0 * double(cur.size()) * DBL_EPSILON * (double)sum))
          return failwith("gnode-escape-rate", "escape rate " + bsx::fmt(g->node.getEscapeRate()) + " != sum of the current event rates " + bsx::fmt((double)sum));
        if (g->node.Events().size() != cur.size()) return failwith("gnode-event-count", "event list has " + std::to_string(g->node.Events().size()) + " entries");
        for (size_t i = 0; i < cur.size(); i++)
          if (g->node.Events()[i].getRate() != cur[i] || g->node.Events()[i].isDecayEvent() != (bool)curdecay[i])
            return failwith("gnode-event-stored", "event " + std::to_string(i) + " stored with rate " + bsx::fmt(g->node.Events()[i].getRate()));
      }
      // (3) differential: identical answers to a fresh object built once with the same final list
      if (gnode) {
        std::unique_ptr<GObj> f(new GObj);
        for (size_t i = 0; i < cur.size(); i++) f->add(cur[i], curdecay[i]);
        f->build();
        if (f->node.getEscapeRate() != g->node.getEscapeRate())
          return failwith("gnode-escape-differs-from-fresh", "escape rate " + bsx::fmt(g->node.getEscapeRate()) + " but a fresh GNode with the same events has " + bsx::fmt(f->node.getEscapeRate()));
        for (double p : diffprobes(g->thr(), f->thr()))
          if (g->lookup(p) != f->lookup(p))
            return failwith("gnode-differs-from-fresh", "p=" + bsx::fmt(p) + " selects event " + std::to_string(g->lookup(p)) + " but a fresh GNode with the same events selects " + std::to_string(f->lookup(p)));
      } else {
        RawObj f;
        for (double r : cur) f.evs.push_back({r});
        f.build();
        for (double p : diffprobes(raw.thr(), f.thr()))
          if (raw.lookup(p) != f.lookup(p))
            return failwith("tree-differs-from-fresh", "p=" + bsx::fmt(p) + " selects event " + std::to_string(raw.lookup(p)) + " but a fresh tree with the same events selects " + std::to_string(f.lookup(p)));
      }
      sig += po.sig + "|";
    }
    o.extra = sig;
    o.cls = bsx::fnv(who + sig);
  } catch (const std::exception &e) {
    return failwith(who + "-throws", std::string("exception: ") + e.what());
  }
  return o;
}
static std::string histstr(bool gnode, const std::vector<HOp> &ops) { return std::string("hist;kind=") + (gnode ? "gnode" : "tree") + ";ops=" + hopstr(ops); }

// ======================================================================== rates
static const double EV = tools::conv::ev2hrt;
struct RateCase {
  int carrier = 0;          // 0 e, 1 h, 2 s, 3 t
  int style = 0;            // how the Rate_Engine is constructed / what happens to the caller's field afterwards (see stylename)
  double E1 = 0, E2 = 0;    // site energies (Hartree)
  double lam = 0, lo = 0;   // equal forward/backward reorganisation energy, outer-sphere part
  double J2a = 0, J2b = 0;  // two squared couplings
  double kT = 0;
  double F[3] = {0, 0, 0}, r1[3] = {0, 0, 0}, r2[3] = {0, 0, 0};
};
static std::string v3(const double *v) { return hexd(v[0]) + "," + hexd(v[1]) + "," + hexd(v[2]); }
static void p3(const std::string &s, double *v) {
  auto f = bsx::split(s, ',');
  for (int k = 0; k < 3; k++) v[k] = unhex(f[(size_t)k]);
}
static std::string ratecasestr(const RateCase &c) {
  return "rate;c=" + std::to_string(c.carrier) + ";E1=" + hexd(c.E1) + ";E2=" + hexd(c.E2) + ";lam=" + hexd(c.lam) + ";lo=" + hexd(c.lo) +
         ";J2a=" + hexd(c.J2a) + ";J2b=" + hexd(c.J2b) + ";kT=" + hexd(c.kT) + ";F=" + v3(c.F) + ";r1=" + v3(c.r1) + ";r2=" + v3(c.r2) + ";style=" + std::to_string(c.style);
}
static std::string ratecasehuman(const RateCase &c) {
  char b[400];
  const char *cn[4] = {"electron", "hole", "singlet", "triplet"};
  double nm = tools::conv::bohr2nm;
  snprintf(b, sizeof b, "%s dE=E2-E1=%.4g eV lambda=%.4g eV lambda_outer=%.4g eV J2=%.3g/%.3g Ha^2 T=%.4g K F=(%.3g,%.3g,%.3g) V/nm R12=(%.3g,%.3g,%.3g) nm",
           cn[c.carrier], (c.E2 - c.E1) / EV, c.lam / EV, c.lo / EV, c.J2a, c.J2b, c.kT / EV / tools::conv::kB, c.F[0] / EV / nm, c.F[1] / EV / nm,
           c.F[2] / EV / nm, (c.r2[0] - c.r1[0]) * nm, (c.r2[1] - c.r1[1]) * nm, (c.r2[2] - c.r1[2]) * nm);
  return b;
}

// ---- construction styles of the engine.  The engine must use the field (and kT) VALUE it was given at construction,
// whatever the caller does with its own variables afterwards and however long they live.
static const int NSTYLES = 8;
static const char *stylename(int k) {
  static const char *n[NSTYLES] = {"named field vector left alone (control)", "named field vector set to another field after construction", "named field vector set to zero after construction",
                                   "one field variable re-used for a sweep, engines evaluated afterwards", "engine constructed from a temporary expression",
                                   "engine returned by value from a helper whose local field went out of scope", "engine copy-constructed, source engine and its heap field destroyed",
                                   "engine copy-assigned, source engine and its heap field destroyed"};
  return n[k];
}
__attribute__((noinline)) static void clobber_stack() {  // overwrite dead stack frames with values that are no plausible field
  volatile double junk[1024];
  for (int i = 0; i < 1024; i++) junk[i] = 1e30 + double(i);
  asm volatile("" ::: "memory");
}
__attribute__((noinline)) static Rate_Engine engine_from_helper(double kT, const double *F) {
  Eigen::Vector3d local(F[0], F[1], F[2]);
  double localkT = kT;
  return Rate_Engine(localkT, local);
}
template <class E>
static void assign_engine(E &dst, const E &src) {  // copy assignment where the class has one, else destroy + copy-construct
  if constexpr (std::is_copy_assignable<E>::value) dst = src;
  else { dst.~E(); new (&dst) E(src); }
}

static bsx::Outcome run_rate(const RateCase &c) {
  bsx::Outcome o;
  const bool outer = c.lo != 0.0;
  auto failwith = [&](const std::string &key, const std::string &what) {
    o.ok = false; o.key = key + (c.style ? "-style" + std::to_string(c.style) : ""); o.what = what + "  [" + ratecasehuman(c) + (c.style ? std::string("; ") + stylename(c.style) : "") + "]";
    return o;
  };
  try {
    const QMStateType::statetype states[4] = {QMStateType::Electron, QMStateType::Hole, QMStateType::Singlet, QMStateType::Triplet};
    Eigen::Vector3d r1(c.r1[0], c.r1[1], c.r1[2]), r2(c.r2[0], c.r2[1], c.r2[2]), F(c.F[0], c.F[1], c.F[2]);
    Segment s1("a", 0), s2("b", 1);
    s1.push_back(Atom(0, "C", r1));
    s2.push_back(Atom(1, "C", r2));
    QMPair pair(0, &s1, &s2, r2 - r1);
    auto fill = [&](double J2) {
      for (int k = 0; k < 4; k++) {
        // the carrier under test gets the case values, the other three get different ones so
        // that reading the wrong carrier's slot is visible
        double w = k == c.carrier ? 1.0 : 1.7 + 0.4 * k;
        QMStateType st(states[k]);
        s1.setEMpoles(st, 0.75 * c.E1 * w);  s1.setU_xX_nN(0.25 * c.E1 * w, st);
        s2.setEMpoles(st, 0.75 * c.E2 * w);  s2.setU_xX_nN(0.25 * c.E2 * w, st);
        s1.setU_nX_nN(0.25 * c.lam * w, st); s2.setU_xN_xX(0.75 * c.lam * w, st);  // 1->2: lam
        s1.setU_xN_xX(0.5 * c.lam * w, st);  s2.setU_nX_nN(0.5 * c.lam * w, st);   // 2->1: lam
        pair.setLambdaO(c.lo * w, st);
        pair.setJeff2(J2 * w, st);
      }
    };
    QMStateType car(states[c.carrier]);
    fill(c.J2a);
    if (pair.getReorg12(car) != pair.getReorg21(car)) return failwith("harness-reorg-not-equal", "constructed reorganisation energies differ");
    // detailed-balance target for an engine that was GIVEN field Fg (energy of a carrier of charge q on site i: E_i - q F.r_i)
    const double q = c.carrier == 0 ? -1.0 : (c.carrier == 1 ? 1.0 : 0.0);
    const double E1 = s1.getSiteEnergy(car), E2 = s2.getSiteEnergy(car);
    auto frof = [&](const Eigen::Vector3d &Fg) { return q * Fg.dot(s2.getPos() - s1.getPos()); };
    // ---- build the engine in the style under test
    const Eigen::Vector3d Fother = -1.0 * F + Eigen::Vector3d(2e-5, -1e-5, 3e-5);  // another field of the same size (larger ones underflow exp() at 100 K), different q F.R
    std::unique_ptr<Rate_Engine> eng;
    Eigen::Vector3d mine = F;  // caller-side variables of styles 1 and 2
    double mykT = c.kT;
    std::vector<Rate_Engine> sweep;
    std::vector<Eigen::Vector3d> sweepF{Fother, F, 0.5 * F - Eigen::Vector3d(1e-5, 2e-5, -1e-5)};
    switch (c.style) {
      case 0: eng.reset(new Rate_Engine(c.kT, F)); break;
      case 1: case 2:  // the caller's variables stay alive but change before Rate() is called
        eng.reset(new Rate_Engine(mykT, mine));
        mine = c.style == 1 ? Fother : Eigen::Vector3d(Eigen::Vector3d::Zero());
        mykT *= 3;
        break;
      case 3: {
        Eigen::Vector3d f;  // ONE variable for the whole sweep
        sweep.reserve(sweepF.size());
        for (size_t i = 0; i < sweepF.size(); i++) { f = sweepF[i]; sweep.emplace_back(c.kT, f); }
        f.setConstant(7e-3);
        break;
      }
      case 4: eng.reset(new Rate_Engine(c.kT * 1.0, Eigen::Vector3d(c.F[0], c.F[1], c.F[2]) * 1.0)); break;
      case 5: eng.reset(new Rate_Engine(engine_from_helper(c.kT, c.F))); break;
      case 6: case 7: {
        std::unique_ptr<Eigen::Vector3d> hf(new Eigen::Vector3d(F));
        std::unique_ptr<Rate_Engine> src(new Rate_Engine(c.kT, *hf));
        if (c.style == 6) eng.reset(new Rate_Engine(*src));
        else { Eigen::Vector3d other = Fother; eng.reset(new Rate_Engine(c.kT * 2, other)); assign_engine(*eng, *src); other.setZero(); }
        src.reset();
        hf->setConstant(5e-3);
        hf.reset();
        break;
      }
    }
    clobber_stack();
    Rate_Engine &E = c.style == 3 ? sweep[1] : *eng;
    fill(c.J2a);
    Rate_Engine::PairRates ra = E.Rate(pair, car);
    fill(c.J2b);
    Rate_Engine::PairRates rb = E.Rate(pair, car);
    // control: an engine constructed here and now from a named vector that nobody touches
    Rate_Engine ctrl(c.kT, F);
    fill(c.J2a);
    Rate_Engine::PairRates ca = ctrl.Rate(pair, car);

    // positive
    for (double k : {ra.rate12, ra.rate21, rb.rate12, rb.rate21})
      if (!(k > 0) || !std::isfinite(k)) {
        bool neg = outer && c.lo >= c.lam;
        return failwith(neg ? "rate-not-positive-outer-lambda-ge-inner" : (outer ? "rate-not-positive-outer-lambda" : "rate-not-positive"),
                        "rates 12/21 = " + bsx::fmt(ra.rate12) + " / " + bsx::fmt(ra.rate21));
      }
    // linear in J^2
    {
      double want = c.J2b / c.J2a;
      for (int d = 0; d < 2; d++) {
        double got = d == 0 ? rb.rate12 / ra.rate12 : rb.rate21 / ra.rate21;
        if (std::fabs(got - want) > 16 * DBL_EPSILON * want)
          return failwith("rate-not-linear-in-J2", std::string(d ? "k21" : "k12") + " ratio " + bsx::fmt(got) + " for J2 ratio " + bsx::fmt(want));
      }
    }
    // detailed balance.  Energy of a carrier of charge q on site i in a uniform field: E_i - q F.r_i
    double fr = frof(F);
    double want = -((E2 - E1) - fr) / c.kT;
    double flipped = -((E2 - E1) + fr) / c.kT;
    double l12 = std::log(ra.rate12), l21 = std::log(ra.rate21);
    double got = l12 - l21;
    double tol = 1e-11 * (1.0 + std::fabs(l12) + std::fabs(l21) + std::fabs(want));
    if (!(std::fabs(got - want) <= tol)) {
      std::string key;
      if (outer) key = "balance-outer-lambda";
      else if (fr == 0) key = "balance-zero-field-term";
      else if (std::fabs(got - flipped) <= tol) key = "balance-field-sign";
      else key = "balance-field-term";
      return failwith(key, "ln(k12/k21) = " + bsx::fmt(got) + " but -(E2-E1 - q F.(r2-r1))/kT = " + bsx::fmt(want));
    }
    // same construction value => same rates as the control engine, bit for bit
    if (c.style && (ra.rate12 != ca.rate12 || ra.rate21 != ca.rate21))
      return failwith("rate-differs-from-control", "rates " + bsx::fmt(ra.rate12) + " / " + bsx::fmt(ra.rate21) + " but an engine freshly built from the same field value gives " +
                                                       bsx::fmt(ca.rate12) + " / " + bsx::fmt(ca.rate21));
    if (c.style == 3)  // every engine of the sweep answers for ITS field
      for (size_t i = 0; i < sweep.size(); i++) {
        fill(c.J2a);
        Rate_Engine::PairRates r = sweep[i].Rate(pair, car);
        double w = -((E2 - E1) - frof(sweepF[i])) / c.kT, g = std::log(r.rate12) - std::log(r.rate21);
        if (!(std::fabs(g - w) <= 1e-11 * (1.0 + std::fabs(std::log(r.rate12)) + std::fabs(std::log(r.rate21)) + std::fabs(w))))
          return failwith("balance-sweep-engine", "engine #" + std::to_string(i) + " of the sweep: ln(k12/k21) = " + bsx::fmt(g) + " but its field gives " + bsx::fmt(w));
      }
    char b[64];
    snprintf(b, sizeof b, "%d|%d|%.6e", c.carrier, c.style, got);
    o.cls = bsx::fnv(b);
    o.extra = "k12=" + bsx::fmt(ra.rate12) + " k21=" + bsx::fmt(ra.rate21) + " ln(k12/k21)=" + bsx::fmt(got);
  } catch (const std::exception &e) {
    return failwith(outer ? (c.lo == c.lam ? "rate-throws-outer-lambda-eq-inner" : "rate-throws-outer-lambda") : "rate-throws", std::string("exception: ") + e.what());
  }
  return o;
}

// ======================================================================== waiting time
class TestKMC : public KMCCalculator {
 public:
  std::string Identify() const override { return "c14"; }
  bool WriteToStateFile() const override { return false; }

 protected:
  bool Evaluate(Topology &) override { return true; }
  void ParseSpecificOptions(const tools::Property &) override {}
  void RunVSSM() override {}
};

struct TimeCase { double u = 0, k = 1; };
static std::string timestr(const TimeCase &c) { return "time;u=" + hexd(c.u) + ";k=" + hexd(c.k); }
static bool within_ulps(double got, long double ref, int ulps) {
  double r = (double)ref;
  if (got == r) return true;
  double step = std::fabs(std::nextafter(r, INFINITY) - r);
  return std::fabs((long double)got - ref) <= (long double)ulps * step;
}
static bsx::Outcome run_time(const TimeCase &c) {
  bsx::Outcome o;
  auto failwith = [&](const std::string &key, const std::string &what) {
    o.ok = false; o.key = key; o.what = what + "  [uniform draw u=" + bsx::fmt(c.u) + ", escape rate k=" + bsx::fmt(c.k) + "]";
    return o;
  };
  try {
    TestKMC kmc;
    kmc.RandomVariable_.script({c.u});
    double dt = kmc.Promotetime(c.k);
    if (kmc.RandomVariable_.consumed() != 1) return failwith("waiting-time-draws", "Promotetime consumed " + std::to_string(kmc.RandomVariable_.consumed()) + " uniform numbers");
    if (!std::isfinite(dt) || dt < 0) return failwith(c.u == 0 ? "waiting-time-not-finite-u0" : "waiting-time-not-finite", "dt = " + bsx::fmt(dt));
    // inverse-CDF identity: with x uniform on the unit interval, -ln(x)/k is exponential with rate k.
    // Both x = 1-u and x = u are uniform; either is accepted.
    double x1 = 1.0 - c.u;
    long double ref1 = -logl((long double)x1) / (long double)c.k;
    bool ok = within_ulps(dt, ref1, 4);
    if (!ok && c.u > 0) {
      long double ref2 = -logl((long double)c.u) / (long double)c.k;
      ok = within_ulps(dt, ref2, 4);
    }
    if (!ok) return failwith("waiting-time-inverse-cdf", "dt = " + bsx::fmt(dt) + " but -ln(1-u)/k = " + bsx::fmt((double)ref1));
    char b[64];
    snprintf(b, sizeof b, "t%.5e", dt);
    o.cls = dt > 0 ? bsx::fnv(b) : 0;
    o.extra = "dt=" + bsx::fmt(dt);

    // ChooseHoppingDest draws one uniform number and must return what the lookup returns for it
    Segment seg("s", 0);
    GNode node(seg, QMStateType(QMStateType::Electron), true);
    std::vector<GNode> dests(3, node);
    const double rr[3] = {1.0, 2.0, 5.0};
    for (int i = 0; i < 3; i++) node.AddEvent(&dests[(size_t)i], Eigen::Vector3d(i, 0, 0), rr[i] * c.k);
    node.InitEscapeRate();
    node.MakeHuffTree();
    kmc.RandomVariable_.script({c.u});
    const GLink &l = kmc.ChooseHoppingDest(node);
    const GLink *a = node.findHoppingDestination(1.0 - c.u), *bb = node.findHoppingDestination(c.u);
    if (&l != a && &l != bb) return failwith("choose-dest-not-lookup", "ChooseHoppingDest returned an event that the lookup returns for neither u nor 1-u");
  } catch (const std::exception &e) {
    return failwith("waiting-time-throws", std::string("exception: ") + e.what());
  }
  return o;
}

// ======================================================================== --case
static bsx::Outcome run_case(const std::string &cas) {
  auto m = bsx::kvs(cas);
  if (cas.rfind("tree;", 0) == 0) {
    TreeCase c;
    c.decay = atol(m["decay"].c_str());
    for (auto &t : bsx::split(m["rates"], ',')) c.rates.push_back(unhex(t));
    return run_tree(c);
  }
  if (cas.rfind("hist;", 0) == 0) return run_hist(m["kind"] == "gnode", parsehops(m["ops"]));
  if (cas.rfind("rate;", 0) == 0) {
    RateCase c;
    c.carrier = atoi(m["c"].c_str());
    c.style = atoi(m["style"].c_str());
    c.E1 = unhex(m["E1"]); c.E2 = unhex(m["E2"]); c.lam = unhex(m["lam"]); c.lo = unhex(m["lo"]);
    c.J2a = unhex(m["J2a"]); c.J2b = unhex(m["J2b"]); c.kT = unhex(m["kT"]);
    p3(m["F"], c.F); p3(m["r1"], c.r1); p3(m["r2"], c.r2);
    return run_rate(c);
  }
  TimeCase c;
  c.u = unhex(m["u"]); c.k = unhex(m["k"]);
  return run_time(c);
}

// ======================================================================== enumeration
static std::vector<double> longlist(const std::string &kind, long n) {
  std::vector<double> r((size_t)n);
  for (long i = 0; i < n; i++) {
    if (kind == "equal") r[(size_t)i] = 3.0;
    else if (kind == "geom") r[(size_t)i] = n > 1 ? std::pow(10.0, -6.0 + 12.0 * double(i) / double(n - 1)) : 1.0;
    else if (kind == "geomdesc") r[(size_t)i] = n > 1 ? std::pow(10.0, 6.0 - 12.0 * double(i) / double(n - 1)) : 1.0;
    else if (kind == "dominant") r[(size_t)i] = i == n / 2 ? 1e12 : 1.0;
    else if (kind == "tiny") r[(size_t)i] = i == n / 3 ? 1e-12 : 1.0;
    else if (kind == "ramp") r[(size_t)i] = double(i + 1);
    else if (kind == "alt") r[(size_t)i] = i % 2 ? 1e3 : 1e-3;
    else r[(size_t)i] = double((i * 7919) % 13 + 1) * std::pow(10.0, double((i * 31) % 5) - 2.0);  // "mixed": fixed arithmetic pattern
  }
  return r;
}

// DESIGN §6: a timed-out deterministic case is re-run alone with a 10x limit before it is called a hang
// (on an overloaded machine a child can be stalled past the per-case alarm).
template <class F>
static bsx::Outcome retry_if_alarm(const bsx::Outcome &o, F fn) {
  if (o.ok || o.key != "fatal" || o.what.find("signal 14") == std::string::npos) return o;
  bsx::Outcome r = o;
  bsx::contained(0, 1, [&](long long) { return fn(); }, [&](long long, const bsx::Outcome &x) { r = x; }, 3000);
  return r;
}

int main(int argc, char **argv) {
  bsx::Args a = bsx::parse(argc, argv);
  if (a.has_case) {
    bsx::Outcome o;
    bsx::contained(0, 1, [&](long long) { return run_case(a.cas); }, [&](long long, const bsx::Outcome &r) { o = r; });
    if (o.ok) { printf("case holds  %s\n", o.extra.c_str()); return 0; }
    printf("case FAILS: key=%s %s\n", o.key.c_str(), o.what.c_str());
    return 3;
  }
  bsx::Report R;
  R.property = "C14"; R.part = "kmc"; R.tier = a.tier;
  R.max_samples = 12;
  const bool thorough = a.tier == "thorough";

  // ---------------- trees
  std::vector<TreeCase> trees;
  {
    // all ordered event lists (order matters for tie-breaking in the priority queues)
    std::vector<double> A = thorough ? std::vector<double>{1e-6, 1e-3, 1.0, std::nextafter(1.0, 2.0), 2.0, 1e6} : std::vector<double>{1e-6, 1.0, 2.0, 1e6};
    int Lmax = thorough ? 8 : 7;
    for (int L = 1; L <= Lmax; L++) {
      std::vector<int> idx((size_t)L, 0), radix((size_t)L, (int)A.size());
      long long cnt = 0;
      do {
        TreeCase c;
        for (int k = 0; k < L; k++) c.rates.push_back(A[(size_t)idx[(size_t)k]]);
        c.decay = (L >= 2 && cnt % 3 == 0) ? L - 1 : -1;
        trees.push_back(c);
        cnt++;
      } while (bsx::next(idx, radix));
    }
    std::vector<long> ns = thorough ? std::vector<long>{} : std::vector<long>{8, 9, 10, 15, 16, 17, 31, 32, 33, 63, 64, 99, 100};
    if (thorough) for (long n = 1; n <= 100; n++) ns.push_back(n);
    for (long n : ns)
      for (std::string kind : {"equal", "geom", "geomdesc", "dominant", "tiny", "ramp", "alt", "mixed"}) {
        TreeCase c;
        c.rates = longlist(kind, n);
        c.decay = n % 4 == 0 ? 0 : -1;
        trees.push_back(c);
      }
  }
  R.counters["tree_cases_total"] = (long long)trees.size();
  // ---------------- histories on one object
  struct HistCase { bool gnode; std::vector<HOp> ops; };
  std::vector<HistCase> hists;
  {
    std::vector<std::vector<double>> lists = {{1.0}, {1e6}, {1.0, 1.0}, {1e-6, 1e6}, {2.0, 2.0, 2.0}, {1e-6, 1.0, 1e6}, {1, 1, 1, 1, 1},
                                              {1e-6, 1e-3, 1.0, 1e3, 1e6}, longlist("equal", 8), longlist("geom", 8)};
    const int depth = thorough ? 4 : 3;
    for (int gn = 0; gn < 2; gn++) {
      std::vector<HOp> alpha;
      for (auto &l : lists) alpha.push_back({'B', l});
      for (double r : {1e-6, 1.0, 1e6}) alpha.push_back({'A', {r}});
      if (gn) { alpha.push_back({'D', {1.0}}); alpha.push_back({'D', {1e-6}}); }
      alpha.push_back({'R', {}});
      for (int L = 2; L <= depth; L++) {
        std::vector<int> idx((size_t)L, 0), radix((size_t)L, (int)alpha.size());
        do {
          if (alpha[(size_t)idx[0]].kind == 'R') continue;  // nothing to rebuild yet
          HistCase h;
          h.gnode = gn;
          for (int k = 0; k < L; k++) h.ops.push_back(alpha[(size_t)idx[(size_t)k]]);
          hists.push_back(h);
        } while (bsx::next(idx, radix));
      }
    }
  }
  R.counters["hist_cases_total"] = (long long)hists.size();
  // ---------------- rates
  std::vector<RateCase> rates;
  {
    const double nm = tools::conv::nm2bohr;
    const double Vnm = EV * tools::conv::bohr2nm;  // V/nm -> Hartree/bohr
    std::vector<double> dEs = thorough ? std::vector<double>{-0.3, -0.05, 0.0, 0.01, 0.1, 0.3} : std::vector<double>{-0.3, 0.0, 0.1};
    std::vector<double> lams = thorough ? std::vector<double>{0.05, 0.1, 0.3, 0.7} : std::vector<double>{0.05, 0.3};
    std::vector<double> los = thorough ? std::vector<double>{0.0, 0.02, 0.1, 0.5} : std::vector<double>{0.0, 0.02, 0.1};
    std::vector<double> Ts = thorough ? std::vector<double>{100, 300, 1000} : std::vector<double>{100, 300};
    std::vector<std::pair<double, double>> Js = thorough ? std::vector<std::pair<double, double>>{{1e-6, 1e-2}, {1e-2, 1e-6}, {1e-10, 3e-10}}
                                                          : std::vector<std::pair<double, double>>{{1e-6, 1e-2}};
    std::vector<double> Fmag = thorough ? std::vector<double>{1e-2, 3e-2, 1e-1} : std::vector<double>{1e-2, 1e-1};  // V/nm (1e7..1e8 V/m); larger drops underflow exp() at 100 K
    std::vector<std::array<double, 3>> Rs = {{1.0, 0, 0}, {0.6, -0.5, 0.8}};
    if (thorough) { Rs.push_back({0, 0, -2.0}); Rs.push_back({-0.3, 0.4, 0.0}); }
    for (auto &Rv : Rs) {
      Eigen::Vector3d Rn(Rv[0], Rv[1], Rv[2]);
      Eigen::Vector3d along = Rn.normalized();
      Eigen::Vector3d across = along.cross(Eigen::Vector3d(0.3, 0.5, -0.8)).normalized();
      std::vector<Eigen::Vector3d> Fs{Eigen::Vector3d::Zero()};
      for (double f : Fmag) {
        Fs.push_back(f * along); Fs.push_back(-f * along);
        Fs.push_back(f * across); Fs.push_back(-f * across);
        Fs.push_back(f * Eigen::Vector3d(0.48, -0.6, 0.64));
      }
      for (double dE : dEs) for (double lam : lams) for (double lo : los) for (auto &J : Js) for (double T : Ts) for (auto &Fv : Fs)
        for (int car = 0; car < 4; car++) {
          RateCase c;
          c.carrier = car;
          c.E1 = 0.2 * (car + 1) * EV; c.E2 = c.E1 + dE * EV;
          c.lam = lam * EV; c.lo = lo * EV; c.J2a = J.first; c.J2b = J.second;
          c.kT = tools::conv::kB * T * EV;
          for (int k = 0; k < 3; k++) { c.F[k] = Fv[k] * Vnm; c.r1[k] = (k == 0 ? 0.3 : (k == 1 ? -0.2 : 0.1)) * nm; c.r2[k] = c.r1[k] + Rv[(size_t)k] * nm; }
          for (int st = 0; st < NSTYLES; st++) { c.style = st; rates.push_back(c); }
        }
    }
  }
  R.counters["rate_cases_total"] = (long long)rates.size();
  // ---------------- waiting times
  std::vector<TimeCase> times;
  {
    const double one_m = std::nextafter(1.0, 0.0);
    std::vector<double> us{0.0, DBL_MIN, 1e-300, 1e-17, 0x1p-53, 1e-12, 1e-9, 1e-6, 1e-3, 0.01, 0.1, 0.25, std::nextafter(0.5, 0.0), 0.5,
                           std::nextafter(0.5, 1.0), 0.6321205588285577, 0.75, 0.9, 0.99, 0.999, 1 - 1e-6, 1 - 1e-9, 1 - 1e-12, 1 - 0x1p-52, one_m};
    std::vector<double> ks{1e-3, 1.0, 7.3e5, 1e12, 1e15};
    if (thorough) { ks.push_back(1e-12); ks.push_back(3.0); ks.push_back(1e18); for (int j = 1; j < 64; j++) us.push_back(double(j) / 64.0 + 1e-3); }
    for (double k : ks) for (double u : us) times.push_back({u, k});
  }
  R.counters["time_cases_total"] = (long long)times.size();

  R.rule = std::string("(tree) every ORDERED event list of length 1.." + std::string(thorough ? "8" : "7") + " over the rate alphabet ") +
           (thorough ? "{1e-6,1e-3,1,1+ulp,2,1e6}" : "{1e-6,1,2,1e6}") +
           " (12 decades, equal rates, odd/even counts) and long lists n in " + (thorough ? "1..100" : "{8,9,10,15,16,17,31,32,33,63,64,99,100}") +
           " x {all equal, geometric over 12 decades up/down, one dominant 1e12, one tiny 1e-12, ramp, alternating, mixed}: ALL decision thresholds of "
           "huffmanTree<T> (tiny T) and of GNode's tree are read, findHoppingDestination is evaluated at 0, 1, every threshold, its two neighbours "
           "and the midpoint of every gap => exact measure of each event's preimage, compared with rate/sum(rates) (tolerance 4(n+2) eps), every "
           "probed number must select an event of the list, escape rate = sum. (rate) Rate_Engine::Rate on constructed Segment/QMPair over 8 engine construction styles (named field left alone / set to another field / set to zero "
           "after construction, one variable re-used for a sweep, temporary expression, returned from a helper, copy-constructed and copy-assigned with the "
           "source destroyed; stack clobbered before Rate(); the engine must answer for the field VALUE given at construction, bit-identical to a fresh control engine) x dE x "
           "lambda x lambda_outer x J^2 pairs x T x field (0, +-along R, +-across R, generic; 1e7..1e8 V/m) x carriers e/h/s/t x pair vectors: rates "
           "finite > 0, linear in J^2 (16 eps), ln(k12/k21) = -(E2-E1 - q F.(r2-r1))/kT. (time) KMCCalculator::Promotetime with scripted uniform "
           "numbers u incl. 0 and 1-2^-53 x escape rates: finite, >= 0, equals -ln(x)/k for x = 1-u or x = u within 4 ulp; ChooseHoppingDest "
           "returns the lookup's answer. distinct_nontrivial = distinct partitions (event order along [0,1]) + distinct (carrier, ln k12/k21) + distinct dt";

  long long gi = 0;  // global case index for sharding
  long long crashes = 0;
  const long long MAXCRASH = 24;
  // trees: contained (a broken tree may crash)
  {
    std::vector<long long> mine;
    for (long long i = 0; i < (long long)trees.size(); i++) if (a.mine(gi + i)) mine.push_back(i);
    gi += (long long)trees.size();
    bsx::contained(
        0, (long long)mine.size(),
        [&](long long j) {
          if (crashes >= MAXCRASH) { bsx::Outcome s; s.extra = "SKIPPED"; return s; }  // the child is re-forked after every crash and sees the count
          return run_tree(trees[(size_t)mine[(size_t)j]]);
        },
        [&](long long j, const bsx::Outcome &o0) {
          const TreeCase &c = trees[(size_t)mine[(size_t)j]];
          const bsx::Outcome o = retry_if_alarm(o0, [&] { return run_tree(c); });
          if (o.extra == "SKIPPED") { R.cap("more than " + std::to_string(MAXCRASH) + " crashing cases: remaining tree cases skipped"); return; }
          R.eval(); R.counters["tree_cases"]++;
          if (!o.ok && o.key == "fatal") crashes++;
          if (!o.ok) {
            std::string key = o.key == "fatal" ? std::string(o.what.find("signal 14") != std::string::npos ? "tree-timeout-" : "tree-crash-") + (c.rates.size() % 2 ? "odd" : "even") : o.key;
            R.fail(key, o.what + (o.key == "fatal" ? "  rates=" + ratehuman(c.rates) : ""), treestr(c));
            return;
          }
          R.cls(o.cls);
          if (R.samples.size() < 4 && (c.rates.size() == 5 || c.rates.size() == 9) && mine[(size_t)j] % 7 == 3)
            R.sample("tree rates=" + ratehuman(c.rates) + " -> events along [0,1]: " + o.extra);
        },
        300);  // generous: on an overloaded machine a child blocked on the result pipe must not be mistaken for a hang
  }
  {  // histories
    std::vector<long long> mine;
    for (long long i = 0; i < (long long)hists.size(); i++) if (a.mine(gi + i)) mine.push_back(i);
    gi += (long long)hists.size();
    long long shown = 0;
    bsx::contained(
        0, (long long)mine.size(),
        [&](long long j) {
          if (crashes >= MAXCRASH) { bsx::Outcome s; s.extra = "SKIPPED"; return s; }
          const HistCase &h = hists[(size_t)mine[(size_t)j]];
          return run_hist(h.gnode, h.ops);
        },
        [&](long long j, const bsx::Outcome &o0) {
          long long i = mine[(size_t)j];
          const HistCase &h = hists[(size_t)i];
          const bsx::Outcome o = retry_if_alarm(o0, [&] { return run_hist(h.gnode, h.ops); });
          if (o.extra == "SKIPPED") { R.cap("more than " + std::to_string(MAXCRASH) + " crashing cases: remaining history cases skipped"); return; }
          R.eval(); R.counters["hist_cases"]++; R.counters["hist_builds"] += (long long)h.ops.size();
          if (!o.ok && o.key == "fatal") crashes++;
          if (!o.ok) { R.fail(o.key == "fatal" ? std::string(o.what.find("signal 14") != std::string::npos ? "hist-timeout-" : "hist-crash-") + (h.gnode ? "gnode" : "tree") : o.key, o.what + (o.key == "fatal" ? "  history: " + hophuman(h.ops, h.gnode) : ""), histstr(h.gnode, h.ops)); return; }
          R.cls(o.cls);
          if (shown < 3 && i % 487 == 101) { R.sample(std::string("history on one ") + (h.gnode ? "GNode: " : "huffmanTree: ") + hophuman(h.ops, h.gnode) + " -> events along [0,1] after each build: " + o.extra); shown++; }
        },
        300);  // generous: on an overloaded machine a child blocked on the result pipe must not be mistaken for a hang
  }
  {  // rates (contained: sanitizer / assertion aborts are attributed to the case)
    std::vector<long long> mine;
    for (long long i = 0; i < (long long)rates.size(); i++) if (a.mine(gi + i)) mine.push_back(i);
    gi += (long long)rates.size();
    long long shown = 0;
    bsx::contained(
        0, (long long)mine.size(),
        [&](long long j) {
          if (crashes >= MAXCRASH) { bsx::Outcome s; s.extra = "SKIPPED"; return s; }
          return run_rate(rates[(size_t)mine[(size_t)j]]);
        },
        [&](long long j, const bsx::Outcome &o0) {
          long long i = mine[(size_t)j];
          const RateCase &c = rates[(size_t)i];
          const bsx::Outcome o = retry_if_alarm(o0, [&] { return run_rate(c); });
          if (o.extra == "SKIPPED") { R.cap("more than " + std::to_string(MAXCRASH) + " crashing cases: remaining rate cases skipped"); return; }
          if (!o.ok && o.key == "fatal") crashes++;
          R.eval(); R.counters["rate_cases"]++;
          if (!o.ok) { R.fail(o.key == "fatal" ? std::string(o.what.find("signal 14") != std::string::npos ? "rate-timeout" : "rate-crash") + (c.style ? "-style" + std::to_string(c.style) : "") : o.key, o.what + (o.key == "fatal" ? "  [" + ratecasehuman(c) + "]" : ""), ratecasestr(c)); return; }
          R.cls(o.cls);
          if (shown < 4 && i % 601 == 77) { R.sample("rate " + ratecasehuman(c) + " -> " + o.extra); shown++; }
        },
        300);  // generous: on an overloaded machine a child blocked on the result pipe must not be mistaken for a hang
  }
  {  // waiting times
    std::vector<long long> mine;
    for (long long i = 0; i < (long long)times.size(); i++) if (a.mine(gi + i)) mine.push_back(i);
    long long shown = 0;
    bsx::contained(
        0, (long long)mine.size(),
        [&](long long j) {
          if (crashes >= MAXCRASH) { bsx::Outcome s; s.extra = "SKIPPED"; return s; }
          return run_time(times[(size_t)mine[(size_t)j]]);
        },
        [&](long long j, const bsx::Outcome &o0) {
          long long i = mine[(size_t)j];
          const TimeCase &c = times[(size_t)i];
          const bsx::Outcome o = retry_if_alarm(o0, [&] { return run_time(c); });
          if (o.extra == "SKIPPED") { R.cap("more than " + std::to_string(MAXCRASH) + " crashing cases: remaining waiting-time cases skipped"); return; }
          if (!o.ok && o.key == "fatal") crashes++;
          R.eval(); R.counters["time_cases"]++;
          if (!o.ok) { R.fail(o.key == "fatal" ? "time-crash" : o.key, o.what + (o.key == "fatal" ? "  [u=" + bsx::fmt(c.u) + " k=" + bsx::fmt(c.k) + "]" : ""), timestr(c)); return; }
          if (o.cls) R.cls(o.cls);
          if (shown < 3 && i % 29 == 11) { R.sample("time u=" + bsx::fmt(c.u) + " k=" + bsx::fmt(c.k) + " -> " + o.extra); shown++; }
        },
        300);  // generous: on an overloaded machine a child blocked on the result pipe must not be mistaken for a hang
  }
  R.assumptions = {
      "thresholds are read from huffmanTree::htree[].probability (-fno-access-control); the lookup is assumed to compare p only against these "
      "(checked: constant at both ends and the midpoint of every gap)",
      "a number exactly on a threshold may select either neighbouring event (tie, measure zero)",
      "field term: physically determined sign, a carrier of charge q on site i has energy E_i - q F.r_i with r_i the segment position; the "
      "statement's formula is this one with R = r1 - r2",
      "uniform source of KMCCalculator scripted through harness/C14_random_seam.h (replaces tools::Random); both x=1-u and x=u accepted as the uniform number",
      "QMCalculator::Initialize/EvaluateFrame are link stubs (qmcalculator.cc needs libint)"};
  if (!R.write(a.out)) { fprintf(stderr, "cannot write %s\n", a.out.c_str()); return 2; }
  return 0;
}
