#!/usr/bin/env python3
"""C13 (executable part) — csg_density on frames with unwrapped coordinates.

The built csg_density executable is run with --axis x|y|z on generated topologies / gro frames whose
beads sit at coordinates far outside the box on both sides, exactly on box faces and on bin edges.
Oracle (periodic histogram over [0, L) with nbin = floor(L/step) bins centred on k*L/nbin):
every bead is counted with its weight (1 or its mass) in the bin of its coordinate modulo L (nearest
centre; a coordinate within 1e-6 bins of an edge may go to either neighbour), so the integrated
density equals the total weight per frame; the process never crashes.
"""
import itertools, math, os, subprocess, sys
sys.path.insert(0, os.path.join(os.environ.get("VERIF_ROOT", "/verif"), "lib"))
import pybsx

BOX = (3.0, 4.0, 5.0)


def write_inputs(beads, masses, nframes, shift):
    n = len(beads)
    with open("top.xml", "w") as f:
        f.write('<topology>\n <molecules>\n')
        for i in range(n):
            f.write('  <molecule name="M%d" nmols="1" nbeads="1">\n   <bead name="A" type="A" mass="%g" q="0" />\n  </molecule>\n' % (i, masses[i]))
        f.write(' </molecules>\n</topology>\n')
    with open("conf.gro", "w") as f:
        for fr in range(nframes):
            f.write("frame t= %d.0\n%5d\n" % (fr, n))
            for i, (x, y, z) in enumerate(beads):
                f.write("%5d%-5s%5s%5d%8.3f%8.3f%8.3f\n" % (i + 1, "M%d" % i, "A", i + 1, x + fr * shift[0], y + fr * shift[1], z + fr * shift[2]))
            f.write("%10.5f%10.5f%10.5f\n" % BOX)


def expected_bins(values_w, L, nbin):
    """allowed bin sets per value + total; returns list of (set_of_bins, w)"""
    out = []
    step = L / nbin if nbin > 1 else 1.0
    for v, w in values_w:
        q = v / step + 0.5
        fl = math.floor(q)
        cand = {fl}
        frac = q - fl
        if frac < 1e-6:
            cand.add(fl - 1)
        if 1 - frac < 1e-6:
            cand.add(fl + 1)
        out.append(({int(c) % nbin for c in cand} if nbin > 1 else {0}, w))
    return out


def run_case(case):
    axis, step, typ, nframes, placement, masses, shift = case
    write_inputs(placement, masses, nframes, shift)
    if os.path.exists("dens.dat"):
        os.unlink("dens.dat")
    p = subprocess.run([pybsx.exe("csg_density"), "--top", "top.xml", "--trj", "conf.gro", "--axis", axis, "--step", repr(step), "--type", typ,
                        "--out", "dens.dat"], stdout=subprocess.PIPE, stderr=subprocess.STDOUT, timeout=300)
    ai = "xyz".index(axis)
    L = BOX[ai]
    area = BOX[(ai + 1) % 3] * BOX[(ai + 2) % 3]
    nbin = int(math.floor(L / step))
    key_sfx = "-nbin1" if nbin == 1 else ""
    if p.returncode != 0:
        sig = p.returncode < 0
        return ("density-crash" if sig else "density-tool-failed") + key_sfx, "csg_density exit status %d: %s" % (p.returncode, p.stdout.decode(errors="replace")[-300:].replace("\n", " / ")), None
    rows = []
    for line in open("dens.dat"):
        t = line.split()
        if not t or t[0].startswith("#"):
            continue
        rows.append((float(t[0]), float(t[1])))
    if len(rows) != nbin:
        return "density-bin-count" + key_sfx, "%d rows written, %d bins expected" % (len(rows), nbin), None
    binvol = area * L / nbin
    counts = [y * binvol * nframes for _, y in rows]     # back to accumulated weights
    vw = []
    for fr in range(nframes):
        for i, b in enumerate(placement):
            # the tool reads the 3-decimal gro value
            v = float("%8.3f" % (b[ai] + fr * shift[ai]))
            vw.append((v, masses[i] if typ == "mass" else 1.0))
    total = sum(w for _, w in vw)
    if abs(sum(counts) - total) > 1e-6 * max(1.0, total):
        far = any(abs(v) >= L for v, _ in vw)
        return "density-weight-not-conserved" + ("-unwrapped" if far else "") + key_sfx, \
            "integrated density gives total weight %.9g, beads carry %.9g (axis %s, L=%g, nbin=%d, values %s)" % (sum(counts), total, axis, L, nbin, [v for v, _ in vw]), None
    # per-bin placement: greedy check that some assignment of tie values reproduces the counts
    exp = expected_bins(vw, L, nbin)
    fixed = [0.0] * nbin
    ties = []
    for s, w in exp:
        if len(s) == 1:
            fixed[next(iter(s))] += w
        else:
            ties.append((sorted(s), w))
    ok = False
    for choice in itertools.product(*[t[0] for t in ties]) if ties else [()]:
        c = list(fixed)
        for k, (_, w) in zip(choice, ties):
            c[k] += w
        if all(abs(a - b) <= 1e-6 * max(1.0, abs(b)) for a, b in zip(counts, c)):
            ok = True
            break
    if not ok:
        return "density-wrong-bin" + key_sfx, "bin weights %s, expected %s (+ties %s)" % (["%.6g" % c for c in counts], ["%.6g" % c for c in fixed], ties), None
    return None, "", tuple(round(c, 6) for c in counts)


def cases(thorough):
    out = []
    # coordinates along the probed axis as multiples of L (other axes get harmless in-box values)
    fracs = [-1.0, -0.5, -0.1, 0.0, 0.25, 0.999, 1.0, 1.5, 2.0 + 0.2 / 3.0, -2.75, 3.3]
    if thorough:
        fracs += [-7.25, 12.6, 0.5, 0.05, -1.0 - 1e-3]
    sets = []
    for i in range(0, len(fracs), 2):
        sets.append(fracs[i:i + 4] if i + 4 <= len(fracs) else (fracs[i:] + fracs[:4])[:4])
    sets.append([0.1, 0.2, 0.3, 0.4])          # all inside
    sets.append([-1.0, -2.0, -3.0, -1.0])      # negative multiples of the box length
    for axis in "xyz":
        ai = "xyz".index(axis)
        L = BOX[ai]
        for step in ([L / 10.0, L / 3.0, 0.7 * L, 0.5] + ([L / 7.0, 0.9 * L, L / 2.0] if thorough else [])):
            for typ in ("number", "mass"):
                for nframes in ((1, 2) if thorough else (1,)) if typ == "mass" else (1, 2):
                    for s in sets:
                        placement = []
                        for j, fr in enumerate(s):
                            p = [0.3 + 0.1 * j, 0.4 + 0.1 * j, 0.5 + 0.1 * j]
                            p[ai] = fr * L
                            placement.append(tuple(p))
                        masses = [1.0, 2.0, 0.5, 3.0][:len(s)]
                        shift = [0.0, 0.0, 0.0]
                        shift[ai] = 0.37
                        out.append((axis, step, typ, nframes, placement, masses, tuple(shift)))
    return out


def case_str(c):
    return repr(c)


def main():
    a = pybsx.parse()
    if a.case is not None:
        c = eval(a.case, {"__builtins__": {}})
        key, what, _ = run_case(c)
        if key:
            print("case FAILS:", key, what)
            return 3
        print("case holds")
        return 0
    R = pybsx.Report("C13", "density", a.tier)
    R.rule = ("the built csg_density executable, --axis x|y|z, number and mass density, steps giving 10/3/1/several bins, 1-2 frames, beads at unwrapped "
              "coordinates (multiples of the box length on both sides, box faces, far images): integrated density = total weight, every bead in the bin of "
              "its coordinate modulo the box length, no crash. distinct_nontrivial = distinct resulting bin-weight vectors")
    for i, c in enumerate(cases(a.tier == "thorough")):
        if not a.mine(i):
            continue
        R.eval()
        try:
            key, what, obs = run_case(c)
        except subprocess.TimeoutExpired:
            key, what, obs = "density-hang", "csg_density did not finish within 300 s", None
        if key:
            R.fail(key, what + "  [" + case_str(c)[:300] + "]", case_str(c))
        else:
            R.cls((c[0], c[1], obs))
            if len(R.samples) < 4:
                R.sample("axis=%s step=%.3g type=%s frames=%d coords=%s -> bin weights %s" % (c[0], c[1], c[2], c[3], [p["xyz".index(c[0])] for p in c[4]], obs))
    R.assumptions = ["coordinates as printed in the gro file (3 decimals); a value within 1e-6 bins of an edge may go to either bin"]
    R.write(a.out)
    return 0


if __name__ == "__main__":
    sys.exit(main())
